"""C04 Freshness: only requests within 15 minutes of server time are accepted (structural clauses)."""
from lib import *
from registry import Module

M = Module(
    "C04",
    "Freshness window",
    "K7 constant evaluation of the allowed mismatch handed to validate_signature (must be a chrono duration constructor of a constant "
    "evaluating to 900 s); in prevalidate the window bounds are server_timestamp -/+ allowed_mismatch through chrono's checked arithmetic, "
    "the two rejecting comparisons are the strict `<`/`>` of DateTime<Utc> instants in the right operand order (the finite set of other "
    "orderings/operators is a violation), both exits construct SignatureDoesNotMatch, they precede any provider lookup, and no other branch "
    "of the validation path depends on a timestamp. Decides the shape, not chrono's arithmetic.",
    ["chrono's DateTime ordering and checked_{add,sub}_signed are correct", "behaviour when server_timestamp +/- 15 min leaves chrono's range is outside the property (window collapses; recorded as observation O5)"],
)

PV = "auth::SigV4Authenticator::prevalidate"
VS = "auth::SigV4Authenticator::validate_signature"
ENTRY = "signature::sigv4_validate_request"

UNIT_SECONDS = {"weeks": 604800, "days": 86400, "hours": 3600, "minutes": 60, "seconds": 1}


@M.rule("C04-R1", "allowed mismatch is a constant 15 minutes")
def r1(ctx):
    b = ctx.co(ENTRY)
    vs = one(b.calls(r"SigV4Authenticator::validate_signature$"), "validate_signature call in entry point")
    od = b.origin_def(vs[1]["args"][4])
    ctx.count()
    if od and od[0] == "const" and od[1].get("def"):
        # a named `const X: Duration = Duration::minutes(15)`: the constructor call sits in the constant's own body
        try:
            cb_ = ctx.facts.body(od[1]["def"])
            cc = one(cb_.calls(r"chrono::TimeDelta::(try_)?(weeks|days|hours|minutes|seconds|milliseconds)$"), "duration constructor in " + od[1]["def"])
            if not [x for x in cb_.all_calls() if x[1] is not cc[1]] or len(cb_.all_calls()) == 1:
                b = cb_
                od = ("def", {"kind": "call", "term": cc[1], "block": cc[0]})
        except AnchorMissing:
            pass
    if not (od and od[0] == "def" and od[1]["kind"] == "call"):
        yield MISSING("C04-R1", "entry/allowed-mismatch-shape", "allowed_mismatch argument is not the direct result of a duration constructor (configurable/computed window: review needed)", where=b.span_of_block(vs[0]))
        return
    t = od[1]["term"]
    m = re.search(r"chrono::TimeDelta::(try_)?(weeks|days|hours|minutes|seconds|milliseconds)$", t.get("callee", ""))
    if not m:
        yield MISSING("C04-R1", "entry/allowed-mismatch-ctor", "allowed_mismatch comes from `%s`, not a recognised chrono duration constructor" % t.get("callee"), where=b.span_of_block(od[1]["block"]))
        return
    c = op_const(b.resolve_copy(t["args"][0]))
    v = const_value(c) if c else None
    if not isinstance(v, int):
        yield MISSING("C04-R1", "entry/allowed-mismatch-const", "duration constructor argument is not a constant", where=b.span_of_block(od[1]["block"]))
        return
    unit = m.group(2)
    secs = v / 1000.0 if unit == "milliseconds" else v * UNIT_SECONDS[unit]
    if secs != 900:
        yield VIOL("C04-R1", "entry/allowed-mismatch-value", "allowed mismatch is %s(%d) = %s s, not 900 s (15 min)" % (unit, v, secs), where=b.span_of_block(od[1]["block"]))
    else:
        yield PASS("C04-R1", "entry/allowed-mismatch-value", "TimeDelta::%s(%d) = 900 s%s" % (unit, v, " via " + c["def"] if c.get("def") else ""), [site(b, od[1]["block"], "duration")])
    # validate_signature passes it unchanged to prevalidate (C03-R6 checks the position); here: no arithmetic on it
    v_ = ctx.co(VS)
    pv = one(v_.calls(r"SigV4Authenticator::prevalidate$"), "prevalidate call")
    od2 = v_.origin_def(pv[1]["args"][4])
    am = param_by_name(v_, "allowed_mismatch")
    if not (od2 and ((od2[0] == "place" and od2[1]["local"] == 1) or (od2[0] == "multi" and od2[1] == am) or (od2[0] == "param") or (od2[0] == "def" and od2[1]["kind"] == "assign" and op_local(od2[1]["stmt"]["rv"].get("op", {})) in (1, am)))):
        sl = v_.slice_op(pv[1]["args"][4])
        if sl.calls or am not in sl.locals:
            yield VIOL("C04-R1", "validate_signature/allowed-mismatch-modified", "allowed_mismatch is transformed before reaching prevalidate", where=v_.span_of_block(pv[0]))
            return
    yield PASS("C04-R1", "validate_signature/allowed-mismatch-passthrough", "prevalidate receives the caller's allowed_mismatch unchanged", [site(v_, pv[0], "prevalidate")])


def classify_ts(b, sl, server_ts, mismatch):
    """'req' | 'min' | 'max' | 'server' | None for an operand slice in prevalidate."""
    has_req = sl.has_call(r"SigV4Authenticator::request_timestamp$")
    sub = sl.find_calls(r"DateTime::<Tz>::checked_sub_signed$")
    add = sl.find_calls(r"DateTime::<Tz>::checked_add_signed$")
    other_arith = sl.find_calls(r"(TimeDelta|DateTime).*::(checked_add|checked_sub|add|sub|num_\w+|signed_duration_since|timestamp\w*)$|ops::(Add|Sub)::(add|sub)$")
    other_arith = [c for c in other_arith if c not in sub and c not in add]
    # the operands are the values themselves: the request instant as stored, the server clock and the window as given -
    # no rounding / truncation to seconds / re-zoning in between (a bound moved by a fraction of a second flips requests
    # that sit on the edge)
    ASIS = r"SigV4Authenticator::request_timestamp$|Deref::deref$|Clone::clone$|Borrow::borrow$|DateTime::<Tz>::checked_(sub|add)_signed$|Option::<T>::unwrap_or$|convert::Into::into$|convert::From::from$"
    altered = [c for c in sl.callee_names() if not re.search(ASIS, c)]
    if has_req and not sub and not add and not other_arith and server_ts not in sl.locals:
        return "req" if not altered else None

    def given(o, p):
        od = b.origin_def(o)
        return od == ("param", p)

    if not has_req and len(sub) == 1 and not add and not other_arith:
        t = sub[0][1]
        if given(t["args"][0], server_ts) and given(t["args"][1], mismatch) and not altered:
            return "min"
    if not has_req and len(add) == 1 and not sub and not other_arith:
        t = add[0][1]
        if given(t["args"][0], server_ts) and given(t["args"][1], mismatch) and not altered:
            return "max"
    if not has_req and not sub and not add and server_ts in sl.locals:
        return "server"
    return None


FLIP = {"lt": "gt", "gt": "lt", "le": "ge", "ge": "le"}
NEGATE = {"lt": "ge", "ge": "lt", "gt": "le", "le": "gt"}


@M.rule("C04-R2", "window = server -/+ mismatch; rejections are strict req < min and req > max on DateTime<Utc>; both SignatureDoesNotMatch")
def r2(ctx):
    b = ctx.fn(PV)
    server_ts, mismatch = param_by_name(b, "server_timestamp"), param_by_name(b, "allowed_mismatch")
    found = {}
    time_cmps = []
    for bi, t in cmp_calls(b, r"PartialOrd::(lt|le|gt|ge)$|PartialEq::(eq|ne)$|Ord::(cmp|max|min)$|PartialOrd::partial_cmp$"):
        s0, s1 = b.slice_op(t["args"][0]), b.slice_op(t["args"][1])
        k0, k1 = classify_ts(b, s0, server_ts, mismatch), classify_ts(b, s1, server_ts, mismatch)
        timeish = any(s.has_call(r"request_timestamp$") or server_ts in s.locals or mismatch in s.locals for s in (s0, s1))
        if not timeish:
            continue
        ctx.count()
        op = t["callee"].split("::")[-1]
        time_cmps.append((bi, t, op, k0, k1))
    date_eq = 0
    for bi, t, op, k0, k1 in time_cmps:
        if op in ("eq", "ne"):
            # the scope-date comparison (C03-R2) is the only equality involving the request time
            date_eq += 1
            continue
        if op not in FLIP:
            yield VIOL("C04-R2", "prevalidate/time-cmp-op:" + op, "timestamp handled with `%s` (only strict </> against the window bounds are recognised)" % op, where=b.span_of_block(bi))
            continue
        if not resolved_is(t, r"<chrono::DateTime<chrono::Utc> as std::cmp::PartialOrd>"):
            yield VIOL("C04-R2", "prevalidate/time-cmp-type", "timestamp comparison is not on DateTime<Utc> instants: %s" % t.get("resolved_full"), where=b.span_of_block(bi))
            continue
        a, ts, fs = switch_on_call(b, bi)
        if a is None:
            yield VIOL("C04-R2", "prevalidate/time-cmp-unused", "timestamp comparison does not decide a branch", where=b.span_of_block(bi))
            continue
        # which edge rejects: the edge from which an Err(SignatureDoesNotMatch) is constructed and Ok unreachable
        oks = [x[0] for x in result_aggs(b, "Ok")]
        rej_true = ts is not None and not any(o in b.reach_feasible(ts) for o in oks)
        rej_false = fs is not None and not any(o in b.reach_feasible(fs) for o in oks)
        if rej_true == rej_false:
            yield VIOL("C04-R2", "prevalidate/time-cmp-no-reject", "neither/both edges of a timestamp comparison reject", where=b.span_of_block(bi))
            continue
        eff = op if rej_true else NEGATE[op]
        l, r = k0, k1
        if l != "req":  # normalise to req on the left
            l, r, eff = r, l, FLIP[eff]
        key = None
        if l == "req" and r == "min":
            key = "expired"
            want = "lt"
        elif l == "req" and r == "max":
            key = "not-yet-current"
            want = "gt"
        else:
            yield VIOL("C04-R2", "prevalidate/time-cmp-operands", "timestamp comparison between `%s` and `%s` (expected request time against server -/+ mismatch)" % (k0, k1), where=b.span_of_block(bi))
            continue
        rej_succ = ts if rej_true else fs
        kinds = {s["rv"]["variant"] for eb, i, s in err_sites(b) if eb in b.reach_feasible(rej_succ) and any((aa, ss) == (a, rej_succ) for aa, ss in b.guards(eb))}
        if eff != want:
            yield VIOL("C04-R2", "prevalidate/%s-operator" % key, "request rejected as %s when req %s bound (must be strictly %s: the bound itself is inside the window)" % (key, eff, want), where=b.span_of_block(bi))
        elif kinds != {"SignatureDoesNotMatch"}:
            yield VIOL("C04-R2", "prevalidate/%s-kind" % key, "%s exit constructs %s" % (key, sorted(kinds)), where=b.span_of_block(bi))
        else:
            found[key] = bi
            yield PASS("C04-R2", "prevalidate/" + key, "rejects iff request instant %s server %s mismatch (strict), as SignatureDoesNotMatch" % ("<" if want == "lt" else ">", "-" if key == "expired" else "+"), [site(b, bi, op)])
    for key in ("expired", "not-yet-current"):
        if key not in found:
            yield VIOL("C04-R2", "prevalidate/%s-missing" % key, "no strict comparison rejecting %s requests" % key, where=loc(b.j["span"]))
    if date_eq > 1:
        yield VIOL("C04-R2", "prevalidate/extra-time-equality", "%d equality tests involve timestamps (only the scope-date comparison is expected)" % date_eq, where=loc(b.j["span"]))
    # R5: no other time-dependent branch: arithmetic on timestamps other than the two checked_* calls
    arith = [(bi, t) for bi, t in b.calls(r"(TimeDelta|DateTime<Tz>|DateTime::<Tz>|NaiveDateTime|NaiveDate).*::(checked_\w+|num_\w+|signed_duration_since|timestamp\w*|abs|sub|add|date_naive|duration_round|duration_trunc|round_subsecs|trunc_subsecs)$|ops::(Add|Sub)::(add|sub)$")
             if not any("log" in m_ or "format" in m_ for m_ in b.blocks[bi]["tspan"].get("macros", []))]
    allowed = {"checked_sub_signed", "checked_add_signed"}
    # arithmetic whose result is only rendered (a log line) decides nothing
    extra = [(bi, t) for bi, t in arith if t["callee"].split("::")[-1] not in allowed and not only_formatted(b, t["dest"]["local"])]
    for bi, t in extra:
        yield VIOL("C04-R2", "prevalidate/time-arith:" + t["callee"].split("::")[-1], "unreviewed timestamp arithmetic `%s` in prevalidate (resolution loss / alternative window computation)" % t["callee"], where=b.span_of_block(bi))
    if not extra:
        yield PASS("C04-R2", "prevalidate/time-arith", "only checked_sub_signed/checked_add_signed operate on timestamps", [site(b, bi, t["callee"].split("::")[-1]) for bi, t in arith])
    # request timestamp used = the authenticator's stored instant (no truncation on read)
    rt = ctx.fn("auth::SigV4Authenticator::request_timestamp")
    if [c for c in rt.all_calls()]:
        yield VIOL("C04-R2", "request_timestamp/accessor-transforms", "request_timestamp() transforms the stored instant", where=loc(rt.j["span"]))
    else:
        yield PASS("C04-R2", "request_timestamp/accessor", "request_timestamp() returns the stored DateTime<Utc> unchanged", [loc(rt.j["span"])])


@M.rule("C04-R4", "both window checks precede the key lookup")
def r4(ctx):
    v = ctx.co(VS)
    pv = one(v.calls(r"SigV4Authenticator::prevalidate$"), "prevalidate call")
    gk = one(v.calls(r"SigV4Authenticator::get_signing_key$"), "get_signing_key call")
    cont = v.try_continue_block(pv[0])
    ctx.count()
    if cont is None or not v.dominates(cont, gk[0]):
        yield VIOL("C04-R4", "validate_signature/window-before-lookup", "key lookup not dominated by prevalidate's success edge", where=v.span_of_block(gk[0]))
    else:
        yield PASS("C04-R4", "validate_signature/window-before-lookup", "get_signing_key dominated by the Continue edge of prevalidate(..)?", [site(v, gk[0], "get_signing_key")])
    # inside prevalidate every success return is dominated by both window comparisons (their relative order to the
    # scope rules is C13's business, not this property's)
    b = ctx.fn(PV)
    lt = [bi for bi, t in cmp_calls(b, r"PartialOrd::(lt|le|gt|ge)$")]
    oks = [x[0] for x in result_aggs(b, "Ok")]
    if oks and len(lt) >= 2 and all(b.dominates_feasible(x, o) for x in lt for o in oks):
        yield PASS("C04-R4", "prevalidate/window-before-success", "both window comparisons dominate every Ok(()) of prevalidate", [site(b, x, "cmp") for x in lt])
    else:
        yield VIOL("C04-R4", "prevalidate/window-before-success", "a success return of prevalidate is not dominated by both window comparisons", where=loc(b.j["span"]))


import c16  # noqa: E402


@M.rule("C04-R3", "the decision depends on the instant: offset/sign/fraction handling of the parser and UTC conversion (shared with C16-R2/R3)")
def r3(ctx):
    for r in list(c16.r2(ctx)) + list(c16.r3(ctx)):
        r.rule = "C04-R3"
        yield r


import c02  # noqa: E402


@M.rule("C04-R5", "the date is interpreted in decoded form on the query carrier too (shared with C02-R1)")
def r5(ctx):
    for r in list(c02.r1(ctx)) + list(c02.r1h(ctx)):
        if "timestamp" in r.key or r.status != "PASS":
            r.rule = "C04-R5"
            yield r


@M.rule("C04-R6", "the caller's clock value and the window reach the freshness test unchanged")
def r6(ctx):
    """prevalidate's window (R2) is built from its parameters; this pins them to the entry point's own `server_timestamp`
    (no rounding, truncation to seconds, `Utc::now()` substitution) and to the constant window of R1, at both call sites."""
    e = ctx.co(ENTRY)
    c = one(e.calls(r"SigV4Authenticator::validate_signature$"), "validate_signature call in entry point")
    ctx.count(3)
    if len(c[1]["args"]) < 4 or not handed_on_unchanged(e, c[1]["args"][3], "server_timestamp"):
        yield VIOL("C04-R6", "handoff/entry->validate_signature/server_timestamp", "the clock value given to validate_signature is not the caller's `server_timestamp` as it is", where=e.span_of_block(c[0]))
    else:
        yield PASS("C04-R6", "handoff/entry->validate_signature/server_timestamp", "`server_timestamp` handed on unchanged", [site(e, c[0], "validate_signature")])
    v = ctx.co(VS)
    p = one(v.calls(r"SigV4Authenticator::prevalidate$"), "prevalidate call in validate_signature")
    for pos, nm in ((3, "server_timestamp"), (4, "allowed_mismatch")):
        if pos >= len(p[1]["args"]) or not handed_on_unchanged(v, p[1]["args"][pos], nm):
            yield VIOL("C04-R6", "handoff/validate_signature->prevalidate/" + nm, "argument %d of prevalidate is not validate_signature's own `%s` as it is" % (pos, nm), where=v.span_of_block(p[0]))
        else:
            yield PASS("C04-R6", "handoff/validate_signature->prevalidate/" + nm, "`%s` handed on unchanged" % nm, [site(v, p[0], "prevalidate")])


@M.rule("C04-R7", "wrappers around the entry point hand the caller's configuration on unchanged")
def r_wrappers(ctx):
    for r in wrapper_results(ctx, "C04-R7", (4,), VIOL, PASS, 'the freshness window is evaluated against a clock value the caller did not give'):
        yield r
