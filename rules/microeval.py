"""K6b: exact finite-state evaluation of a byte-filter loop.

A loop `for c in input { .. acc.push(..) .. }` whose body reads the current byte, a handful of boolean loop-carried
locals and nothing else is a finite transducer: (byte, state) -> (bytes appended, state'). This module tabulates that
transfer function for ALL 256 x 2^k inputs by evaluating the loop body's MIR in a tiny exact domain (ints, bools,
references to locals, Option, tuples; the accumulator is write-only inside the loop), and evaluates the code after the
loop on representative accumulators. Nothing is sampled: the whole domain is enumerated, and any construct outside the
handled subset raises AnchorMissing (fail closed). It is the loop-carrying sibling of valueset.VS."""
import re

from engine import AnchorMissing, op_place, op_const, const_value
from valueset import U8_PRED, BITS


class Undefined(Exception):
    def __init__(self, local):
        self.local = local


class Left(Exception):
    """control left the analysed region through a return"""


class Micro:
    def __init__(self, body, acc_local):
        self.b = body
        self.acc = acc_local
        self.acc_readable = True

    # ---- values
    def read(self, env, p):
        l = p["local"]
        if l == self.acc and not p["proj"]:
            return ("acc",)
        if l not in env:
            raise Undefined(l)
        x = env[l]
        for e in p["proj"]:
            x = self.proj(env, x, e)
        return x

    def proj(self, env, x, e):
        if e == "deref":
            if isinstance(x, tuple) and x and x[0] == "ref":
                return self.read(env, x[1])
            if isinstance(x, tuple) and x and x[0] == "valref":
                return x[1]
            raise AnchorMissing("%s: deref of a non-reference value" % self.b.path)
        if isinstance(e, dict) and "downcast" in e:
            return x
        if isinstance(e, dict) and "field" in e:
            if isinstance(x, tuple) and x and x[0] == "opt":
                if x[1] is None:
                    raise AnchorMissing("%s: payload of None read" % self.b.path)
                return x[1]
            if isinstance(x, tuple) and x and x[0] == "tuple":
                return x[1][e["idx"]]
            raise AnchorMissing("%s: field projection on %r" % (self.b.path, x))
        raise AnchorMissing("%s: unsupported projection %r" % (self.b.path, e))

    def val(self, env, o):
        c = op_const(o)
        if c is not None:
            cv = const_value(c)
            if cv is None and c.get("zst"):
                return ()
            if cv is None:
                raise AnchorMissing("%s: unevaluated constant %s" % (self.b.path, c.get("repr")))
            return cv
        return self.read(env, op_place(o))

    def norm(self, env, x, accv):
        """value with references looked through (for comparisons)"""
        for _ in range(8):
            if isinstance(x, tuple) and x and x[0] == "ref":
                x = self.read(env, x[1])
                continue
            if isinstance(x, tuple) and x and x[0] == "valref":
                x = x[1]
                continue
            break
        if isinstance(x, tuple) and x and x[0] == "opt":
            return ("opt", None if x[1] is None else self.norm(env, x[1], accv))
        if isinstance(x, tuple) and x and x[0] == "tuple":
            return ("tuple", tuple(self.norm(env, y, accv) for y in x[1]))
        if x == ("acc",):
            return ("bytes", tuple(self.need_acc(accv)))
        if isinstance(x, bytes):
            return ("bytes", tuple(x))
        return x

    def need_acc(self, accv):
        if not self.acc_readable:
            raise AnchorMissing("%s: the loop body reads the accumulator (not a write-only transducer)" % self.b.path)
        return accv

    def rvalue(self, env, rv, dest_ty, accv):
        k = rv["k"]
        if k == "use":
            return self.val(env, rv["op"])
        if k == "ref":
            pl = rv["place"]
            # `&(*x)` re-borrow of a reference: the same reference
            if pl["proj"] == ["deref"]:
                inner = self.read(env, {"local": pl["local"], "proj": []})
                if isinstance(inner, tuple) and inner and inner[0] in ("ref", "valref"):
                    return inner
                if inner == ("acc",):
                    return inner
            if pl["local"] == self.acc and not pl["proj"]:
                return ("acc",)
            return ("ref", pl)
        if k == "cast":
            x = self.val(env, rv["op"])
            if isinstance(x, bool):
                x = int(x)
            if isinstance(x, int):
                bits = BITS.get(rv["ty"])
                if bits is None:
                    raise AnchorMissing("%s: cast to %s" % (self.b.path, rv["ty"]))
                return x & ((1 << bits) - 1)
            return x
        if k == "unop":
            x = self.val(env, rv["x"])
            if rv["op"] == "Not":
                return (not x) if isinstance(x, bool) else (~x) & 0xFF
            raise AnchorMissing("%s: unary %s" % (self.b.path, rv["op"]))
        if k == "binop":
            a, c = self.val(env, rv["l"]), self.val(env, rv["r"])
            op = rv["op"]
            f = {
                "Eq": lambda: a == c, "Ne": lambda: a != c, "Lt": lambda: a < c, "Le": lambda: a <= c, "Gt": lambda: a > c, "Ge": lambda: a >= c,
                "BitAnd": lambda: a & c, "BitOr": lambda: a | c, "BitXor": lambda: a ^ c,
            }.get(op)
            if f is None or not isinstance(a, (int, bool)) or not isinstance(c, (int, bool)):
                raise AnchorMissing("%s: binary %s on %r, %r" % (self.b.path, op, a, c))
            return f()
        if k == "aggregate":
            if rv.get("tuple"):
                return ("tuple", tuple(self.val(env, o) for o in rv["ops"]))
            if rv.get("adt") == "std::option::Option":
                return ("opt", self.val(env, rv["ops"][0]) if rv.get("variant") == "Some" else None)
            raise AnchorMissing("%s: aggregate %s" % (self.b.path, rv.get("adt")))
        if k == "discr":
            x = self.read(env, rv["place"])
            if isinstance(x, tuple) and x and x[0] == "opt":
                return 0 if x[1] is None else 1
            raise AnchorMissing("%s: discriminant of %r" % (self.b.path, x))
        raise AnchorMissing("%s: rvalue kind %s" % (self.b.path, k))

    def call(self, env, t, accv, events):
        c = t.get("callee", "")
        args = t["args"]

        def a(i):
            return self.val(env, args[i])

        def is_acc(x):
            for _ in range(4):
                if isinstance(x, tuple) and x and x[0] == "ref":
                    x = self.read(env, x[1])
                else:
                    break
            return x == ("acc",)
        if re.search(r"Vec::<T, A>::push$", c) and is_acc(a(0)):
            x = self.norm(env, a(1), accv)
            if not isinstance(x, int) or isinstance(x, bool):
                raise AnchorMissing("%s: pushed value is not a byte" % self.b.path)
            accv.append(x)
            events.append(x)
            return ()
        if re.search(r"Vec::<T, A>::pop$", c) and is_acc(a(0)):
            self.need_acc(accv)
            if accv and accv[0] == "*" and len(accv) == 1:
                raise AnchorMissing("%s: pop beyond the modelled tail" % self.b.path)
            events.append("pop")
            return ("opt", accv.pop() if accv else None)
        if re.search(r"ops::Deref(Mut)?::deref(_mut)?$|Vec::<T, A>::as_(mut_)?slice$|convert::AsRef::as_ref$|borrow::Borrow::borrow$", c) and is_acc(a(0)):
            return ("acc",)
        if re.search(r"slice::<impl \[T\]>::last$", c) and is_acc(a(0)):
            v = self.need_acc(accv)
            return ("opt", ("valref", v[-1]) if v and v[-1] != "*" else None)
        if re.search(r"(slice::<impl \[T\]>|Vec::<T, A>)::is_empty$", c) and is_acc(a(0)):
            return len(self.need_acc(accv)) == 0
        if re.search(r"slice::<impl \[T\]>::ends_with$", c) and is_acc(a(0)):
            v = self.need_acc(accv)
            n = self.norm(env, a(1), accv)
            if not (isinstance(n, tuple) and n[0] == "bytes"):
                raise AnchorMissing("%s: ends_with a non-constant" % self.b.path)
            return len(n[1]) <= len(v) and tuple(v[len(v) - len(n[1]):]) == n[1] if n[1] else True
        if re.search(r"PartialEq::(eq|ne)$", c):
            x, y = self.norm(env, a(0), accv), self.norm(env, a(1), accv)
            return (x == y) == c.endswith("::eq")
        if re.search(r"Option::<T>::is_(some|none)$", c):
            x = self.norm(env, a(0), accv)
            return (x[1] is not None) == c.endswith("is_some")
        name = c.split("::")[-1]
        if name in U8_PRED and "num::<impl u8>" in c:
            x = self.norm(env, a(0), accv)
            return U8_PRED[name](x)
        raise AnchorMissing("%s: call to `%s` has no summary in the byte-filter evaluator" % (self.b.path, c))

    def run(self, start, env, accv, stop_blocks, max_steps=300):
        """Evaluate from block `start` until a block of stop_blocks is entered. Returns (stop block, env, events).
        Raises Left if a return is reached first."""
        env = dict(env)
        events = []
        blk = start
        for _ in range(max_steps):
            if blk in stop_blocks:
                return blk, env, events
            bb = self.b.blocks[blk]
            for s in bb["stmts"]:
                if s["k"] != "assign":
                    continue
                d = s["place"]
                if d["proj"]:
                    raise AnchorMissing("%s: assignment to a projection" % self.b.path)
                env[d["local"]] = self.rvalue(env, s["rv"], self.b.local_ty(d["local"]), accv)
            t = bb["term"]
            k = t["k"]
            if k == "goto":
                blk = t["target"]
            elif k == "drop":
                blk = t["target"]
            elif k == "return":
                raise Left()
            elif k == "switch":
                x = self.val(env, t["discr"])
                x = int(x) if isinstance(x, bool) else x
                tgt = t["otherwise"]
                for vv, b2 in t["targets"]:
                    if vv == x:
                        tgt = b2
                blk = tgt
            elif k == "assert":
                if bool(self.val(env, t["cond"])) != t["expected"]:
                    raise AnchorMissing("%s: run-time check can fail" % self.b.path)
                blk = t["target"]
            elif k == "call":
                r = self.call(env, t, accv, events)
                if t["dest"]["proj"]:
                    raise AnchorMissing("%s: call result stored to a projection" % self.b.path)
                env[t["dest"]["local"]] = r
                if t.get("target") is None:
                    raise AnchorMissing("%s: diverging call" % self.b.path)
                blk = t["target"]
            else:
                raise AnchorMissing("%s: terminator %s" % (self.b.path, k))
        raise AnchorMissing("%s: evaluation does not leave the loop body within %d steps" % (self.b.path, max_steps))


def byte_filter_loop(body, acc, param=1):
    """Locate the single loop over the input bytes. Returns dict(next_block, some, none, elem_is_ref, n_local)."""
    nx = [x for x in body.calls(r"Iterator::next$") if re.search(r"slice::Iter<'_, u8>", x[1].get("resolved_full", ""))]
    if len(nx) != 1:
        raise AnchorMissing("%s: expected exactly one loop over the input bytes, found %d" % (body.path, len(nx)))
    nb, nt = nx[0]
    rs = body.slice_op(nt["args"][0])
    extra = [c for c in rs.callee_names() if not re.search(r"IntoIterator::into_iter$|slice::<impl \[T\]>::iter$|Iterator::(copied|cloned)$|Iterator::next$", c)]
    if param not in rs.params or extra:
        raise AnchorMissing("%s: the byte loop does not run over the whole input as it is (through %s)" % (body.path, extra))
    st = body.term(nt["target"])
    if st["k"] != "switch":
        raise AnchorMissing("%s: no switch after next()" % body.path)
    some = [bb for v, bb in st["targets"] if v == 1]
    none = [bb for v, bb in st["targets"] if v == 0]
    if len(some) != 1 or len(none) != 1:
        raise AnchorMissing("%s: Some/None edges of the byte loop not found" % body.path)
    copied = any(re.search(r"Iterator::(copied|cloned)$", c) for c in rs.callee_names())
    return {"next_block": nb, "some": some[0], "none": none[0], "elem_is_ref": not copied, "n_local": nt["dest"]["local"]}


def tabulate_with_tail(body, acc, loop, max_state=2):
    """Like tabulate, for a loop body that also looks at the accumulator's tail (`acc.last()`, `acc.is_empty()`):
    the abstract state is (boolean flags, last byte of the output or None). Returns (state_locals, table) with
    table[(byte, flags, last)] = (events, flags', last')."""
    m = Micro(body, acc)
    m.acc_readable = True
    state = []
    while True:
        table = {}
        try:
            for bits in range(1 << len(state)):
                sv = tuple(bool(bits >> i & 1) for i in range(len(state)))
                for last in [None] + list(range(256)):
                    for byte in range(256):
                        env = {l: v for l, v in zip(state, sv)}
                        env[loop["n_local"]] = ("opt", ("valref", byte) if loop["elem_is_ref"] else byte)
                        accv = [] if last is None else ["*", last]
                        try:
                            end, env2, ev = m.run(loop["some"], env, accv, {loop["next_block"]})
                        except Left:
                            table[(byte, sv, last)] = ("leaves-loop", None, None)
                            continue
                        if "pop" in ev:
                            raise AnchorMissing("%s: the loop body removes bytes from the output" % body.path)
                        nl = accv[-1] if accv and accv[-1] != "*" else (None if not accv else last)
                        table[(byte, sv, last)] = (tuple(ev), tuple(env2[l] for l in state), nl)
            return state, table
        except Undefined as u:
            if u.local in state or body.local_ty(u.local) != "bool" or len(state) >= max_state:
                raise AnchorMissing("%s: loop-carried local _%d of type %s: not a boolean finite-state filter" % (body.path, u.local, body.local_ty(u.local)))
            state.append(u.local)


def tabulate(body, acc, loop, max_state=3):
    """Transfer function of the loop body: {(byte, state tuple): (events, state' tuple)} with the state locals
    (boolean loop-carried locals) discovered on the way. Returns (state_locals, table)."""
    m = Micro(body, acc)
    m.acc_readable = False
    state = []
    while True:
        table = {}
        try:
            for bits in range(1 << len(state)):
                sv = tuple(bool(bits >> i & 1) for i in range(len(state)))
                for byte in range(256):
                    env = {l: v for l, v in zip(state, sv)}
                    env[loop["n_local"]] = ("opt", ("valref", byte) if loop["elem_is_ref"] else byte)
                    try:
                        end, env2, ev = m.run(loop["some"], env, [], {loop["next_block"]})
                    except Left:
                        table[(byte, sv)] = ("leaves-loop", None)
                        continue
                    table[(byte, sv)] = (tuple(ev), tuple(env2[l] for l in state))
            return state, table
        except Undefined as u:
            if u.local in state or body.local_ty(u.local) != "bool" or len(state) >= max_state:
                raise AnchorMissing("%s: loop-carried local _%d of type %s: not a boolean finite-state filter" % (body.path, u.local, body.local_ty(u.local)))
            state.append(u.local)
