"""C06 Signing-key derivation equals the SigV4 HMAC chain (structure necessary for equality)."""
from lib import *
from registry import Module
from linear import Lin, lf_add, lf_const, lf_str, entails, lf_norm, ineq

M = Module(
    "C06",
    "Signing-key derivation (structural clauses)",
    "R1: each base step (to_kdate, to_kregion, to_kservice, to_ksigning) calls hmac_sha256 exactly once with argument 0 <= the key held by "
    "self and argument 1 <= its own datum (date rendered by NaiveDate::format(\"%Y%m%d\"); region; service; the constant \"aws4_request\") "
    "with no other transformation, and returns exactly that MAC. R2: each of the six shortcut derivations is a chain of base steps whose "
    "arguments are the like-named parameters. R3: KSecretKey::from_str stores b\"AWS4\" in bytes 0..4, copies the untransformed secret into "
    "prefixed_key[4 .. 4+len] (equal source/destination lengths shown with linear forms), records len + 4, refuses exactly when len > M - 4 (or M < 4, "
    "no unsigned underflow) and is the only constructor (fields private); as_ref returns prefixed_key[4..self.len]. Numeric equality with the HMAC chain "
    "is hmac/sha2's and is not decided.",
    ["hmac_sha256 wrapper is HMAC-SHA256(key, msg) (C01-R2)", "HMAC zero-pads keys shorter than the 64-byte block: keying with all M=44 buffer bytes equals keying with the first len bytes (pinned by the M <= 64 check)"],
)

SK = "signing_key::"
BASE = [
    (SK + "KSecretKey::to_kdate", "prefixed_key", "date", SK + "KDateKey"),
    (SK + "KDateKey::to_kregion", "key", "region", SK + "KRegionKey"),
    (SK + "KRegionKey::to_kservice", "key", "service", SK + "KServiceKey"),
    (SK + "KServiceKey::to_ksigning", "key", None, SK + "KSigningKey"),
]
SHORT = [
    (SK + "KSecretKey::to_kregion", ["to_kdate", "to_kregion"]),
    (SK + "KSecretKey::to_kservice", ["to_kdate", "to_kservice"]),
    (SK + "KSecretKey::to_ksigning", ["to_kdate", "to_ksigning"]),
    (SK + "KDateKey::to_kservice", ["to_kregion", "to_kservice"]),
    (SK + "KDateKey::to_ksigning", ["to_kregion", "to_ksigning"]),
    (SK + "KRegionKey::to_ksigning", ["to_kservice", "to_ksigning"]),
]
PASSIVE = r"(::as_bytes|::as_slice|AsRef::as_ref|Deref::deref|ToString::to_string|String::as_bytes|String::as_str)$"


@M.rule("C06-R1", "base steps: one HMAC keyed with self's key over the step's own datum")
def r1(ctx):
    for fn, keyfield, datum, out_ty in BASE:
        b = ctx.fn(fn)
        ctx.count()
        hm = b.calls(r"crypto::hmac_sha256$")
        if len(hm) != 1:
            yield VIOL("C06-R1", fn + "/hmac-count", "expected exactly one hmac_sha256 call, found %d" % len(hm), where=loc(b.j["span"]))
            continue
        hb, ht = hm[0]
        ks, ds = b.slice_op(ht["args"][0]), b.slice_op(ht["args"][1])
        probs = []
        kf = {fs for l, fs in ks.fieldreads if l == 1}
        if kf != {(keyfield,)} or ks.consts or [c for c in ks.callee_names() if not re.search(PASSIVE, c)]:
            probs.append("key argument is not self.%s untransformed (fields %s, calls %s)" % (keyfield, sorted(kf), ks.callee_names()))
        if datum == "date":
            fm = ds.find_calls(r"NaiveDate::format$")
            if not fm or const_str_of(b, fm[0][1]["args"][1])[0] != "%Y%m%d" or param_by_name(b, "date") not in ds.locals:
                probs.append("date is not rendered with NaiveDate::format(\"%Y%m%d\") (zero-padded 8 digits)")
            extra = [c for c in ds.callee_names() if not re.search(PASSIVE, c) and not re.search(r"NaiveDate::format$", c)]
            if extra:
                probs.append("date datum passes through %s" % extra)
        elif datum is None:
            if not ds.has_const_value("aws4_request") or ds.params or [c for c in ds.callee_names() if not re.search(PASSIVE, c)]:
                probs.append("terminator is not the constant \"aws4_request\" (%s)" % [v for v in ds.const_values() if isinstance(v, str)])
        else:
            pl = param_by_name(b, datum)
            others = {param_by_name(b, x) for x in ("region", "service", "date") if x != datum and x in [b.names.get(i) for i in range(1, b.arg_count + 1)]}
            if pl not in ds.locals or ds.locals & others or 1 in ds.locals or ds.consts or [c for c in ds.callee_names() if not re.search(PASSIVE, c)]:
                probs.append("datum is not the `%s` parameter untransformed (calls %s)" % (datum, ds.callee_names()))
        # result: aggregate of out_ty whose key derives from the hmac result
        ags = b.aggregates(adt="^" + re.escape(out_ty) + "$")
        if len(ags) != 1:
            probs.append("does not construct exactly one %s" % out_ty)
        else:
            rs = b.slice_op(ags[0][2]["rv"]["ops"][0])
            if not any(cb == hb for cb, _ in rs.calls):
                probs.append("the returned key is not the HMAC result")
            extra = [c for c in rs.callee_names() if not re.search(PASSIVE, c) and not re.search(r"crypto::hmac_sha256$|copy_from_slice$|NaiveDate::format$", c)]
            if extra:
                probs.append("returned key passes through %s" % extra)
        if probs:
            yield VIOL("C06-R1", fn + "/step", "; ".join(probs), where=b.span_of_block(hb))
        else:
            yield PASS("C06-R1", fn + "/step", "%s { key: hmac_sha256(self.%s, %s) }" % (out_ty.split("::")[-1], keyfield, datum or "\"aws4_request\""), [site(b, hb, "hmac_sha256")])


@M.rule("C06-R2", "shortcut derivations are compositions of base steps over the like-named parameters")
def r2(ctx):
    for fn, chain in SHORT:
        b = ctx.fn(fn)
        ctx.count()
        calls = [(bi, t) for bi, t in b.calls() if not re.search(r"Deref::deref$|AsRef::as_ref$", t["callee"])]
        names = [t["callee"].split("::")[-1] for _, t in calls]
        probs = []
        LEVEL = {"to_kdate": 1, "to_kregion": 2, "to_kservice": 3, "to_ksigning": 4}
        own = {"KSecretKey": 0, "KDateKey": 1, "KRegionKey": 2, "KServiceKey": 3}[re.search(r"(K\w+Key)", fn).group(1)]
        # any strictly ascending chain of derivation steps from the type's own level to the target is the same
        # composition (`to_kdate().to_ksigning()` = `to_kdate().to_kregion().to_kservice().to_ksigning()`)
        lv = [LEVEL.get(n_) for n_ in names]
        asc = all(x is not None for x in lv) and all(a_ < b_ for a_, b_ in zip([own] + lv, lv)) and bool(lv) and lv[-1] == LEVEL[chain[-1]]
        if not asc or len(calls) < 2 or any(not t.get("resolved_local") for _, t in calls):
            probs.append("body is %s, expected the chain %s" % (names, chain))
        else:
            # first call on self, each later one on the previous one's result; every other argument <= like-named parameter
            if 1 not in b.slice_op(calls[0][1]["args"][0]).locals:
                probs.append("first step is not applied to self")
            for k_ in range(1, len(calls)):
                sk = b.slice_op(calls[k_][1]["args"][0], stop_at_calls=lambda t_: bool(re.search(r"::to_k\w+$", t_.get("callee", ""))))
                if not any(cb == calls[k_ - 1][0] for cb, _ in sk.calls):
                    probs.append("step %d is not applied to the previous step's result" % (k_ + 1))
            if op_local(b.defs()[0][0]["term"]["args"][0]) is None if b.defs().get(0) and b.defs()[0][0]["kind"] == "call" else False:
                pass
            for bi, t in calls:
                callee = ctx.facts.body(t["resolved"])
                for k in range(1, len(t["args"])):
                    from lib import _param_positions

                    ppos = _param_positions().get(callee.path)
                    pn = ppos[k] if ppos and k < len(ppos) else callee.names.get(k + 1)
                    try:
                        pl = param_by_name(b, pn)
                    except AnchorMissing:
                        probs.append("step %s takes `%s`, which the shortcut does not have" % (t["callee"].split("::")[-1], pn))
                        continue
                    sl = b.slice_op(t["args"][k])
                    if sl.params != {pl} or sl.calls or sl.consts:
                        probs.append("argument `%s` of %s is fed from parameter(s) %s" % (pn, t["callee"].split("::")[-1], sorted(b.names.get(x) for x in sl.params)))
            rd = [d for d in b.defs().get(0, []) if d["kind"] == "call"]
            if len(rd) != 1 or rd[0]["block"] != calls[-1][0]:
                probs.append("the result is not the last step's value")
        if probs:
            yield VIOL("C06-R2", fn + "/composition", "; ".join(probs), where=loc(b.j["span"]))
        else:
            yield PASS("C06-R2", fn + "/composition", "self.%s with like-named arguments" % ".".join(n_ + "(..)" for n_ in names), [loc(b.j["span"])])


@M.rule("C06-R3", "secret storage: prefix, bounded copy of the untransformed secret, stored length, capacity check, read-back")
def r3(ctx):
    b = ctx.fn("<signing_key::KSecretKey<M> as std::str::FromStr>::from_str")
    lin = Lin(b)
    raw = param_by_name(b, "raw")
    ctx.count(6)
    copies = b.calls(r"slice::<impl \[T\]>::copy_from_slice$|slice::<impl \[T\]>::clone_from_slice$")
    if len(copies) != 2:
        yield VIOL("C06-R3", "from_str/copies", "expected 2 copies (prefix, secret), found %d" % len(copies), where=loc(b.j["span"]))
        return

    def split_base(o):
        """(offset form, limit form, block) if o is one half of `buf.split_at_mut(K)` (K constant): .0 = [0..K], .1 = [K..M]."""
        od_ = b.origin_def(o)
        for _ in range(4):
            if od_ and od_[0] == "def" and od_[1]["kind"] == "call" and re.search(r"ops::DerefMut::deref_mut$|ops::Deref::deref$", od_[1]["term"]["callee"]):
                od_ = b.origin_def(od_[1]["term"]["args"][0])
            else:
                break
        if not (od_ and od_[0] == "place"):
            return None
        fs_ = [e for e in od_[1]["proj"] if isinstance(e, dict) and "field" in e]
        sd_ = b.single_def(od_[1]["local"])
        if not (fs_ and sd_ and sd_["kind"] == "call" and re.search(r"slice::<impl \[T\]>::split_at_mut$", sd_["term"]["callee"])):
            return None
        k_ = const_value(op_const(sd_["term"]["args"][1]) or op_const(b.resolve_copy(sd_["term"]["args"][1])) or {})
        if not isinstance(k_, int):
            return None
        return (lf_const(0), lf_const(k_), sd_["block"]) if fs_[0]["idx"] == 0 else (lf_const(k_), {"M": 1, 1: 0}, sd_["block"])

    def dst_range(t):
        """(start form, end form or None) of the destination sub-slice of prefixed_key."""
        sb = split_base(t["args"][0])
        if sb is not None:
            return (sb[0], sb[1], (sb[2], None))  # a whole half of split_at_mut
        sl = b.slice_op(t["args"][0], int_barrier=False)
        im = sl.find_calls(r"ops::IndexMut::index_mut$")
        if not im:
            return None
        sb = split_base(im[0][1]["args"][0])
        if sb is not None:
            # a sub-range of one half: offsets are relative to that half
            od = b.origin_def(im[0][1]["args"][1])
            if od and od[0] == "def" and od[1]["kind"] == "assign" and od[1]["stmt"]["rv"]["k"] == "aggregate":
                rv = od[1]["stmt"]["rv"]
                kind = rv.get("adt", "").split("::")[-1]
                ops = rv["ops"]
                rs, re_ = (lin.form(ops[0]), lin.form(ops[1])) if kind == "Range" else (lf_const(0), lin.form(ops[0])) if kind == "RangeTo" else (lin.form(ops[0]), lf_add(sb[1], sb[0], -1)) if kind == "RangeFrom" else (None, None)
                if rs is not None and re_ is not None:
                    return (lf_add(sb[0], rs), lf_add(sb[0], re_), im[0])
            return None
        od = b.origin_def(im[0][1]["args"][1])
        if not (od and od[0] == "def" and od[1]["kind"] == "assign" and od[1]["stmt"]["rv"]["k"] == "aggregate"):
            return None
        rv = od[1]["stmt"]["rv"]
        kind = rv.get("adt", "").split("::")[-1]
        ops = rv["ops"]
        if kind == "Range":
            return (lin.form(ops[0]), lin.form(ops[1]), im[0])
        if kind == "RangeTo":
            return (lf_const(0), lin.form(ops[0]), im[0])
        if kind == "RangeFrom":
            return (lin.form(ops[0]), {"M": 1, 1: 0}, im[0])
        return None

    # `split_at_mut(K)` panics unless K <= M: the capacity test must already hold there
    for sb_b, sb_t in b.calls(r"slice::<impl \[T\]>::split_at_mut$"):
        k_ = const_value(op_const(sb_t["args"][1]) or op_const(b.resolve_copy(sb_t["args"][1])) or {})
        if not isinstance(k_, int) or not entails(lin.facts_at(sb_b), lf_add(lf_const(k_), {"M": 1, 1: 0}, -1)):
            yield VIOL("C06-R3", "from_str/split-bound", "split_at_mut(%s) is not preceded by a test showing %s <= M on every path" % (k_, k_), where=b.span_of_block(sb_b))
            return
    prefix_ok = secret_ok = False
    for cb, ct in copies:
        rg = dst_range(ct)
        src = b.slice_op(ct["args"][1])
        srcv = const_str_of(b, ct["args"][1])[0]
        if rg is None:
            yield VIOL("C06-R3", "from_str/copy-destination", "destination of a copy is not a recognised sub-slice of the key buffer", where=b.span_of_block(cb))
            continue
        start, end, im = rg
        dlen = lf_add(end, start, -1)
        if srcv is not None:
            if srcv != b"AWS4" or lf_norm(start) != lf_norm(lf_const(0)) or lf_norm(dlen) != lf_norm(lf_const(4)):
                yield VIOL("C06-R3", "from_str/prefix", "prefix copy is %r into [%s..%s]" % (srcv, lf_str(start), lf_str(end)), where=b.span_of_block(cb))
            else:
                prefix_ok = True
            continue
        # the secret copy
        extra = [c for c in src.callee_names() if not re.search(r"str>::as_bytes$|Deref::deref$|AsRef::as_ref$", c)]
        if raw not in src.locals or extra:
            yield VIOL("C06-R3", "from_str/secret-source", "the bytes copied are not the untransformed `raw` secret (passes through %s)" % extra, where=b.span_of_block(cb))
            continue
        slen = {"len(p%d)" % raw: 1, 1: 0}
        if lf_norm(start) != lf_norm(lf_const(4)):
            yield VIOL("C06-R3", "from_str/secret-offset", "secret is stored at offset %s, not 4" % lf_str(start), where=b.span_of_block(cb))
            continue
        if lf_norm(dlen) != lf_norm(slen):
            yield VIOL("C06-R3", "from_str/copy-length", "copy_from_slice: destination length %s != source length %s (panics unless equal)" % (lf_str(dlen), lf_str(slen)), where=b.span_of_block(cb))
            continue
        # end <= M from the path condition
        facts = lin.facts_at(im[0])
        goal = lf_add(end, {"M": 1, 1: 0}, -1)
        if not entails(facts, goal):
            yield VIOL("C06-R3", "from_str/copy-bound", "cannot show %s <= M on the path to the copy (facts: %s)" % (lf_str(end), [lf_str(f) + " <= 0" for f in facts]), where=b.span_of_block(cb))
            continue
        secret_ok = True
    if prefix_ok and secret_ok:
        yield PASS("C06-R3", "from_str/copies", "[..4] <- b\"AWS4\"; [4..4+len] <- raw.as_bytes(), lengths equal, 4+len <= M on the path", [site(b, cb, "copy") for cb, _ in copies])
    # len field and the capacity check
    ag = one(b.aggregates(adt=r"signing_key::KSecretKey$"), "KSecretKey construction")
    fields = dict(zip(ag[2]["rv"]["fields"], ag[2]["rv"]["ops"]))
    if "len" not in fields:
        yield VIOL("C06-R3", "from_str/len-field-missing", "KSecretKey no longer stores the length of the secret (fields: %s): the stored bytes cannot be read back exactly (e.g. a secret ending in NUL bytes)" % sorted(fields), where=loc(ag[2]["span"]))
        return
    lf = lin.form(fields["len"])
    if lf is None or lf_norm(lf) != lf_norm({"len(p%d)" % raw: 1, 1: 4}):
        yield VIOL("C06-R3", "from_str/len-field", "stored length is %s, not len(raw) + 4" % (lf_str(lf) if lf else "?"), where=loc(ag[2]["span"]))
    else:
        yield PASS("C06-R3", "from_str/len-field", "len = raw.len() + 4", [loc(ag[2]["span"])])
    # the buffer starts zeroed: to_kdate keys the HMAC with the WHOLE buffer, which equals keying with "AWS4"+secret only
    # because HMAC pads a short key with zero bytes itself
    bl = root_local(b, fields["prefixed_key"])
    inits = [d for d in b.defs().get(bl, []) if d["kind"] == "assign" and not d.get("partial")]
    zero = [d for d in inits if d["stmt"]["rv"]["k"] == "repeat" and const_value(op_const(d["stmt"]["rv"]["op"]) or {}) == 0]
    if bl is None or len(inits) != 1 or not zero:
        yield VIOL("C06-R3", "from_str/buffer-not-zeroed", "the key buffer is not created as [0; M]: bytes after the secret are not zero, so keying the HMAC with the whole buffer is no longer keying it with \"AWS4\" + secret", where=loc(ag[2]["span"]))
    else:
        yield PASS("C06-R3", "from_str/buffer-zeroed", "prefixed_key starts as [0; M]", [loc(zero[0]["stmt"]["span"])])
    # every secret that fits is accepted: what is known on the way to Ok(..) is no more than M >= 4 and len + 4 <= M
    accept = [lf_add(lf_const(4), {"M": 1, 1: 0}, -1), lf_add({"len(p%d)" % raw: 1, 1: 4}, {"M": 1, 1: 0}, -1)]
    ck_ = lin.checked_facts()
    ckn_ = {lf_norm(f_) for f_ in ck_}
    narrow = [f_ for f_ in lin.facts_at(ag[0]) if lf_norm(f_) not in ckn_ and not entails(accept + ck_, f_)]
    if narrow:
        yield VIOL("C06-R3", "from_str/capacity-narrowed", "Ok(..) needs more than M >= 4 and len + 4 <= M (%s): a secret that fits the buffer is refused" % [lf_str(f_) + " <= 0" for f_ in narrow], where=b.span_of_block(ag[0]))
    errs = result_aggs(b, "Err")
    if len(errs) == 2:
        # sibling: `let Some(cap) = M.checked_sub(4) else { return Err(KeyTooLongError) }; if len > cap { return Err(..) }`
        # - the first exit sits on the None edge of the checked subtraction (M < 4), the second is the comparison
        def on_none_edge(eb):
            for pl, vals, other, a in discr_guard_variants(b, eb):
                if (vals == [0] or (not vals and other)) and b.slice([pl["local"]]).has_call(r"::checked_sub$"):
                    return True
            return False

        none_side = [x for x in errs if on_none_edge(x[0])]
        if len(none_side) == 1:
            errs = [x for x in errs if x is not none_side[0]]
    e = one(errs, "Err(KeyTooLongError)")
    # Ok is reachable exactly when M >= 4 and len <= M - 4
    okf = lin.facts_at(ag[0])
    need = [lf_add(lf_const(4), {"M": 1, 1: 0}, -1), lf_add({"len(p%d)" % raw: 1, 1: 4}, {"M": 1, 1: 0}, -1)]
    if not all(entails(okf, g) for g in need):
        yield VIOL("C06-R3", "from_str/capacity-check", "Ok(..) is not confined to M >= 4 and len + 4 <= M (facts: %s)" % [lf_str(f) + " <= 0" for f in okf], where=b.span_of_block(ag[0]))
    else:
        # and the Err side is not wider than necessary: the rejecting comparisons are exactly `M < 4` and `len > M - 4`
        conds = []
        for a, s, c, truth in guard_conditions(b, e[0]):
            if c["kind"] == "binop":
                conds.append((c["op"], lf_str(lin.form(c["l"]) or {}), lf_str(lin.form(c["r"]) or {}), truth))
        okc = sorted((op, l, r) for op, l, r, t in conds if t)
        exp1 = ("Gt", "len(p%d)" % raw, "-4 + M")
        # ... or any comparison equivalent to it given what is known by construction (`capacity = M.checked_sub(4)?`:
        # `!(len <= capacity)` is `len > M - 4`)
        target = {"M": 1, "len(p%d)" % raw: -1, 1: -3}  # M - 4 - len + 1 <= 0
        equiv = False
        for a_, s_, c_, truth_ in guard_conditions(b, e[0]):
            if c_["kind"] != "binop" or truth_ is None:
                continue
            l_, r_ = lin.form(c_["l"]), lin.form(c_["r"])
            if l_ is None or r_ is None:
                continue
            F_ = ineq(c_["op"], l_, r_, truth_)
            ck = lin.checked_facts()
            if F_ and entails(F_ + ck, target) and all(entails([target] + ck, f_) for f_ in F_):
                equiv = True
        if not equiv and not any((op, l, r) == exp1 or (op == "Gt" and l == "4 + len(p%d)" % raw and r == "M") for op, l, r in okc):
            yield VIOL("C06-R3", "from_str/capacity-threshold", "the rejecting comparison is not `len > M - 4` (found %s): secrets up to the capacity must be accepted" % conds, where=b.span_of_block(e[0]))
        else:
            yield PASS("C06-R3", "from_str/capacity-check", "Err(KeyTooLongError) iff M < 4 or len > M - 4; M - 4 evaluated only when M >= 4", [site(b, e[0], "Err")])
    # sole constructor + private fields + as_ref
    adt = ctx.facts.adts.get("signing_key::KSecretKey")
    vis = {f["name"]: f["vis"] for v in adt["variants"] for f in v["fields"]} if adt else {}
    ctors = [body.path for body in ctx.facts.all_bodies() for _ in body.aggregates(adt=r"^signing_key::KSecretKey$")]
    ctors = [p for p in ctors if "Clone" not in p]
    if any("Public" in v for v in vis.values()) or ctors != ["<signing_key::KSecretKey<M> as std::str::FromStr>::from_str"]:
        yield VIOL("C06-R3", "ksecretkey/invariant", "KSecretKey can be constructed outside from_str (constructors %s, field visibility %s): 4 <= len <= M is no longer an invariant" % (ctors, vis), where=None)
    else:
        yield PASS("C06-R3", "ksecretkey/invariant", "fields private; from_str is the only constructor: 4 <= len <= M", [])
    a = ctx.fn("<signing_key::KSecretKey as std::convert::AsRef<[u8]>>::as_ref")
    al = Lin(a)
    idx = one(a.calls(r"ops::Index::index$"), "slice in as_ref")
    od = a.origin_def(idx[1]["args"][1])
    okr = False
    if od and od[0] == "def" and od[1]["kind"] == "assign" and od[1]["stmt"]["rv"].get("adt", "").endswith("ops::Range"):
        ops = od[1]["stmt"]["rv"]["ops"]
        s_, e_ = al.form(ops[0]), al.form(ops[1])
        okr = lf_norm(s_) == lf_norm(lf_const(4)) and lf_norm(e_) == lf_norm({"field:self.len": 1, 1: 0}) and a.slice_op(idx[1]["args"][0]).has_field("prefixed_key")
    if not okr:
        yield VIOL("C06-R3", "as_ref/range", "as_ref does not return prefixed_key[4..self.len]", where=loc(a.j["span"]))
    else:
        yield PASS("C06-R3", "as_ref/range", "&self.prefixed_key[4..self.len]: exactly the bytes stored by from_str", [loc(a.j["span"])])
    # default capacity <= HMAC block size (zero padding argument)
    ty = [im["self_ty"] for im in ctx.facts.impls if not im["of_trait"] and im["self_ty"].startswith("signing_key::KSecretKey")]
    caps = sorted({int(x) for t in ty for x in re.findall(r"<(\d+)>", t)})
    if ty and (not caps or max(caps) > 64):
        if any("<M>" in t for t in ty):
            yield VIOL("C06-R3", "to_kdate/capacity-vs-block", "to_kdate keys the HMAC with the whole buffer; this equals keying with the secret only for capacities <= 64 (inherent impls on %s)" % ty, where=None)
    yield PASS("C06-R3", "to_kdate/capacity-vs-block", "derivation methods exist only for KSecretKey%s: whole-buffer keying == secret keying (HMAC zero padding)" % ("<%s>" % caps[0] if caps else " (default M=44)"), [])
