"""Crate-wide secret-material taint (shared by C07 and C17).

Sources (raw key material):
  * reads of the raw byte fields of the key types (KSecretKey.prefixed_key, K*Key.key),
  * results of AsRef::as_ref resolved on a key type (the designed accessor hands out the raw bytes),
  * the `raw` parameter of <KSecretKey<M> as FromStr>::from_str (the secret itself),
  * by propagation: anything computed from those (calls are transparent), including results of crate-local
    functions whose return value is tainted for the given tainted arguments (summaries, memoised).
"""
import re

from lib import *

KEY_TYPES = ("signing_key::KSecretKey", "signing_key::KDateKey", "signing_key::KRegionKey", "signing_key::KServiceKey", "signing_key::KSigningKey")
RAW_FIELDS = {"prefixed_key", "key"}


def is_key_type(ty):
    t = ty.replace("&mut ", "").replace("&", "").strip()
    return any(t == k or t.startswith(k + "<") for k in KEY_TYPES)


def raw_field_source(p, body):
    """Place reads a raw byte field of a key type."""
    ty = body.local_ty(p["local"])
    cur_key = is_key_type(ty)
    for e in p["proj"]:
        if isinstance(e, dict) and "field" in e:
            if cur_key and e["field"] in RAW_FIELDS:
                return True
            cur_key = is_key_type(e.get("ty", ""))
    return False


def key_fields_of(facts):
    out = {}
    for path, a in facts.adts.items():
        if any(path == k for k in KEY_TYPES):
            out[path] = [f["name"] for v in a["variants"] for f in v["fields"]]
    return out


class SecretTaint:
    def __init__(self, facts):
        self.facts = facts
        self.memo = {}
        self.bodies_by_path = {}
        for b in facts.all_bodies():
            self.bodies_by_path.setdefault(b.path, b)

    def callee_body(self, t):
        if not t.get("resolved_local"):
            return None
        p = t.get("resolved")
        b = self.bodies_by_path.get(p)
        if b is None:
            return None
        # async fn: the interesting body is the coroutine; params are upvars there -> treat the async fn call as transparent
        return b

    def call_source(self, t, targs, depth):
        r = t.get("resolved_full", t.get("resolved", ""))
        if re.search(r"as std::convert::AsRef<\[u8(; \w+)?\]>>::as_ref$", r) and any(k in r for k in KEY_TYPES):
            return True
        return False

    def returns_tainted(self, t, targs, depth):
        """Summary: does crate-local callee return a tainted value given tainted argument positions?"""
        b = self.callee_body(t)
        if b is None or depth > 5:
            return None
        key = (b.path, tuple(targs))
        if key in self.memo:
            return self.memo[key]
        self.memo[key] = bool(targs)  # provisional (recursion guard, conservative)
        seeds = [i + 1 for i in targs if i + 1 <= b.arg_count]
        tainted = self.taint(b, seeds, depth + 1)
        res = 0 in tainted
        self.memo[key] = res
        return res

    def taint(self, body, seed_locals=(), depth=0, extra_call_source=None):
        seeds = set(seed_locals)
        if body.path.endswith("as std::str::FromStr>::from_str") and "KSecretKey" in body.path:
            seeds.add(1)

        def cs(t, targs):
            if self.call_source(t, targs, depth):
                return True
            if extra_call_source and extra_call_source(t, targs):
                return True
            return False

        def decl(t):
            if re.search(r"subtle::ConstantTimeEq::ct_eq$", t.get("callee", "")):
                return True
            # crate-local callee with a summary saying "does not return tainted"
            b = self.callee_body(t)
            if b is not None and not b.j.get("coroutine_kind") and b.kind in ("Fn", "AssocFn"):
                # decided in second pass below (needs current tainted args); keep transparent here
                return False
            return False

        return forward_taint(body, seeds, call_source=cs, field_source=raw_field_source, declassify=decl)

    def tainted_params_of_calls(self, body, tainted):
        """[(block, term, callee Body, tainted arg idxs)] for crate-local callees receiving tainted arguments."""
        out = []
        for kind, bi, det in tainted_uses(body, tainted, raw_field_source):
            if kind != "call":
                continue
            t, idx = det
            cb = self.callee_body(t)
            if cb is not None:
                out.append((bi, t, cb, idx))
        return out

    def closure(self, roots):
        """Analyse bodies reachable from `roots` [(Body, seed_locals)] through tainted arguments.
        Returns {body.path: (Body, tainted set)}."""
        done = {}
        work = list(roots)
        while work:
            b, seeds = work.pop()
            prev = done.get(b.path)
            seeds = set(seeds) | (prev[2] if prev else set())
            if prev and seeds == prev[2]:
                continue
            tainted = self.taint(b, seeds)
            done[b.path] = (b, tainted, seeds)
            for bi, t, cb, idx in self.tainted_params_of_calls(b, tainted):
                if cb.j.get("coroutine_kind"):
                    continue
                s2 = {i + 1 for i in idx if i + 1 <= cb.arg_count}
                work.append((cb, s2))
        return {p: (b, t) for p, (b, t, s) in done.items()}
