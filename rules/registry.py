"""Rule registry + context shared by the per-property modules."""
import traceback

from engine import R, AnchorMissing, MISSING


class Ctx:
    def __init__(self, facts, facts_unstable=None, tier="quick", repo="/repo"):
        self.facts = facts
        self.facts_unstable = facts_unstable
        self.tier = tier
        self.repo = repo
        self.observations = []
        self.functions = set()
        self.sites = 0
        self.extra = {}

    def fn(self, path, kind=None):
        b = self.facts.body(path, kind)
        self.functions.add(b.path)
        return b

    def co(self, path):
        b = self.facts.coroutine_of(path)
        self.functions.add(b.path)
        return b

    def note(self, s):
        self.observations.append(s)

    def count(self, n=1):
        self.sites += n


class Module:
    """Collects the rules of one property."""

    def __init__(self, pid, title, explanation, assumptions):
        self.pid = pid
        self.title = title
        self.explanation = explanation
        self.assumptions = assumptions
        self.rules = []

    def rule(self, rid, desc):
        def deco(fn):
            self.rules.append((rid, desc, fn))
            return fn

        return deco

    def run(self, ctx, only=None):
        out = []
        for rid, desc, fn in self.rules:
            if only and rid != only:
                continue
            try:
                res = fn(ctx)
                res = list(res) if res is not None else []
                if not res:
                    res = [MISSING(rid, rid + "/no-result", "rule produced no result (matched nothing): %s" % desc)]
            except AnchorMissing as e:
                res = [MISSING(rid, rid + "/anchor/" + _slug(e.what), "anchor missing / idiom not recognised: " + e.what)]
            except Exception as e:  # fail closed
                res = [MISSING(rid, rid + "/exception/" + type(e).__name__, "rule crashed (fail closed): %r\n%s" % (e, traceback.format_exc()[-1500:]))]
            for r in res:
                if not r.rule:
                    r.rule = rid
            out += res
        return out


def _slug(s):
    import re

    return re.sub(r"[^A-Za-z0-9_:<>]+", "-", s)[:80]
