"""C14 Key provider is consulted once, last, and its failures never authenticate."""
from lib import *
from registry import Module

M = Module(
    "C14",
    "Key provider once, last, failures never authenticate",
    "Crate-wide who-may-call rule (the only call into tower's Service/ServiceExt API is one ServiceExt::oneshot in get_signing_key, outside any "
    "CFG cycle, in a function with a single caller chain), dominance of that call by the success edges of from_request_parts, get_authenticator "
    "and prevalidate, and def-use of get_signing_key's result: Ok only under the provider's Ok discriminant carrying that value, Err(*downcast) or "
    "Err(InternalServiceError(e)) otherwise; validate_signature applies `?` to it and never substitutes a default response.",
    ["tower::ServiceExt::oneshot = poll_ready until ready, then exactly one call (tower's documented contract)", "the provider's own behaviour is out of scope"],
)

GSK = "auth::SigV4Authenticator::get_signing_key"
VS = "auth::SigV4Authenticator::validate_signature"
ENTRY = "signature::sigv4_validate_request"
SERVICE_API = r"^(tower_service::Service::(call|poll_ready)|tower::Service::(call|poll_ready)|tower::ServiceExt::\w+|tower::util::\w+::\w+)$"


@M.rule("C14-R1", "single provider invocation site: one ServiceExt::oneshot, no direct Service::call, not in a loop, single caller chain")
def r1(ctx):
    sites = []
    for body in ctx.facts.all_bodies():
        for bi, t in body.calls(SERVICE_API):
            sites.append((body, bi, t))
        # calls through a generic S: Service parameter resolve as GENERIC with trait tower_service::Service
        for bi, t in body.calls():
            if re.match(r"tower(_service)?::Service(Ext)?$", t.get("trait", "")) and (body, bi, t) not in sites:
                sites.append((body, bi, t))
    ctx.count(len(sites))
    real = [(b, bi, t) for b, bi, t in sites if not b.path.startswith("signing_key::service_for_signing_key_fn")]
    if len(real) != 1:
        yield VIOL("C14-R1", "provider/invocation-sites", "expected exactly one call into the tower Service API, found %d: %s" % (len(real), ["%s in %s" % (t["callee"], b.path) for b, bi, t in real]), where=None)
        return
    b, bi, t = real[0]
    if t["callee"] != "tower::ServiceExt::oneshot":
        yield VIOL("C14-R1", "provider/not-oneshot:" + t["callee"].split("::")[-1], "provider invoked through `%s` (only ServiceExt::oneshot waits for poll_ready and calls once)" % t["callee"], where=b.span_of_block(bi))
        return
    if b.path != GSK + "::{closure#0}":
        yield VIOL("C14-R1", "provider/wrong-function", "provider invoked from %s" % b.path, where=b.span_of_block(bi))
        return
    if b.in_cycle(bi):
        yield VIOL("C14-R1", "provider/in-loop", "the provider call is inside a CFG cycle (retry loop)", where=b.span_of_block(bi))
        return
    # the service handed to oneshot is the caller's provider parameter
    gp = param_by_name(b, "get_signing_key")
    if gp not in b.slice_op(t["args"][0]).locals:
        yield VIOL("C14-R1", "provider/not-the-callers-service", "oneshot is not invoked on the get_signing_key parameter", where=b.span_of_block(bi))
        return
    yield PASS("C14-R1", "provider/single-oneshot", "exactly one tower API call in the crate: ServiceExt::oneshot(get_signing_key, req), outside any cycle", [site(b, bi, "oneshot")])
    # caller chain
    c1 = [(x, xb) for x, xb, xt in ctx.facts.callers_of(r"SigV4Authenticator::get_signing_key$")]
    c2 = [(x, xb) for x, xb, xt in ctx.facts.callers_of(r"SigV4Authenticator::validate_signature$")]
    p1, p2 = sorted({x.path for x, _ in c1}), sorted({x.path for x, _ in c2})
    if len(c1) != 1 or p1 != [VS + "::{closure#0}"] or len(c2) != 1 or p2 != [ENTRY + "::{closure#0}"]:
        yield VIOL("C14-R1", "provider/caller-chain", "get_signing_key called from %s (%d sites), validate_signature from %s (%d sites)" % (p1, len(c1), p2, len(c2)), where=None)
    else:
        x, xb = c1[0]
        y, yb = c2[0]
        if x.in_cycle(xb) or y.in_cycle(yb):
            yield VIOL("C14-R1", "provider/caller-in-loop", "get_signing_key/validate_signature is called inside a loop", where=x.span_of_block(xb))
        else:
            yield PASS("C14-R1", "provider/caller-chain", "sigv4_validate_request -> validate_signature -> get_signing_key, one call site each, none in a cycle", [site(x, xb, "get_signing_key"), site(y, yb, "validate_signature")])


@M.rule("C14-R2", "the lookup is dominated by the success edges of every earlier check")
def r2(ctx):
    v = ctx.co(VS)
    pv = one(v.calls(r"SigV4Authenticator::prevalidate$"), "prevalidate call")
    gk = one(v.calls(r"SigV4Authenticator::get_signing_key$"), "get_signing_key call")
    cont = v.try_continue_block(pv[0])
    ctx.count(3)
    if cont is None or not v.dominates(cont, gk[0]):
        yield VIOL("C14-R2", "validate_signature/lookup-after-prevalidate", "get_signing_key not dominated by the success edge of prevalidate(..)?", where=v.span_of_block(gk[0]))
    else:
        yield PASS("C14-R2", "validate_signature/lookup-after-prevalidate", "dominated by Continue edge of prevalidate(..)?", [site(v, gk[0], "get_signing_key")])
    e = ctx.co(ENTRY)
    vs = one(e.calls(r"SigV4Authenticator::validate_signature$"), "validate_signature call")
    for nm, pat in (("from_request_parts", r"CanonicalRequest::from_request_parts$"), ("get_authenticator", r"CanonicalRequest::get_authenticator$")):
        c = one(e.calls(pat), nm + " call")
        cont = e.try_continue_block(c[0])
        if cont is None or not e.dominates(cont, vs[0]):
            yield VIOL("C14-R2", "entry/validate-after-" + nm, "validate_signature not dominated by the success edge of %s(..)?" % nm, where=e.span_of_block(vs[0]))
        else:
            yield PASS("C14-R2", "entry/validate-after-" + nm, "validate_signature dominated by Continue edge of %s(..)?" % nm, [site(e, c[0], nm)])
    # get_authenticator: get_auth_parameters? then get_authenticator_from_auth_parameters
    g = ctx.fn("canonical::CanonicalRequest::get_authenticator")
    gap = one(g.calls(r"CanonicalRequest::get_auth_parameters$"), "get_auth_parameters call")
    gaf = one(g.calls(r"CanonicalRequest::get_authenticator_from_auth_parameters$"), "get_authenticator_from_auth_parameters call")
    cont = g.try_continue_block(gap[0])
    if cont is None or not g.dominates(cont, gaf[0]):
        yield VIOL("C14-R2", "get_authenticator/order", "authenticator construction not dominated by the success edge of get_auth_parameters(..)?", where=g.span_of_block(gaf[0]))
    else:
        rs = g.slice([0])
        if not rs.has_call(r"get_authenticator_from_auth_parameters$"):
            yield VIOL("C14-R2", "get_authenticator/result", "get_authenticator does not return get_authenticator_from_auth_parameters' result", where=loc(g.j["span"]))
        else:
            yield PASS("C14-R2", "get_authenticator/order", "get_auth_parameters(..)? dominates get_authenticator_from_auth_parameters", [site(g, gap[0], "get_auth_parameters")])


@M.rule("C14-R3", "provider failures propagate: Ok only with the provider's Ok value; Err(*SignatureError) or Err(InternalServiceError)")
def r3(ctx):
    b = ctx.co(GSK)
    prov = one(b.calls(r"tower::ServiceExt::oneshot$|tower(_service)?::Service::call$"), "provider invocation")
    oks = result_aggs(b, "Ok")
    errs = result_aggs(b, "Err")
    ctx.count(len(oks) + len(errs))
    if len(oks) != 1:
        yield VIOL("C14-R3", "get_signing_key/ok-count", "expected one Ok in get_signing_key, found %d" % len(oks), where=loc(b.j["span"]))
        return
    okb = oks[0][0]
    # Ok guarded by discriminant Ok (0) of the awaited result
    g = [(pl, vals, other, a) for pl, vals, other, a in discr_guard_variants(b, okb)]
    awaited = None
    for pl, vals, other, a in g:
        sl = b.slice([pl["local"]])
        if sl.has_call(r"tower::ServiceExt::oneshot$") and "std::result::Result<signing_key::GetSigningKeyResponse" in b.local_ty(pl["local"]):
            awaited = (pl, vals, other, a)
    if not awaited or awaited[1] != [0] or awaited[2]:
        yield VIOL("C14-R3", "get_signing_key/ok-guard", "Ok(..) is not guarded by the Ok discriminant of the awaited provider result", where=b.span_of_block(okb))
    else:
        pay = b.slice_op(oks[0][2]["rv"]["ops"][0])
        down = [fs for l, fs in pay.fieldreads if l == awaited[0]["local"]]
        if not pay.has_call(r"tower::ServiceExt::oneshot$") or pay.aggs and any(a_["stmt"]["rv"].get("adt", "").endswith("GetSigningKeyResponse") for a_ in pay.aggs):
            yield VIOL("C14-R3", "get_signing_key/ok-payload", "Ok payload is not the provider's response", where=b.span_of_block(okb))
        else:
            yield PASS("C14-R3", "get_signing_key/ok", "Ok(key) only under the provider's Ok discriminant, returning that value", [site(b, okb, "Ok")])
    kinds = set()
    for eb, i, s in errs:
        pay = b.slice_op(s["rv"]["ops"][0])
        if not pay.has_call(r"tower::ServiceExt::oneshot$"):
            yield VIOL("C14-R3", "get_signing_key/err-not-from-provider", "an Err exit does not carry the provider's error", where=b.span_of_block(eb))
            continue
        dc = pay.find_calls(r"downcast$")
        conv = [x for x in pay.find_calls(r"convert::(From::from|Into::into)$") if re.search(r"<error::SignatureError as std::convert::From<std::boxed::Box<\(?dyn std::error::Error", x[1].get("resolved_full", ""))]
        if conv and not dc:
            # `Err(SignatureError::from(e))`: the reviewed conversion does the classification (checked below, from-boxerror/shape)
            kinds |= {"*downcast", "InternalServiceError"}
            continue
        if not dc or "error::SignatureError" not in dc[0][1].get("resolved_full", ""):
            yield VIOL("C14-R3", "get_signing_key/err-no-downcast", "provider error not classified by downcast::<SignatureError>()", where=b.span_of_block(eb))
            continue
        for a_ in pay.aggs:
            if a_["stmt"]["rv"].get("adt") == "error::SignatureError":
                kinds.add(a_["stmt"]["rv"]["variant"])
        # the downcast's Ok payload (the provider's own SignatureError) is moved out unchanged
        dl = dc[0][1]["dest"]["local"]
        for l_, fs in pay.fieldreads:
            if fs and fs[0] == "0" and (l_ == dl or dl in b.slice([l_]).locals):
                kinds.add("*downcast")
    if kinds != {"*downcast", "InternalServiceError"}:
        yield VIOL("C14-R3", "get_signing_key/err-kinds", "error exits are %s (expected the provider's own SignatureError, or InternalServiceError wrapping it)" % sorted(kinds), where=loc(b.j["span"]))
    else:
        yield PASS("C14-R3", "get_signing_key/err-kinds", "Err(*sig_err) when the provider's error is a SignatureError, Err(InternalServiceError(e)) otherwise", [site(b, e[0], "Err") for e in errs])
    # nothing else writes the return place
    for d in b.defs().get(0, []):
        if d["kind"] == "call":
            yield VIOL("C14-R3", "get_signing_key/return-from-call", "return value produced by call `%s`" % d["term"].get("callee"), where=b.span_of_block(d["block"]))
    # validate_signature: result consumed by `?` only; no default/fallback response anywhere in the validation path
    v = ctx.co(VS)
    gk = one(v.calls(r"SigV4Authenticator::get_signing_key$"), "get_signing_key call")
    brs = [(bi, t) for bi, t in v.calls(r"Try::branch$") if v.slice_op(t["args"][0]).has_call(r"SigV4Authenticator::get_signing_key$")]
    if len(brs) != 1:
        yield VIOL("C14-R3", "validate_signature/lookup-result-use", "the awaited lookup result is not consumed by exactly one `?`", where=v.span_of_block(gk[0]))
    else:
        yield PASS("C14-R3", "validate_signature/lookup-result-use", "get_signing_key(..).await is consumed by `?`", [site(v, brs[0][0], "?")])
    bad = []
    for body in (v, b, ctx.co(ENTRY)):
        for bi, t in body.calls(r"(Result::<T, E>::(unwrap_or|unwrap_or_default|unwrap_or_else|ok|or|or_else)|Option::<T>::(unwrap_or_default))$|Default::default$"):
            sl_args = [body.slice_op(a) for a in t["args"]]
            if "GetSigningKeyResponse" in t.get("resolved_full", "") or "SigV4AuthenticatorResponse" in t.get("resolved_full", ""):
                bad.append((body, bi, t))
        for bi, t in body.calls(r"GetSigningKeyResponse(Builder)?::(default|builder|build)$|<signing_key::GetSigningKeyResponse as std::default::Default>::default$"):
            bad.append((body, bi, t))
    for body, bi, t in bad:
        yield VIOL("C14-R3", "fallback-response:" + t["callee"].split("::")[-1], "a substitute/default provider response is produced in the validation path (`%s`)" % t.get("resolved_full", t["callee"])[:120], where=body.span_of_block(bi))
    if not bad:
        yield PASS("C14-R3", "no-fallback-response", "no default/fallback GetSigningKeyResponse or SigV4AuthenticatorResponse is produced in the validation path", [])
    # From<Box<dyn Error>> agrees
    f = ctx.fn("<error::SignatureError as std::convert::From<std::boxed::Box<(dyn std::error::Error + std::marker::Send + std::marker::Sync + 'static)>>>::from")
    fs = f.slice([0])
    aggs = {a_["stmt"]["rv"].get("variant") for a_ in fs.aggs if a_["stmt"]["rv"].get("adt") == "error::SignatureError"}
    # ... and the Ok arm hands the provider's own SignatureError back as it is: no second look at it (a `match *sig_err`
    # that unwraps / re-classifies some kinds), no recursion
    relook = [bi_ for bi_ in sorted(f.live_blocks()) if f.term(bi_)["k"] == "switch" and (f.cond_of_switch(bi_) or {}).get("kind") == "discr" and re.search(r"error::SignatureError$", (f.local_ty((f.cond_of_switch(bi_) or {}).get("place", {}).get("local", 0)) or "").replace("&", "").strip())]
    selfcalls = [t_ for _, t_ in f.calls(r"convert::(From::from|Into::into)$") if "error::SignatureError" in t_.get("resolved_full", "")]
    if relook or selfcalls:
        yield VIOL("C14-R3", "from-boxerror/shape", "From<BoxError> for SignatureError inspects or re-converts the provider's own SignatureError (%d match(es) on it, %d nested conversion(s)): a provider failure is no longer returned unchanged" % (len(relook), len(selfcalls)), where=loc(f.j["span"]))
    elif not fs.has_call(r"downcast$") or aggs != {"InternalServiceError"}:
        yield VIOL("C14-R3", "from-boxerror/shape", "From<BoxError> for SignatureError is not downcast-or-InternalServiceError (constructs %s)" % sorted(aggs), where=loc(f.j["span"]))
    else:
        yield PASS("C14-R3", "from-boxerror/shape", "From<BoxError>: *downcast or InternalServiceError(e)", [loc(f.j["span"])])


import c03  # noqa: E402


@M.rule("C14-R2b", "malformed credentials never reach the provider: arity decided exactly (shared with C03-R1)")
def r2b(ctx):
    for r in c03.r1(ctx):
        r.rule = "C14-R2b"
        yield r


@M.rule("C14-R4", "a provider response cannot be built without a signing key")
def r4_resp(ctx):
    """`validate_signature` keys the HMAC with whatever key the response carries. The response builder refuses to build
    when no key was set (derive_builder's UninitializedFieldError for `signing_key`); a struct-level `#[builder(default)]`
    turns that into the all-zero key of `Default`, so a provider that ends with `Ok(builder.build()?)` authenticates an
    unknown access key for anyone who signs with 32 zero bytes."""
    b = ctx.fn("signing_key::GetSigningKeyResponseBuilder::build")
    ctx.count()
    uninit = [t for _, t in b.calls() if re.search(r"UninitializedFieldError", t.get("resolved_full", "") + t.get("callee", "")) and "signing_key" in [c_ for a_ in t["args"] for c_ in b.slice_op(a_).const_values()]]
    if not uninit or not result_aggs(b, "Err", own_return=False) and not b.calls(r"FromResidual::from_residual$") and not any(s_["rv"].get("variant") == "Err" for _, _, s_ in b.aggregates(adt=r"^std::result::Result$")):
        yield VIOL("C14-R4", "response-builder/signing-key-required", "GetSigningKeyResponseBuilder::build no longer fails when `signing_key` was never set: a default (all-zero) key stands in", where=loc(b.j["span"]))
    else:
        yield PASS("C14-R4", "response-builder/signing-key-required", "build() = Err(UninitializedFieldError(\"signing_key\")) when the key was not set", [loc(b.j["span"])])
