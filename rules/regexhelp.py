"""Regex literals of the crate (from the fact base) and their static facts (tools/regexfacts)."""
import json
import os
import re
import subprocess

import factbase
from engine import AnchorMissing, const_value, op_const

TOOL_DIR = os.path.join(factbase.VERIF, "tools", "regexfacts")
TOOL = os.path.join(TOOL_DIR, "target", "debug", "regexfacts")


def ensure_tool():
    src = os.path.join(TOOL_DIR, "src", "main.rs")
    if os.path.exists(TOOL) and os.path.getmtime(TOOL) >= os.path.getmtime(src):
        return
    r = subprocess.run("cargo build --offline", shell=True, cwd=TOOL_DIR, env=factbase.base_env(), stdout=subprocess.PIPE, stderr=subprocess.STDOUT, text=True)
    if r.returncode != 0 or not os.path.exists(TOOL):
        raise RuntimeError("cannot build regexfacts: " + r.stdout[-2000:])


def regex_literals(facts):
    """[(static path, pattern or None, Body, block)] for every Regex::new call in the crate."""
    out = []
    for b in facts.all_bodies():
        for bi, t in b.calls(r"^regex::Regex::new$|^regex::RegexBuilder::new$|^regex::bytes::Regex::new$|^regex::RegexSet::new$"):
            od = b.origin_def(t["args"][0])
            pat = const_value(od[1]) if od and od[0] == "const" else None
            m = re.match(r"^<(.*) as std::ops::Deref>::deref::__static_ref_initialize$", b.path) or re.match(r"^(.*)::\{closure#0\}$", b.path)
            owner = m.group(1) if m else b.path
            # `static X: LazyLock<Regex> = LazyLock::new(|| Regex::new(..))`: the initialiser closure of static X
            if m and "{closure" in b.path and owner not in {s_["path"] for s_ in facts.statics}:
                owner = b.path
            out.append((owner, pat if isinstance(pat, str) else None, b, bi))
    return out


def facts_for_patterns(pats):
    ensure_tool()
    r = subprocess.run([TOOL] + list(pats), stdout=subprocess.PIPE, stderr=subprocess.PIPE, text=True)
    if r.returncode != 0:
        raise RuntimeError("regexfacts failed: " + r.stderr[-500:])
    return json.loads(r.stdout)
