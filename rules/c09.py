"""C09 Path canonicalisation: byte class, emission rules and mode split (structural clauses)."""
from lib import *
from registry import Module
import valueset

M = Module(
    "C09",
    "Path canonicalisation (structural clauses)",
    "R1: exhaustive value-set evaluation of is_rfc3986_unreserved over all 256 bytes (pre-image of true must be exactly A-Z a-z 0-9 - . _ ~) and of "
    "u8_to_upper_hex (must be the two upper-case hex digits, high nibble first). R2: in normalize_uri_element every byte reaches the output "
    "unchanged only under is_rfc3986_unreserved of that very byte (raw input byte, or the byte decoded by hex::decode of exactly the two bytes "
    "after '%'); everything else is emitted as '%' + u8_to_upper_hex; the only other emission is the constant %20, guarded by a comparison of the RAW "
    "input byte with '+'. R3: that '+' rewrite must be conditional on the element being a Query element, and the malformed-escape exits are "
    "InvalidURIPath for Path / MalformedQueryString for Query. R4: in canonicalize_uri_path the slash collapse (on the raw input, before the "
    "split), the '.' removal and the '..' resolution are each guarded by !s3 and test the NORMALISED component; relative and above-root paths "
    "construct InvalidURIPath. Idempotence, spelling-insensitivity and exact dot-segment semantics quantify over strings and are not decided.",
    ["hex::decode accepts exactly [0-9a-fA-F]{2} for a 2-byte input", "regex `//+` replace_all collapses slash runs (regex crate)"],
)

NUE = "canonical::normalize_uri_element"
CUP = "canonical::canonicalize_uri_path"
UNRESERVED = set(b"ABCDEFGHIJKLMNOPQRSTUVWXYZabcdefghijklmnopqrstuvwxyz0123456789-._~")


@M.rule("C09-R1", "literal byte class is exactly A-Z a-z 0-9 - . _ ~ ; hex rendering is upper-case, high nibble first")
def r1(ctx):
    f = ctx.fn("canonical::is_rfc3986_unreserved")
    res, paths = valueset.eval_u8_fn(f)
    ctx.count(256 * 2)
    pre = {v for v, r in res.items() if r}
    ctx.extra["unreserved_preimage"] = "".join(chr(c) for c in sorted(pre) if 32 <= c < 127)
    ctx.extra["valueset_exhaustive"] = True
    if pre != UNRESERVED:
        extra = sorted(pre - UNRESERVED)
        missing = sorted(UNRESERVED - pre)
        yield VIOL("C09-R1", "is_rfc3986_unreserved/byte-class", "bytes left literal differ from the RFC 3986 unreserved set: extra %s, missing %s" % ([chr(c) if 32 <= c < 127 else hex(c) for c in extra], [chr(c) for c in missing]), where=loc(f.j["span"]))
    else:
        yield PASS("C09-R1", "is_rfc3986_unreserved/byte-class", "exhaustive over 256 byte values on %d CFG paths: true exactly for the 66 unreserved bytes" % paths, [loc(f.j["span"])])
    h = ctx.fn("canonical::u8_to_upper_hex")
    hres, hp = valueset.eval_u8_fn(h)
    bad = [v for v, r in hres.items() if bytes(r) != ("%02X" % v).encode()]
    if bad:
        yield VIOL("C09-R1", "u8_to_upper_hex/table", "u8_to_upper_hex(%#x) = %r (expected %r); %d bytes differ" % (bad[0], bytes(hres[bad[0]]), ("%02X" % bad[0]).encode(), len(bad)), where=loc(h.j["span"]))
    else:
        yield PASS("C09-R1", "u8_to_upper_hex/table", "exhaustive over 256 byte values: two upper-case hex digits, high nibble first", [loc(h.j["span"])])


def emissions(b):
    """Mutating calls on the output buffer of normalize_uri_element: [(block, term, kind, operand slice)]."""
    # the buffer: the Vec<u8> whose content is returned through from_utf8
    acc = None
    for bi, t in b.calls(r"Vec::<T>::new$|Vec::<T>::with_capacity$"):
        if "Vec::<u8>" in t.get("resolved_full", ""):
            acc = t["dest"]["local"]
    if acc is None:
        raise AnchorMissing("output buffer in normalize_uri_element")
    out = []
    for d in b.defs().get(acc, []):
        if d["kind"] == "mutcall":
            out.append((d["block"], d["term"], d["argidx"]))
    return acc, out


def guard_unreserved_of(b, blk, byte_local, operand=None):
    """Is blk guarded (true edge) by is_rfc3986_unreserved(x) with x a copy of byte_local - or, for a `match bytes[i] { c
    if is_rfc3986_unreserved(c) => push(c) }`, another copy of the very same indexed place?"""
    op_ = b.origin_def(operand) if operand is not None else None
    for a, s, c, truth in guard_conditions(b, blk):
        if c["kind"] == "call" and re.search(r"canonical::is_rfc3986_unreserved$", c["callee"]) and truth is True:
            if root_local(b, c["term"]["args"][0]) == byte_local:
                return True
            og_ = b.origin_def(c["term"]["args"][0])
            if op_ and og_ and op_[0] == "place" and og_[0] == "place" and op_[1] == og_[1] and place_index_locals(op_[1]):
                return True
    return False


@M.rule("C09-R2", "emission rules of normalize_uri_element")
def r2(ctx):
    b = ctx.fn(NUE)
    acc, ems = emissions(b)
    ctx.count(len(ems))
    dec = b.calls(r"^hex::decode$")
    anydec = b.calls(r"from_str_radix$|u8::from_str|char::to_digit$|parse$|hex::decode_to_slice$|FromHex::from_hex$")
    if len(dec) != 1 or anydec:
        yield VIOL("C09-R2", "normalize_uri_element/escape-decoder", "percent escapes are not decoded by exactly one hex::decode (found %d, other parsers: %s): e.g. from_str_radix accepts a leading '+'" % (len(dec), [t["callee"] for _, t in anydec]), where=loc(b.j["span"]))
        return
    db, dt = dec[0]
    # decode input = path_component[i+1 .. i+3]
    dsl = b.slice_op(dt["args"][0], int_barrier=False)
    rng = [a_ for a_ in dsl.aggs if a_["stmt"]["rv"].get("adt", "").endswith("ops::Range")]
    okr = False
    if rng:
        ops = rng[0]["stmt"]["rv"]["ops"]

        def off(o):
            od = b.origin_def(o)
            while od and od[0] == "def" and od[1]["kind"] == "assign" and od[1]["stmt"]["rv"]["k"] == "use":
                od = b.origin_def(od[1]["stmt"]["rv"]["op"])
            if od and od[0] == "place" and place_fields(od[1]) == ["0"]:
                for d in b.defs().get(od[1]["local"], []):
                    if d["kind"] == "assign" and d["stmt"]["rv"]["k"] == "binop" and d["stmt"]["rv"]["op"] == "AddWithOverflow":
                        return const_value(op_const(d["stmt"]["rv"]["r"]) or {})
            return None

        okr = (off(ops[0]), off(ops[1])) == (1, 3)
    if not okr:
        yield VIOL("C09-R2", "normalize_uri_element/escape-range", "the escape is not decoded from exactly the two bytes [i+1 .. i+3]", where=b.span_of_block(db))
    else:
        yield PASS("C09-R2", "normalize_uri_element/escape-decoder", "hex::decode(&bytes[i+1..i+3])", [site(b, db, "hex::decode")])
    # classify emissions
    raw_byte = None  # local holding path_component[i]
    for bi, i, s in b.stmts():
        if s["k"] == "assign" and s["rv"]["k"] == "use":
            p = op_place(s["rv"]["op"])
            if p and place_index_locals(p) and b.local_ty(s["place"]["local"]) == "u8" and b.names.get(s["place"]["local"]):
                if param_by_name(b, "uri_el") in b.slice([p["local"]]).locals:
                    raw_byte = s["place"]["local"]
    if raw_byte is None:
        raise AnchorMissing("raw input byte local (path_component[i])")
    # the bytes walked are the element's own bytes, all of them: `uri_el.as_bytes()` (a trim / re-casing / cut of the
    # element before the walk changes which strings are equivalent - form bodies do carry raw whitespace)
    ralt = transforms(b, {"copy": {"local": raw_byte, "proj": []}}, allow=None)
    if ralt:
        yield VIOL("C09-R2", "normalize_uri_element/input-as-is", "the element is altered before its bytes are normalised (through %s)" % [c.split("::")[-1] for c in ralt], where=loc(b.j["span"]))
    else:
        yield PASS("C09-R2", "normalize_uri_element/input-as-is", "bytes walked = uri_el.as_bytes()", [])
    kinds = {"raw-literal": 0, "decoded-literal": 0, "percent": 0, "hex": 0, "plus-space": 0}
    bad = False
    for blk, t, ai in ems:
        c = t["callee"]
        others = [a for k, a in enumerate(t["args"]) if k != ai]
        if not others:
            bad = True
            yield VIOL("C09-R2", "normalize_uri_element/buffer-op:" + c.split("::")[-1], "output buffer modified by `%s`" % c, where=b.span_of_block(blk))
            continue
        o = others[0]
        cv = const_str_of(b, o)[0]
        if re.search(r"Vec::<T, A>::push$", c):
            if cv == 0x25:
                kinds["percent"] += 1
                continue
            if cv is not None:
                bad = True
                yield VIOL("C09-R2", "normalize_uri_element/const-push", "constant byte %r pushed" % cv, where=b.span_of_block(blk))
                continue
            l = root_local(b, o)
            sl = b.slice([l])
            is_decoded = sl.has_call(r"^hex::decode$")
            if not guard_unreserved_of(b, blk, l, o):
                bad = True
                yield VIOL("C09-R2", "normalize_uri_element/unguarded-literal:%s" % ("decoded" if is_decoded else "raw"), "a %s byte is copied to the output without `is_rfc3986_unreserved` of that byte holding" % ("decoded" if is_decoded else "raw input"), where=b.span_of_block(blk))
                continue
            kinds["decoded-literal" if is_decoded else "raw-literal"] += 1
        elif re.search(r"Extend::extend$", c):
            sl = b.slice_op(o)
            hx = sl.find_calls(r"canonical::u8_to_upper_hex$")
            if not hx:
                bad = True
                yield VIOL("C09-R2", "normalize_uri_element/extend-other", "output extended with something other than u8_to_upper_hex(..)", where=b.span_of_block(blk))
                continue
            # the byte rendered must NOT be unreserved on this path (guarded by the false edge) - i.e. not both literal and escaped
            kinds["hex"] += 1
        elif re.search(r"Vec::<T, A>::extend_from_slice$", c):
            if cv != b"%20":
                bad = True
                yield VIOL("C09-R2", "normalize_uri_element/extend-const", "constant %r appended" % cv, where=b.span_of_block(blk))
                continue
            # guarded by Eq(raw byte, '+') where the compared byte is the RAW input byte only
            okp = False
            for a, s, cnd, truth in guard_conditions(b, blk):
                if cnd["kind"] == "binop" and cnd["op"] == "Eq" and truth is True and 43 in (const_value(op_const(cnd["l"]) or {}), const_value(op_const(cnd["r"]) or {})):
                    subj = cnd["l"] if op_const(cnd["l"]) is None else cnd["r"]
                    ssl = b.slice_op(subj)
                    if root_local(b, subj) == raw_byte and not ssl.has_call(r"^hex::decode$"):
                        okp = True
                # `match bytes[i] { .., b'+' => .. }`: the switch is on the indexed input byte itself, edge value 43
                if cnd["kind"] == "place" and place_index_locals(cnd["place"]) and b.term(a)["k"] == "switch":
                    edge = [v for v, bb in b.term(a)["targets"] if bb == s and v is not None]
                    psl = b.slice([cnd["place"]["local"]])
                    if edge == [43] and param_by_name(b, "uri_el") in psl.locals and not psl.has_call(r"^hex::decode$"):
                        okp = True
            if not okp:
                bad = True
                yield VIOL("C09-R2", "normalize_uri_element/plus-rule-subject", "%20 is emitted for a '+' that is not the raw input byte (an escaped %2B would be turned into a space)", where=b.span_of_block(blk))
                continue
            kinds["plus-space"] += 1
        else:
            bad = True
            yield VIOL("C09-R2", "normalize_uri_element/buffer-op:" + c.split("::")[-1], "output buffer modified by `%s`" % c, where=b.span_of_block(blk))
    want = {"raw-literal": 1, "decoded-literal": 1, "percent": 2, "hex": 2, "plus-space": 1}
    if not bad and kinds != want:
        yield VIOL("C09-R2", "normalize_uri_element/emission-inventory", "emission sites %s differ from the reviewed inventory %s" % (kinds, want), where=loc(b.j["span"]))
    elif not bad:
        yield PASS("C09-R2", "normalize_uri_element/emissions", "7 emission sites: literal copies only under is_rfc3986_unreserved(that byte); otherwise '%'+u8_to_upper_hex; %20 only for a raw '+'", [site(b, blk, t["callee"].split("::")[-1]) for blk, t, ai in ems])
    # the result is exactly the buffer
    rs = b.slice([0])
    oks = result_aggs(b, "Ok")
    if len(oks) != 1 or acc not in b.slice_op(oks[0][2]["rv"]["ops"][0]).locals:
        yield VIOL("C09-R2", "normalize_uri_element/result", "Ok(..) does not return the buffer's content", where=loc(b.j["span"]))


@M.rule("C09-R3", "'+' => %20 only in query elements; malformed escapes map to the element's own error kind")
def r3(ctx):
    b = ctx.fn(NUE)
    ety = param_by_name(b, "uri_el_type")
    adt = ctx.facts.adts.get("canonical::UriElement")
    if adt is None:
        raise AnchorMissing("enum canonical::UriElement")
    vidx = {v["name"]: i for i, v in enumerate(adt["variants"])}
    acc, ems = emissions(b)
    plus = [(blk, t) for blk, t, ai in ems if re.search(r"extend_from_slice$", t["callee"])]
    ctx.count(1 + 4)
    for blk, t in plus:
        okq = False
        for pl, vals, other, a in discr_guard_variants(b, blk):
            if (pl["local"] == ety or root_local(b, {"copy": {"local": pl["local"], "proj": []}}, through_refs=True) == ety) and vals == [vidx.get("Query")]:
                okq = True
        for a, s, cnd, truth in guard_conditions(b, blk):
            if cnd["kind"] == "call" and ety in b.slice([cnd["term"]["dest"]["local"]]).locals:
                okq = True  # e.g. matches!() helper / PartialEq on the element type: reviewed as conditional
        if not okq:
            yield VIOL("C09-R3", "normalize_uri_element/plus-in-path", "'+' is rewritten to %20 for path elements too (not conditional on UriElement::Query): `/a+b` canonicalises to `/a%20b` while `/a%2Bb` gives `/a%2Bb`", where=b.span_of_block(blk))
        else:
            yield PASS("C09-R3", "normalize_uri_element/plus-query-only", "'+' => %20 is control-dependent on UriElement::Query", [site(b, blk, "%20")])
    # error kinds by element type
    sites = err_sites(b)
    by = {}
    for eb, i, s in sites:
        v = s["rv"]["variant"]
        for pl, vals, other, a in discr_guard_variants(b, eb):
            if pl["local"] == ety or root_local(b, {"copy": {"local": pl["local"], "proj": []}}, through_refs=True) == ety:
                by.setdefault(v, set()).update(vals)
    want = {"InvalidURIPath": {vidx.get("Path")}, "MalformedQueryString": {vidx.get("Query")}}
    if by != want or len(sites) != 4:
        yield VIOL("C09-R3", "normalize_uri_element/error-kinds", "malformed-escape exits by element type: %s over %d sites (expected Path=>InvalidURIPath, Query=>MalformedQueryString at 4 sites)" % ({k: sorted(v) for k, v in by.items()}, len(sites)), where=loc(b.j["span"]))
    else:
        yield PASS("C09-R3", "normalize_uri_element/error-kinds", "both malformed-escape exits: Path => InvalidURIPath, Query => MalformedQueryString", [site(b, eb, s["rv"]["variant"]) for eb, i, s in sites])
    # wrappers pass the right element type
    for fn, var in (("canonical::normalize_uri_path_component", "Path"), ("canonical::normalize_query_string_element", "Query")):
        w = ctx.fn(fn)
        c = one(w.calls(r"canonical::normalize_uri_element$"), "normalize_uri_element call in " + fn)
        od = w.origin_def(c[1]["args"][1])
        v = od[1]["stmt"]["rv"].get("variant") if od and od[0] == "def" and od[1]["kind"] == "assign" and od[1]["stmt"]["rv"]["k"] == "aggregate" else None
        if v != var or 1 not in w.slice_op(c[1]["args"][0]).locals:
            yield VIOL("C09-R3", "wrapper/" + fn, "%s calls normalize_uri_element with UriElement::%s" % (fn, v), where=loc(w.j["span"]))
        else:
            yield PASS("C09-R3", "wrapper/" + fn, "normalize_uri_element(arg, UriElement::%s)" % var, [loc(w.j["span"])])
        # the wrapper is thin: its only result is that call's, applied to the whole argument (a "fast path" that returns
        # the element unchanged keeps non-canonical spellings such as %7E or %41)
        d0 = [d for d in w.defs().get(0, []) if d["kind"] != "mutcall"]
        arg_od = w.origin_def(c[1]["args"][0])
        thin = len(d0) == 1 and d0[0]["kind"] == "call" and d0[0]["block"] == c[0] and arg_od == ("param", 1)
        if not thin:
            # `let r = normalize_uri_element(..); r` / `Ok(normalize_uri_element(..)?)` are the same function
            rs = w.slice([0])
            others = [x for x in result_aggs(w, "Ok") if not w.slice_op(x[2]["rv"]["ops"][0]).has_call(r"canonical::normalize_uri_element$")]
            thin = arg_od == ("param", 1) and not others and all(d["kind"] in ("call", "assign") and (w.slice([0]).has_call(r"canonical::normalize_uri_element$")) for d in d0) and \
                all((d["kind"] == "call" and re.search(r"normalize_uri_element$|FromResidual::from_residual$", d["term"]["callee"])) or (d["kind"] == "assign" and d["stmt"]["rv"]["k"] in ("use", "aggregate")) for d in d0) and \
                not [cn for cn in rs.callee_names() if not re.search(r"normalize_uri_element$|Try::branch$|FromResidual::from_residual$", cn)]
        if not thin:
            yield VIOL("C09-R3", "wrapper-thin/" + fn, "%s does more than forward to normalize_uri_element (another result source or a transformed argument): some spellings bypass or alter the normalisation" % fn, where=loc(w.j["span"]))
        else:
            yield PASS("C09-R3", "wrapper-thin/" + fn, "returns normalize_uri_element(whole argument, ..) and nothing else", [loc(w.j["span"])])


@M.rule("C09-R4", "mode split and dot-segment tests in canonicalize_uri_path")
def r4(ctx):
    b = ctx.fn(CUP)
    s3 = param_by_name(b, "s3")
    inp = param_by_name(b, "uri_path")
    ctx.count(6)

    def s3_false_guard(blk):
        for a, s, c, truth in guard_conditions(b, blk):
            if c["kind"] in ("local", "place"):
                l = c.get("local", c.get("place", {}).get("local"))
                if l == s3 or (l is not None and s3 in b.slice([l]).locals):
                    t = b.truth_of_edge(a, s)
                    if c.get("neg"):
                        t = not t
                    if t is False:
                        return True
        return False

    # slash collapsing: on the raw input, only when !s3, before the split
    ra = b.calls(r"regex::Regex::replace_all$")
    sp = one(b.calls(r"str>::split$"), "split('/')")
    if len(ra) != 1:
        yield VIOL("C09-R4", "canonicalize_uri_path/collapse-count", "expected one slash-collapsing replace_all, found %d" % len(ra), where=loc(b.j["span"]))
    else:
        rb, rt = ra[0]
        src = b.slice_op(rt["args"][1])
        patl = b.slice_op(rt["args"][0])
        probs = []
        if not s3_false_guard(rb):
            probs.append("not guarded by !s3")
        if inp not in src.locals or src.has_call(r"join$|canonical::normalize_uri"):
            probs.append("not applied to the raw request path")
        if not (b.dominates(rb, sp[0]) or b.reachable(rb, sp[0])) or b.reachable(sp[0], rb):
            probs.append("not before the segment split (empty segments survive into dot-segment resolution)")
        if const_str_of(b, rt["args"][2])[0] != "/":
            probs.append("replacement is not '/'")
        if not any(c.get("static", "").endswith("MULTISLASH") or "MULTISLASH" in c.get("repr", "") for c in patl.consts):
            probs.append("pattern is not MULTISLASH")
        # what MULTISLASH matches: exactly the runs of two or more '/' (alphabet {'/'}, every length >= 2, unanchored).
        # A second alternative (`|/(?:\\./)+`) rewrites other text in the same single pass, where the rules do not compose
        import regexhelp
        lits = [x for x in regexhelp.regex_literals(ctx.facts) if x[0].endswith("MULTISLASH")]
        if len(lits) != 1 or lits[0][1] is None:
            probs.append("the MULTISLASH pattern literal was not found")
        else:
            rf = regexhelp.facts_for_patterns([lits[0][1]])[0]
            cap = rf.get("len_cap", 0)
            if not rf.get("parse_ok") or rf.get("alphabet") != "/" or rf.get("atoms", 99) > 16 or rf.get("lengths") != list(range(2, cap + 1)) or rf.get("anchored_start") or rf.get("anchored_end"):
                probs.append("MULTISLASH (`%s`) does not match exactly the runs of two or more slashes (alphabet %r, lengths %s..)" % (lits[0][1], rf.get("alphabet"), (rf.get("lengths") or [])[:4]))
        if probs:
            yield VIOL("C09-R4", "canonicalize_uri_path/collapse", "slash collapsing: " + "; ".join(probs), where=b.span_of_block(rb))
        else:
            yield PASS("C09-R4", "canonicalize_uri_path/collapse", "MULTISLASH.replace_all(raw path, \"/\") only when !s3, before split('/')", [site(b, rb, "replace_all")])
    if const_value(op_const(sp[1]["args"][1]) or {}) != ord("/"):
        yield VIOL("C09-R4", "canonicalize_uri_path/separator", "path is not split on '/'", where=b.span_of_block(sp[0]))
    # dot tests
    found = {}
    for bi, t in cmp_calls(b, r"PartialEq::(eq|ne)$"):
        vals = [v for v in b.slice_op(t["args"][0]).const_values() + b.slice_op(t["args"][1]).const_values() if isinstance(v, str)]
        for dot in (".", ".."):
            if dot in vals and len([v for v in vals if v in (".", "..")]) == 1:
                subj = t["args"][0] if dot not in [v for v in b.slice_op(t["args"][0]).const_values()] else t["args"][1]
                ssl = b.slice_op(subj)
                found[dot] = (bi, t, ssl)
    for dot, nm in ((".", "dot"), ("..", "dotdot")):
        if dot not in found:
            yield VIOL("C09-R4", "canonicalize_uri_path/%s-test-missing" % nm, "no equality test of a component with %r" % dot, where=loc(b.j["span"]))
            continue
        bi, t, ssl = found[dot]
        # the compared value must be the normalised component itself (the `?` of normalize_uri_path_component), not the
        # raw vector element (which merely may have been overwritten with a normalised value earlier)
        subj_op = t["args"][0] if dot not in [v for v in b.slice_op(t["args"][0]).const_values()] else t["args"][1]
        od = b.origin_def(subj_op)
        direct = False
        hops = 0
        while od and hops < 6:
            hops += 1
            if od[0] == "place":
                base = od[1]["local"]
                bd = b.single_def(base)
                if bd and bd["kind"] == "call" and re.search(r"Try::branch$", bd["term"]["callee"]):
                    inner = b.origin_def(bd["term"]["args"][0])
                    direct = bool(inner and inner[0] == "def" and inner[1]["kind"] == "call" and re.search(r"canonical::normalize_uri_path_component$", inner[1]["term"]["callee"]))
                break
            if od[0] == "multi":
                ds = [d for d in b.defs().get(od[1], []) if d["kind"] == "assign"]
                od = b.origin_def(ds[0]["stmt"]["rv"]["op"]) if len(ds) == 1 and ds[0]["stmt"]["rv"]["k"] == "use" else None
                continue
            if od[0] == "def" and od[1]["kind"] == "call" and re.search(r"Deref::deref$|AsRef::as_ref$|String::as_str$", od[1]["term"]["callee"]):
                od = b.origin_def(od[1]["term"]["args"][0])
                continue
            break
        if not direct or not ssl.has_call(r"canonical::normalize_uri_path_component$"):
            yield VIOL("C09-R4", "canonicalize_uri_path/%s-on-raw" % nm, "%r is tested on the raw component, not the normalised one (`%%2E` spellings would not be resolved)" % dot, where=b.span_of_block(bi))
            continue
        a, ts, fs = switch_on_call(b, bi)
        # the removal(s) reachable from the true edge must be guarded by !s3
        rem = [rb_ for rb_, rt_ in b.calls(r"Vec::<T, A>::(remove|drain|swap_remove|truncate|pop|retain\w*|split_off)$") if ts is not None and b.reachable(ts, rb_) and not (fs is not None and rb_ in b._reachable_from(fs, avoid={a}) and False)]
        mine = [rb_ for rb_ in rem if any((aa == a) for aa, ss in b.guards(rb_))]
        if not mine or not all(s3_false_guard(rb_) for rb_ in mine):
            yield VIOL("C09-R4", "canonicalize_uri_path/%s-s3-guard" % nm, "resolution of %r segments is not guarded by !s3 (S3 mode must preserve every segment)" % dot, where=b.span_of_block(bi))
        else:
            yield PASS("C09-R4", "canonicalize_uri_path/%s" % nm, "component == %r tested on the normalised component; removal only when !s3" % dot, [site(b, bi, "eq")])
    # error exits
    errs = err_sites(b, "InvalidURIPath")
    kinds = {s["rv"]["variant"] for _, _, s in err_sites(b)}
    rel = above = False
    for eb, i, s in errs:
        for a, sx, c, truth in guard_conditions(b, eb):
            if c["kind"] == "call" and re.search(r"str>::starts_with$", c["callee"]) and truth is False and const_value(op_const(c["term"]["args"][1]) or {}) == ord("/") and inp in b.slice_op(c["term"]["args"][0]).locals:
                rel = True
            if c["kind"] == "binop" and c["op"] in ("Le", "Lt", "Eq") and truth is True:
                above = True
    if kinds != {"InvalidURIPath"} or not rel or not above:
        yield VIOL("C09-R4", "canonicalize_uri_path/error-exits", "error exits: kinds %s, relative-path exit %s, above-root exit %s" % (sorted(kinds), rel, above), where=loc(b.j["span"]))
    else:
        yield PASS("C09-R4", "canonicalize_uri_path/error-exits", "InvalidURIPath for !starts_with('/') and for '..' at index <= 1", [site(b, eb, "Err") for eb, i, s in errs])
    # above-root guard is `i <= 1` exactly (index of the first real component is 1)
    for eb, i, s in errs:
        for a, sx, c, truth in guard_conditions(b, eb):
            if c["kind"] == "binop" and c["op"] in ("Le", "Lt", "Eq", "Ge", "Gt") and any(const_value(op_const(x) or {}) is not None for x in (c["l"], c["r"])):
                k = const_value(op_const(c["r"]) or {}) if op_const(c["r"]) else const_value(op_const(c["l"]) or {})
                eff = (c["op"], k, truth)
                if eff not in (("Le", 1, True), ("Lt", 2, True), ("Gt", 1, False), ("Ge", 2, False)):
                    yield VIOL("C09-R4", "canonicalize_uri_path/above-root-bound", "above-root test is `i %s %s` (taken when %s); must be i <= 1" % eff, where=b.span_of_block(a))


@M.rule("C09-R5", "every path result other than the empty / \"/\" special case comes after the absolute-path test")
def r5(ctx):
    """The relative-path refusal must cover both modes: every Ok of canonicalize_uri_path is either the special case
    (input empty or equal to "/") or control-dependent on `uri_path.starts_with('/')` having been true."""
    b = ctx.fn(CUP)
    inp = param_by_name(b, "uri_path")
    oks = result_aggs(b, "Ok")
    ctx.count(len(oks))
    if not oks:
        raise AnchorMissing("Ok results of canonicalize_uri_path")
    bad = []
    verbatim = []
    def special_at(blk):
        for a, sx, c, truth in guard_conditions(b, blk):
            if c["kind"] != "call" or truth is not True:
                continue
            t = c["term"]
            if re.search(r"str>::is_empty$", c["callee"]) and inp in b.slice_op(t["args"][0]).locals:
                return True
            if re.search(r"PartialEq::eq$", c["callee"]):
                sa, sb = b.slice_op(t["args"][0]), b.slice_op(t["args"][1])
                if ("/" in sa.const_values() + sb.const_values() or "" in sa.const_values() + sb.const_values()) and inp in (sa.locals | sb.locals):
                    return True
        return False

    for ob, i, s in oks:
        absolute = special = False
        for a, sx, c, truth in guard_conditions(b, ob):
            if c["kind"] == "local" and truth is True and not c.get("neg"):
                # `matches!(uri_path, "" | "/")`: a flag set to true in the arms of the pattern test
                tdefs = [d for d in b.defs().get(c["local"], []) if d["kind"] == "assign" and d["stmt"]["rv"]["k"] == "use" and const_value(op_const(d["stmt"]["rv"]["op"]) or {}) in (1, True)]
                if tdefs and all(special_at(d["block"]) for d in tdefs):
                    special = True
            if c["kind"] != "call":
                continue
            t = c["term"]
            if re.search(r"str>::starts_with$", c["callee"]) and truth is True and const_value(op_const(t["args"][1]) or {}) == ord("/") and inp in b.slice_op(t["args"][0]).locals:
                absolute = True
            if re.search(r"str>::is_empty$", c["callee"]) and truth is True and inp in b.slice_op(t["args"][0]).locals:
                special = True
            if re.search(r"PartialEq::eq$", c["callee"]) and truth is True:
                sa, sb = b.slice_op(t["args"][0]), b.slice_op(t["args"][1])
                if ("/" in sa.const_values() + sb.const_values() or "" in sa.const_values() + sb.const_values()) and inp in (sa.locals | sb.locals):
                    special = True  # `uri_path == "/"`, or the `""` arm of `matches!(uri_path, "" | "/")`
        if not (absolute or special):
            bad.append(ob)
        elif not special:
            # ... and its value is rendered from the resolved component list (join, or "/" when only the root is left):
            # a shortcut that hands back the input / a slice of it skips dot-segment resolution for whatever it admits
            vs = b.slice_op(s["rv"]["ops"][0])
            if not (vs.has_call(r"slice::<impl \[T\]>::join$|Vec::<T, A>::join$|concat$") or vs.find_calls(r"String::push_str$|String::push$")) and "/" not in vs.const_values():
                verbatim.append(ob)
    if verbatim:
        yield VIOL("C09-R5", "canonicalize_uri_path/result-bypasses-resolution", "%d Ok result(s) are not rendered from the resolved component list (the input, or a piece of it, is returned as it is): a path the shortcut admits is not canonicalised" % len(verbatim), where=b.span_of_block(verbatim[0]))
    if bad:
        yield VIOL("C09-R5", "canonicalize_uri_path/absolute-test-skipped", "%d of %d Ok results are reached without the `starts_with('/')` test having succeeded (and are not the empty / \"/\" case): a relative path is canonicalised in that mode instead of being refused" % (len(bad), len(oks)), where=b.span_of_block(bad[0]))
    else:
        yield PASS("C09-R5", "canonicalize_uri_path/absolute-test", "all %d Ok results: special case (empty or \"/\") or after starts_with('/') == true" % len(oks), [site(b, ob, "Ok") for ob, _, _ in oks])


@M.rule("C09-R6", "the component list only loses dot segments: nothing is added to it except a normalised component of the path itself")
def r6(ctx):
    """Dot-segment resolution removes `.` / `..` (and the component before `..`) and overwrites a component with its
    normalised form; an element that does not come from the path - an empty string pushed to keep a trailing slash, a
    constant - changes the canonical path for inputs whose other spelling (`/a` vs `/a/b/..`) resolves to the same path."""
    b = ctx.fn(CUP)
    grow = b.calls(r"Vec::<T, A>::(push|insert|extend|append|resize\w*|extend_from_slice)$|Extend::extend$")
    vecs = [(bi, t) for bi, t in grow if re.search(r"Vec<std::string::String>|Vec::<std::string::String>", t.get("resolved_full", "") + " ".join(t.get("arg_tys", [])))]
    ctx.count(max(1, len(vecs)))
    bad = []
    for bi, t in vecs:
        sl = b.slice_op(t["args"][-1])
        from_path = sl.has_call(r"canonical::normalize_uri_path_component$") and b.in_cycle(bi)
        if not from_path:
            bad.append((bi, t))
    # what is written back over a component (`components[i] = component`) or pushed (stack form) is the normalised
    # component as it is: nothing replaces, trims or re-cases it afterwards (un-escaping `%2F` in S3 mode makes
    # `/bucket/a%2Fb` and `/bucket/a/b` one canonical path)
    stored = []
    for bi, i, st in b.stmts():
        if st["k"] == "assign" and st["place"]["proj"] and st["place"]["proj"][0] == "deref" and st["rv"]["k"] == "use":
            sd = b.single_def(st["place"]["local"])
            if sd and sd["kind"] == "call" and re.search(r"ops::IndexMut::index_mut$", sd["term"]["callee"]) and re.search(r"Vec<std::string::String>", sd["term"].get("resolved_full", "") + " ".join(sd["term"].get("arg_tys", []))):
                stored.append((bi, st["rv"]["op"]))
    for bi, t in vecs:
        if re.search(r"::(push|insert)$", t["callee"]):
            stored.append((bi, t["args"][-1]))
    alt = []
    for bi, o in stored:
        a_ = transforms(b, o, allow=None, stop=r"canonical::normalize_uri_path_component$")
        if a_:
            alt.append((bi, a_))
    if alt:
        yield VIOL("C09-R6", "canonicalize_uri_path/component-altered", "a component is altered after it was normalised and before it is stored (through %s)" % sorted({c.split("::")[-1] for _, a_ in alt for c in a_}), where=b.span_of_block(alt[0][0]))
    if bad:
        yield VIOL("C09-R6", "canonicalize_uri_path/component-added", "`%s` adds an element to the component list that is not a normalised component taken in the resolution loop (%d site(s)): the canonical path gains a segment the request path does not have" % (bad[0][1]["callee"].split("::")[-1], len(bad)), where=b.span_of_block(bad[0][0]))
    else:
        yield PASS("C09-R6", "canonicalize_uri_path/components-only-shrink", "%d growth site(s) on the component list, each a normalised component inside the loop" % len(vecs), [])


ENTRY = "signature::sigv4_validate_request"
FRP = "canonical::CanonicalRequest::from_request_parts"
OPT_HANDOFF = [(ENTRY, True, r"CanonicalRequest::from_request_parts$", {2: "options"})]


@M.rule("C09-R7", "the canonicaliser sees the request's own path in the caller's own mode, and its only shortcut is the empty / \"/\" path")
def r7(ctx):
    """(a) the caller's SignatureOptions reach from_request_parts as given (a mode chosen from the service name replaces
    standard-mode resolution by S3 preservation); (b) the path handed to canonicalize_uri_path is `parts.uri.path()` from
    a single source (a `match` that substitutes "" for a relative path turns the refusal into the root path);
    (c) before the absolute-path test, the input is only asked whether it is empty or equal to "/"."""
    for r in handoff_results(ctx, "C09-R7", OPT_HANDOFF, VIOL, PASS, site, "path canonicalisation (and form folding) runs in a mode the caller did not ask for"):
        yield r
    b = ctx.fn(FRP)
    cp = one(b.calls(r"canonical::canonicalize_uri_path$"), "call of canonicalize_uri_path")
    ctx.count()
    # chain walk (not a slice: `parts` is re-bound by the folding code later in the function)
    o_ = cp[1]["args"][0]
    why = None
    for _ in range(8):
        od_ = b.origin_def(o_)
        if od_ and od_[0] == "def" and od_[1]["kind"] == "call":
            cal = od_[1]["term"]["callee"]
            if re.search(r"Uri::path$", cal):
                break
            if re.search(r"Deref::deref$|AsRef::as_ref$|Borrow::borrow$", cal):
                o_ = od_[1]["term"]["args"][0]
                continue
            why = "through `%s`" % cal.split("::")[-1]
            break
        why = "the value has several sources or is not the result of Uri::path"
        break
    else:
        why = "conversion chain too long"
    if why:
        yield VIOL("C09-R7", "from_request_parts/path-single-source", "the path handed to canonicalize_uri_path is not `parts.uri.path()` alone (%s): another value stands in for some request paths" % why, where=b.span_of_block(cp[0]))
    else:
        yield PASS("C09-R7", "from_request_parts/path-single-source", "canonicalize_uri_path(parts.uri.path(), ..): one source, no substitute value", [site(b, cp[0], "canonicalize_uri_path")])
    # (c)
    c = ctx.fn(CUP)
    inp = param_by_name(c, "uri_path")
    sw = [(bi, t) for bi, t in c.calls(r"str>::starts_with$") if inp in c.slice_op(t["args"][0]).locals and const_value(op_const(t["args"][1]) or {}) == ord("/")]
    if not sw:
        raise AnchorMissing("uri_path.starts_with('/') in canonicalize_uri_path")
    pre = c._reachable_from(0, avoid={bi for bi, _ in sw})
    odd = []
    n = 0
    for bi in sorted(pre):
        t = c.blocks[bi]["term"]
        if t["k"] != "call" or bi in {x for x, _ in sw}:
            continue
        args = t.get("args", [])
        if not any(inp in c.slice_op(a, stop_at_calls=lambda t_: True).locals for a in args):
            continue
        n += 1
        cal = t["callee"]
        if re.search(r"str>::is_empty$|str>::len$", cal):
            continue
        if re.search(r"PartialEq.*::(eq|ne)$", cal):
            cv = [v for a in args for v in c.slice_op(a).const_values()]
            if cv in (["/"], [""]):
                continue
        if re.search(r"Deref::deref$|AsRef::as_ref$|Borrow::borrow$|str>::as_bytes$|fmt::|trace|log::", cal):
            continue
        odd.append((bi, cal))
    ctx.count(max(1, n))
    if odd:
        yield VIOL("C09-R7", "canonicalize_uri_path/special-case-set", "before the absolute-path test the path is also examined by `%s`: the shortcut to \"/\" (or another early exit) admits more than the empty / \"/\" path" % odd[0][1].split("::")[-1], where=c.span_of_block(odd[0][0]))
    else:
        yield PASS("C09-R7", "canonicalize_uri_path/special-case-set", "%d examination(s) of the input before starts_with('/'): is_empty / == \"/\" only" % n, [])


PRESETS = {
    "signature::SignatureOptions::S3": {"s3": True, "url_encode_form": False},
    "signature::SignatureOptions::url_encode_form": {"s3": False, "url_encode_form": True},
    "<signature::SignatureOptions as std::default::Default>::default": {"s3": False, "url_encode_form": False},
}


def preset_results(ctx, rule):
    """The three ways the crate itself offers to make a SignatureOptions: `S3` = S3 mode without folding,
    `url_encode_form()` = folding in standard mode, `default()` = neither. Each is a single struct literal whose fields
    are those constants (or `bool::default()`)."""
    for path, want in PRESETS.items():
        b = ctx.fn(path)
        ctx.count()
        ags = b.aggregates(adt=r"signature::SignatureOptions$")
        key = "preset/" + path.split("::")[-1].strip(">")
        if len(ags) != 1 or len(list(b.return_blocks())) != 1:
            yield VIOL(rule, key, "%s is not one struct literal (%d found)" % (path, len(ags)), where=loc(b.j["span"]))
            continue
        rv = ags[0][2]["rv"]
        got = {}
        for fname, o in zip(rv["fields"], rv["ops"]):
            c = op_const(o)
            od = b.origin_def(o)
            if c is None and od and od[0] == "const":
                c = od[1]  # through the parameter of an inlined `with_flags(true, false)` helper
            if c is not None:
                got[fname] = bool(const_value(c))
                continue
            if od and od[0] == "def" and od[1]["kind"] == "call" and re.search(r"^<bool as std::default::Default>::default$", od[1]["term"].get("resolved_full", "")):
                got[fname] = False
            else:
                got[fname] = None
        if got != want:
            yield VIOL(rule, key, "%s builds %s, documented and reviewed as %s: callers asking for one mode get another" % (path.split("::")[-1].strip(">"), got, want), where=loc(ags[0][2]["span"]))
        else:
            yield PASS(rule, key, "= %s" % want, [loc(ags[0][2]["span"])])


@M.rule("C09-R8", "the option presets select the mode their name says")
def r8(ctx):
    for r in preset_results(ctx, "C09-R8"):
        yield r
    # ... and they are the crate's only producers of a SignatureOptions: a parser / converter (`impl FromStr`, `From<&str>`)
    # is another way to name a mode and has to be reviewed like the presets (e.g. `"s3,url-encode-form"` resetting s3)
    others = []
    for body in ctx.facts.all_bodies():
        if body.path in PRESETS or re.search(r"as std::clone::Clone>::clone$", body.path):
            continue
        made = body.aggregates(adt=r"^signature::SignatureOptions$")
        wrote = [(bi_, s_) for bi_, i_, s_ in body.stmts() if s_["k"] == "assign" and s_["place"]["proj"] and "signature::SignatureOptions" in (body.local_ty(s_["place"]["local"]) or "")]
        if re.search(r"^<signature::SignatureOptions as std::(str::FromStr|convert::(From|TryFrom)<)", body.path) or ((made or wrote) and body.kind in ("Fn", "AssocFn")):
            others.append(body)
    ctx.count()
    if others:
        yield VIOL("C09-R8", "preset/other-producer:" + others[0].path, "`%s` also produces a SignatureOptions: a way to select the canonicalisation mode that is not one of the reviewed presets" % others[0].path, where=loc(others[0].j["span"]))
    else:
        yield PASS("C09-R8", "preset/only-producers", "S3, url_encode_form() and Default are the only producers of SignatureOptions in the crate", [])


@M.rule("C09-R9", "wrappers around the entry point hand the caller's configuration on unchanged")
def r_wrappers(ctx):
    for r in wrapper_results(ctx, "C09-R9", (6,), VIOL, PASS, 'canonicalisation runs in a mode the caller did not ask for'):
        yield r
