"""Shared rule helpers built on engine.py."""
import re

from engine import *  # noqa: F401,F403
from engine import op_local, op_place, op_const, const_value, loc, AnchorMissing, place_fields

GROW_CALLS = r"(Extend::extend|Vec::<T, A>::push|Vec::<T, A>::extend_from_slice|String::push_str|String::push|Vec::<T, A>::append|Vec::<T, A>::insert)$"


def site(body, block, what=""):
    return "%s %s %s" % (body.span_of_block(block), body.path, what)


def one(lst, what):
    if len(lst) != 1:
        raise AnchorMissing("%s: expected exactly 1, found %d" % (what, len(lst)))
    return lst[0]


def returned_local(body):
    """Local whose value is moved/copied into _0 right before return (when unique), else 0."""
    ds = [d for d in body.defs().get(0, []) if d["kind"] == "assign"]
    if len(ds) == 1 and ds[0]["stmt"]["rv"]["k"] == "use":
        l = op_local(ds[0]["stmt"]["rv"]["op"])
        if l is not None:
            return l
    # the buffer is built in another representation and converted at the end: `s.into_bytes()`, `Vec::from(s)`,
    # `String::from_utf8(v)`: the accumulator is the converted local (byte content unchanged by these conversions)
    cs = [d for d in body.defs().get(0, []) if d["kind"] == "call"]
    if len(cs) == 1 and not ds and re.search(r"String::into_bytes$|String::into_boxed_str$|convert::(From::from|Into::into)$|Vec::<T, A>::into_boxed_slice$", cs[0]["term"]["callee"]) and len(cs[0]["term"]["args"]) == 1:
        l = root_local(body, cs[0]["term"]["args"][0])
        if l is not None and re.search(r"^std::string::String$|^std::vec::Vec<u8>$", body.local_ty(l)):
            return l
    return 0


def acc_contribs(body, acc):
    """Mutating calls on accumulator local `acc`: [(block, term, argidx_of_acc, Slice of the other args)]."""
    out = []
    for d in body.defs().get(acc, []):
        if d["kind"] != "mutcall":
            continue
        t = d["term"]
        others = [a for i, a in enumerate(t["args"]) if i != d["argidx"]]
        start = [op_local(a) for a in others if op_local(a) is not None]
        sl = body.slice(start)
        for a in others:
            if "const" in a:
                sl.consts.append(a["const"])
        out.append((d["block"], t, d["argidx"], sl))
    return out


def must_contrib(body, acc, pred, ret_blocks=None):
    """Blocks of contributions to `acc` satisfying pred(slice, term) that dominate every return block."""
    rets = ret_blocks if ret_blocks is not None else body.return_blocks()
    hits_all, hits_must = [], []
    for b, t, ai, sl in acc_contribs(body, acc):
        if pred(sl, t):
            hits_all.append(b)
            if rets and all(body.dominates(b, r) for r in rets):
                hits_must.append(b)
            elif rets and body.in_cycle(b) and whole_array_loop(body, b, sl, rets):
                hits_must.append(b)
    return hits_must, hits_all


def whole_array_loop(body, cb, sl, rets):
    """Sibling of the unrolled form: the contribution at cb sits in a loop over an array literal
    `for x in [a, b, c] { acc.extend(x) }` - every element is appended when the loop runs over the whole array
    (no filtering adaptor), the append post-dominates the loop's Some edge and the loop head dominates the returns."""
    arr = [d for d in sl.aggs if d["stmt"]["rv"].get("array") or d["stmt"]["rv"].get("akind") == "Array" or str(d["stmt"]["rv"].get("adt", "")) == "[array]"]
    if not arr or not arr[0]["stmt"]["rv"].get("ops"):
        return False
    nexts = [(nb, nt) for nb, nt in sl.find_calls(r"Iterator::next$") if body.in_cycle(nb) and body.dominates(nb, cb)]
    if not nexts:
        return False
    nb, nt = max(nexts, key=lambda x: sum(1 for y in nexts if body.dominates(y[0], x[0])))
    its = body.slice_op(nt["args"][0])
    if its.has_call(r"Iterator::(filter|filter_map|skip|take|step_by|skip_while|take_while|rev|chain|zip)$|slice::<impl \[T\]>::(split\w*|chunks\w*|windows|get|first|last)$"):
        return False
    if not any(d in its.aggs for d in arr):
        return False
    st = body.term(nt["target"])
    some = [bb for v, bb in st["targets"] if v == 1] if st["k"] == "switch" else []
    return bool(some) and body.postdominates(cb, some[0]) and all(body.dominates(nb, r) for r in rets)


def callee_is(t, pat):
    return bool(re.search(pat, t.get("callee", ""))) or bool(re.search(pat, t.get("resolved", "")))


def resolved_is(t, pat):
    return bool(re.search(pat, t.get("resolved_full", t.get("resolved", ""))))


def err_sites(body, variant=None, adt=r"error::SignatureError$"):
    """Aggregates constructing SignatureError::<variant> in body: [(block, idx, stmt)]."""
    return body.aggregates(adt=adt, variant=variant)


def result_aggs(body, variant, own_return=True):
    """`Result::Ok{..}` / `Result::Err{..}` constructions; by default only those written to the function's own return
    place (a helper that was inlined writes its result to a temporary)."""
    out = body.aggregates(adt=r"^std::result::Result$", variant=variant, include_syn=own_return)
    if own_return:
        # a combinator desugared in tail position (`x.ok_or_else(f)` as the function's last expression) writes the
        # function's own Ok/Err: synthetic statements count when they target the return place
        ret = return_carriers(body)
        out = [x for x in out if x[2]["place"]["local"] in ret and not x[2]["place"]["proj"]]
    return out


def return_carriers(body):
    """Locals whose value is the function's result: _0 and temporaries moved into it by plain moves
    (`let r = ..; r` / a desugared combinator in tail position)."""
    if getattr(body, "_retc", None) is not None:
        return body._retc
    ret = {0}
    work = [0]
    while work:
        l = work.pop()
        for d in body.defs().get(l, []):
            if d["kind"] == "assign" and d["stmt"]["rv"]["k"] == "use" and not d["stmt"]["place"]["proj"]:
                p = op_place(d["stmt"]["rv"]["op"])
                if p is not None and not p["proj"] and p["local"] not in ret and "move" in d["stmt"]["rv"]["op"]:
                    # only temporaries that are not used for anything else
                    ret.add(p["local"])
                    work.append(p["local"])
    body._retc = ret
    return ret


def guard_conditions(body, block):
    """[(switch_block, succ, cond dict, truth)] for every (transitive) guard edge of `block`."""
    out = []
    for (a, s) in body.guards(block):
        c = body.cond_of_switch(a)
        if c is None:
            continue
        tr = body.truth_of_edge(a, s)
        if tr is not None and c.get("neg"):
            tr = not tr
        out.append((a, s, c, tr))
    return out


def discr_guard_variants(body, block):
    """For guards that switch on an enum discriminant: [(place, allowed values, is_otherwise, switch_block)]."""
    out = []
    for (a, s) in body.guards(block):
        c = body.cond_of_switch(a)
        if c and c["kind"] == "discr":
            vals, other = body.edge_label(a, s)
            out.append((c["place"], vals, other, a))
    return out


def const_str_of(body, operand):
    """String/bytes value if operand is (a copy of) a constant."""
    od = body.origin_def(operand)
    if od and od[0] == "const":
        return const_value(od[1]), od[1]
    return None, None


def field_of_param(body, operand, param):
    """If operand reads (directly or via copies/reborrows) a field path of parameter `param`: the field tuple."""
    od = body.origin_def(operand)
    if od and od[0] == "place":
        p = od[1]
        if p["local"] == param:
            return tuple(place_fields(p))
        # through one more hop: (*_x).f where _x copies param
        od2 = body.origin_def({"copy": {"local": p["local"], "proj": []}})
        if od2 and od2[0] == "param" and od2[1] == param:
            return tuple(place_fields(p))
    return None


def co_params(body):
    """Coroutine bodies receive the async fn's parameters as fields of _1: {name: local}."""
    out = {}
    for bi, i, s in body.stmts():
        if bi != 0 or s["k"] != "assign":
            continue
        rv = s["rv"]
        if rv["k"] == "use":
            p = op_place(rv["op"])
            if p is not None and p["local"] == 1 and len(p["proj"]) == 1 and isinstance(p["proj"][0], dict) and "field" in p["proj"][0] and not s["place"]["proj"]:
                l = s["place"]["local"]
                nm = body.names.get(l)
                if nm:
                    out[nm] = l
    return out


_PARAM_POS = None


def _param_positions():
    global _PARAM_POS
    if _PARAM_POS is None:
        import json
        import os

        p = os.path.join(os.path.dirname(os.path.abspath(__file__)), "tables", "param_positions.json")
        _PARAM_POS = json.load(open(p)) if os.path.exists(p) else {}
    return _PARAM_POS


def param_at(body, idx):
    """Local of the idx-th parameter (0-based; for async bodies: the local loaded from upvar field idx)."""
    if body.j.get("coroutine_kind"):
        for bi, i, s in body.stmts():
            if bi != 0 or s["k"] != "assign" or s["rv"]["k"] != "use":
                continue
            p = op_place(s["rv"]["op"])
            if p is not None and p["local"] == 1 and len(p["proj"]) == 1 and isinstance(p["proj"][0], dict) and p["proj"][0].get("idx") == idx and not s["place"]["proj"]:
                return s["place"]["local"]
        return None
    return idx + 1 if idx + 1 <= body.arg_count else None


def param_by_name(body, name):
    """Parameter local by the name it had on the reviewed tree; resolved POSITIONALLY (tables/param_positions.json) so that
    renaming a parameter or local does not disturb the rules; falls back to debug names for unlisted functions."""
    pos = _param_positions().get(body.path)
    if pos and name in pos:
        l = param_at(body, pos.index(name))
        if l is not None:
            return l
    if body.j.get("coroutine_kind"):
        cp = co_params(body)
        if name in cp:
            return cp[name]
    for l in range(1, body.arg_count + 1):
        if body.names.get(l) == name:
            return l
    raise AnchorMissing("parameter `%s` of %s not found" % (name, body.path))


def slice_from_param_only(body, sl, plocal):
    return plocal in sl.locals


# ------------------------------------------------------------------------------------------------
# K9 accumulator ("collect all complaints, then fail") analysis
# ------------------------------------------------------------------------------------------------
IS_EMPTY = r"Vec::<T, A>::is_empty$|slice::<impl \[T\]>::is_empty$|String::is_empty$|str>::is_empty$"  # the list itself, its slice view, or a String used as the list


def accumulator_facts(body, acc):
    """Facts about a Vec local used as complaint accumulator.
    Returns dict(created_empty, pushes=[blocks], bad_ops=[(block, callee)], tests=[(block, term)])."""
    defs = body.defs().get(acc, [])
    is_string = body.local_ty(acc) == "std::string::String"
    created = [d for d in defs if d["kind"] == "call" and re.search(r"Vec::<T>::new$|String::new$", d["term"].get("callee", ""))]
    other_defs = [d for d in defs if d["kind"] in ("assign",) or (d["kind"] == "call" and d not in created)]
    pushes, bad = [], []
    for d in defs:
        if d["kind"] == "mutcall":
            c = d["term"].get("callee", "")
            if re.search(r"Vec::<T, A>::push$", c):
                pushes.append(d["block"])
            elif is_string and re.search(r"String::push_str$", c):
                # a complaint appended to a String keeps it non-empty only if the text is non-empty: require a
                # non-empty literal piece (format! text / constant)
                sl = body.slice_op(d["term"]["args"][1])
                def literal_text(k):
                    v = const_value(k)
                    if isinstance(v, str):
                        return bool(v.strip())
                    # the packed template of format_args! is a byte string: length-prefixed literal pieces
                    return isinstance(v, bytes) and sl.has_call(r"fmt::Arguments::<'a>::new\w*$|fmt::format$") and sum(1 for x in v if 33 <= x < 127) >= 2
                if any(literal_text(k) for k in sl.consts):
                    pushes.append(d["block"])
                else:
                    bad.append((d["block"], c + " (possibly empty text)"))
            elif is_string and re.search(r"String::push$|ops::Deref::deref$|String::as_str$|String::len$|String::is_empty$|String::reserve$", c):
                continue  # separators / reads: never make a non-empty String empty
            elif re.search(r"ops::Deref::deref$|Vec::<T, A>::(len|is_empty|as_slice|iter)$", c):
                continue
            else:
                bad.append((d["block"], c))
    tests = []
    for bi, t in body.calls(IS_EMPTY):
        sl = body.slice_op(t["args"][0])
        if acc in sl.locals:
            tests.append((bi, t))
    # tests inside the appending code itself (`if !msg.is_empty() { msg.push(' ') }`) are not the final verdict
    final = [(bi, t) for bi, t in tests if not any(pb in body._reachable_from(bi) for pb in pushes)]
    return {"created_empty": len(created) == 1 and not other_defs, "pushes": pushes, "bad_ops": bad, "tests": final or tests, "all_tests": tests}


def ok_guarded_by_empty(body, acc, ok_block):
    """Is ok_block control-dependent on `acc.is_empty() == true`?"""
    for a, s, c, truth in guard_conditions(body, ok_block):
        if c["kind"] == "call" and re.search(IS_EMPTY, c["callee"]):
            sl = body.slice_op(c["term"]["args"][0])
            if acc in sl.locals and truth is True:
                return True
    return False


def edge_must_push(body, acc_facts, succ_block):
    """Every path from succ_block to any is_empty test of the accumulator passes through a push."""
    pushes = set(acc_facts["pushes"])
    for tb, _ in acc_facts["tests"]:
        if succ_block in pushes:
            continue
        if tb in body._reachable_from(succ_block, avoid=pushes) or tb == succ_block:
            return False
    return bool(acc_facts["tests"])


def cmp_calls(body, kinds=r"(PartialEq::(eq|ne)|PartialOrd::(lt|le|gt|ge))$"):
    """Comparison calls written in the source (not from macro expansions)."""
    out = []
    for bi, t in body.calls(kinds):
        sp = body.blocks[bi]["tspan"]
        if any("log" in m or "trace" in m or "debug" in m for m in sp.get("macros", [])):
            continue
        out.append((bi, t))
    return out


def switch_on_call(body, call_block):
    """(switch_block, true_succ, false_succ) for the bool result of the call in call_block, following copies/Not."""
    t = body.term(call_block)
    dest = t["dest"]["local"]
    for a in sorted(body.live_blocks()):
        st = body.term(a)
        if st["k"] != "switch" or st.get("discr_ty") != "bool":
            continue
        c = body.cond_of_switch(a)
        if c and c["kind"] == "call" and c.get("block") == call_block:
            succs = body.succ(a)
            tr = {}
            for s in succs:
                v = body.truth_of_edge(a, s)
                if v is not None:
                    if c.get("neg"):
                        v = not v
                    tr[v] = s
            return a, tr.get(True), tr.get(False)
    return None, None, None


# ------------------------------------------------------------------------------------------------
# K5 forward taint (flow-insensitive, intra-procedural; callers chain through summaries they provide)
# ------------------------------------------------------------------------------------------------
def forward_taint(body, seed_locals=(), call_source=None, field_source=None, declassify=None, int_barrier=True):
    """Set of tainted locals.
    call_source(term, tainted_arg_idxs) -> bool : the call's destination becomes tainted (besides the default
        'any tainted argument taints the result and every &mut argument's pointee').
    field_source(place, body) -> bool : reading this place is a source.
    declassify(term) -> bool : the call's result is NOT tainted even with tainted arguments."""
    tainted = set(seed_locals)
    pts = body.pointees()

    def place_tainted(p):
        if p is None:
            return False
        if p["local"] in tainted:
            return True
        if field_source and field_source(p, body):
            return True
        return False

    def op_tainted(o):
        return place_tainted(op_place(o))

    def mark(l):
        if int_barrier and body.local_ty(l) in ("usize", "isize"):
            return False
        if l not in tainted:
            tainted.add(l)
            return True
        return False

    changed = True
    it = 0
    while changed and it < 200:
        changed = False
        it += 1
        for bi in sorted(body.live_blocks()):
            blk = body.blocks[bi]
            for s in blk["stmts"]:
                if s["k"] != "assign":
                    continue
                rv = s["rv"]
                ops, places = rv_operands(rv)
                if any(op_tainted(o) for o in ops) or any(place_tainted(p) for p in places):
                    d = s["place"]
                    tg = [d["local"]]
                    if place_has_deref(d):
                        tg = list(pts[d["local"]]) or [d["local"]]
                    for l in tg:
                        if mark(l):
                            changed = True
            t = blk["term"]
            if t["k"] == "call":
                targs = [i for i, a in enumerate(t["args"]) if op_tainted(a)]
                src = bool(call_source and call_source(t, targs))
                if (targs or src) and not (declassify and declassify(t)):
                    d = t["dest"]
                    tg = [d["local"]]
                    if place_has_deref(d):
                        tg = list(pts[d["local"]]) or [d["local"]]
                    for l in tg:
                        if mark(l):
                            changed = True
                    if targs:
                        for ai, a in enumerate(t["args"]):
                            l = op_local(a)
                            if l is None or ai in targs:
                                continue
                            ty = t["arg_tys"][ai] if ai < len(t.get("arg_tys", [])) else ""
                            if ty.startswith("&mut"):
                                for pl in pts[l]:
                                    if mark(pl):
                                        changed = True
            elif t["k"] == "yield":
                pass
    return tainted


def tainted_uses(body, tainted, field_source=None):
    """Enumerate uses of tainted values: yields (kind, block, detail) with kind in
    'switch' | 'assert' | 'call' | 'aggregate' | 'index'."""
    def pt(p):
        return p is not None and (p["local"] in tainted or bool(field_source and field_source(p, body)))

    for bi in sorted(body.live_blocks()):
        blk = body.blocks[bi]
        for i, s in enumerate(blk["stmts"]):
            if s["k"] != "assign":
                continue
            rv = s["rv"]
            if rv["k"] == "aggregate":
                idx = [k for k, o in enumerate(rv["ops"]) if pt(op_place(o))]
                if idx:
                    yield ("aggregate", bi, (s, idx))
            ops, places = rv_operands(rv)
            for p in [op_place(o) for o in ops] + places:
                if p is None:
                    continue
                for il in place_index_locals(p):
                    if il in tainted:
                        yield ("index", bi, s)
        t = blk["term"]
        if t["k"] == "switch" and pt(op_place(t["discr"])):
            yield ("switch", bi, t)
        elif t["k"] == "assert" and pt(op_place(t["cond"])):
            yield ("assert", bi, t)
        elif t["k"] == "call":
            idx = [k for k, a in enumerate(t["args"]) if pt(op_place(a))]
            if idx:
                yield ("call", bi, (t, idx))


def in_macro(body, block, names):
    ms = body.blocks[block]["tspan"].get("macros", [])
    return any(any(n in m for n in names) for m in ms)


def stmt_in_macro(stmt, names):
    ms = stmt["span"].get("macros", [])
    return any(any(n in m for n in names) for m in ms)


def root_local(body, operand, depth=12, through_refs=False):
    """Follow plain moves/copies of bare locals back to the user-named (or multiply-defined) local
    (with through_refs also `&x` / `&mut x` of a bare local: the variable a reference was taken of)."""
    l = op_local(operand)
    p = op_place(operand)
    if l is None or (p and p["proj"]):
        return l
    while depth > 0:
        depth -= 1
        if body.names.get(l) and not body.locals[l].get("inlined_param"):
            return l
        ds = [d for d in body.defs().get(l, []) if d["kind"] != "mutcall"]
        if through_refs and len(ds) == 1 and ds[0]["kind"] == "assign" and ds[0]["stmt"]["rv"]["k"] == "ref" and ds[0]["stmt"]["rv"]["place"]["proj"] in ([], ["deref"]):
            l = ds[0]["stmt"]["rv"]["place"]["local"]  # `&x`, or the re-borrow `&*r`
            continue
        if not ds or any(d["kind"] != "assign" or d["stmt"]["rv"]["k"] != "use" for d in ds):
            return l
        srcs = [op_place(d["stmt"]["rv"]["op"]) for d in ds]
        if any(p2 is None or p2["proj"] for p2 in srcs):
            return l
        if len(ds) > 1:
            # the shared parameter of a helper entered from several call sites: every site passes something; follow
            # only if it is the same thing everywhere (after following each)
            roots = {root_local(body, {"copy": {"local": p2["local"], "proj": []}}, depth, through_refs) for p2 in srcs}
            if len(roots) != 1 or not body.locals[l].get("inlined_param"):
                return l
            return roots.pop()
        l = srcs[0]["local"]
    return l


ADAPTORS = r"^std::iter::Iterator::(filter|map|flat_map|filter_map|flatten|enumerate|take|skip|take_while|skip_while|map_while|step_by|rev|chain|zip|peekable|fuse|inspect|cloned|copied|scan|dedup\w*)$|^std::iter::IntoIterator::into_iter$"


def pipeline_of(body, operand):
    """Iterator pipeline that produces `operand`, walked backwards through adaptor calls:
    returns (source, stages) where source is the origin_def result of the innermost receiver and stages is
    [(adaptor name, block, term, closure Body | None)] from the source outwards."""
    stages = []
    o = operand
    for _ in range(16):
        od = body.origin_def(o)
        if not (od and od[0] == "def" and od[1]["kind"] == "call"):
            return od, list(reversed(stages))
        t = od[1]["term"]
        if not re.search(ADAPTORS, t.get("callee", "")):
            return od, list(reversed(stages))
        clo = None
        if len(t["args"]) > 1:
            cd = body.origin_def(t["args"][1])
            if cd and cd[0] == "def" and cd[1]["kind"] == "assign" and cd[1]["stmt"]["rv"].get("closure"):
                cb = body.facts.find_bodies("^" + re.escape(cd[1]["stmt"]["rv"]["closure"]) + "$", include_absorbed=True)
                clo = (cb[0], cd[1]["stmt"]) if cb else None
        stages.append((t["callee"].split("::")[-1], od[1]["block"], t, clo))
        o = t["args"][0]
    return None, list(reversed(stages))


FMT_ONLY = r"^core::fmt::rt::Argument::<'_>::new_\w+$|^std::fmt::Arguments::<'a>::new\w*$|^core::fmt::rt::\w+|^log::__private_api::\w+$|^std::fmt::format$|^alloc::fmt::format$|^std::mem::drop$"


def only_formatted(body, local):
    """The value in `local` is used for nothing but being rendered (log / format arguments): no branch, run-time check,
    index or other call ever sees it or anything derived from it."""
    tainted = forward_taint(body, seed_locals=[local], int_barrier=False)
    for kind, bi, det in tainted_uses(body, tainted):
        if kind in ("switch", "assert", "index"):
            # the level test of a log macro does not depend on the value; a switch on it is a real decision
            return False
        if kind == "call":
            t, idx = det
            if re.search(FMT_ONLY, t.get("callee", "")):
                continue
            if in_macro(body, bi, ("log!", "trace!", "debug!", "info!", "warn!", "error!", "format!", "format_args!", "write!", "writeln!")):
                continue
            return False
    return True


def element_component(body, operand, depth=6):
    """For a value read as component K of the element of an iterator pipeline whose closure was summary-spliced
    (`for (name, values) in list.iter().filter_map(|h| map.get(h).map(|v| (h, v)))`): the Slice of that component
    alone (the tuple operand K built in the closure), or None if the operand is not of that shape."""
    o = operand
    p = None
    for _ in range(depth):
        od = body.origin_def(o)
        if od and od[0] == "place":
            p = od[1]
            break
        if od and od[0] == "def" and od[1]["kind"] == "call" and re.search(r"(::as_bytes|::as_str|ops::Deref::deref|convert::AsRef::as_ref|::as_slice|borrow::Borrow::borrow)$", od[1]["term"]["callee"]):
            o = od[1]["term"]["args"][0]
            continue
        return None
    if p is None:
        return None
    nd = [e for e in p["proj"] if e != "deref"]
    if len(nd) < 3 or nd[0].get("downcast") != "Some" or "field" not in nd[1] or "field" not in nd[2]:
        return None
    k = nd[2]["idx"]
    nx = body.single_def(p["local"])
    if not (nx and nx["kind"] == "call" and re.search(r"Iterator::next$", nx["term"]["callee"])):
        return None
    adaptors = [t for _, t in body.slice_op(nx["term"]["args"][0]).calls if t.get("summary_operand") is not None]
    if len(adaptors) != 1:
        return None
    ad = adaptors[0]
    res = ad["args"][ad["summary_operand"]]
    name = ad["callee"].split("::")[-1]
    rl = op_local(res)
    if rl is None:
        return None
    for _ in range(4):  # the closure's return place, copied into the summary operand
        ds_ = [d for d in body.defs().get(rl, []) if d["kind"] != "mutcall"]
        if len(ds_) == 1 and ds_[0]["kind"] == "assign" and ds_[0]["stmt"]["rv"]["k"] == "use" and op_local(ds_[0]["stmt"]["rv"]["op"]) is not None:
            rl = op_local(ds_[0]["stmt"]["rv"]["op"])
        else:
            break
    tuples = []
    if name in ("filter_map", "find_map"):
        for d in body.defs().get(rl, []):
            if d["kind"] == "assign" and d["stmt"]["rv"]["k"] == "aggregate" and d["stmt"]["rv"].get("variant") == "Some":
                t0 = body.origin_def(d["stmt"]["rv"]["ops"][0])
                if t0 and t0[0] == "def" and t0[1]["kind"] == "assign" and t0[1]["stmt"]["rv"].get("tuple"):
                    tuples.append(t0[1]["stmt"]["rv"])
                else:
                    return None
    elif name == "map":
        t0 = body.origin_def({"copy": {"local": rl, "proj": []}})
        if t0 and t0[0] == "def" and t0[1]["kind"] == "assign" and t0[1]["stmt"]["rv"].get("tuple"):
            tuples.append(t0[1]["stmt"]["rv"])
    if len(tuples) != 1 or k >= len(tuples[0]["ops"]):
        return None
    return body.slice_op(tuples[0]["ops"][k])


def split_part(body, operand, sep):
    """0 / 1 if operand is the text before / after the first `sep` of some slice or str, cut by position:
    `&s[..i]` / `&s[i + 1..]` with `i = s.iter().position(|c| *c == sep)` or `i = s.find(sep)`. None otherwise."""
    o = operand
    od = None
    for _ in range(6):
        od = body.origin_def(o)
        if od and od[0] == "def" and od[1]["kind"] == "call" and re.search(r"ops::Deref::deref$|convert::AsRef::as_ref$|::as_bytes$|::as_str$", od[1]["term"]["callee"]):
            o = od[1]["term"]["args"][0]
            continue
        break
    if not (od and od[0] == "def" and od[1]["kind"] == "call" and re.search(r"ops::Index::index$", od[1]["term"]["callee"])):
        return None
    t = od[1]["term"]
    rg = body.origin_def(t["args"][1])
    if not (rg and rg[0] == "def" and rg[1]["kind"] == "assign" and rg[1]["stmt"]["rv"]["k"] == "aggregate"):
        return None
    rv = rg[1]["stmt"]["rv"]
    kind = str(rv.get("adt", "")).split("::")[-1]
    if kind not in ("RangeTo", "RangeFrom"):
        return None

    def pos_of(op, plus):
        """is `op` == position-result (+ plus)?"""
        if plus:
            d = body.origin_def(op)
            # (i + 1): checked add `(AddWithOverflow(i, 1)).0` or plain Add
            p_ = op_place(op)
            src = None
            if d and d[0] == "place":
                sd = body.single_def(d[1]["local"])
                if sd and sd["kind"] == "assign" and sd["stmt"]["rv"]["k"] == "binop" and sd["stmt"]["rv"]["op"].startswith("Add"):
                    src = sd["stmt"]["rv"]
            elif d and d[0] == "def" and d[1]["kind"] == "assign" and d[1]["stmt"]["rv"]["k"] == "binop" and d[1]["stmt"]["rv"]["op"].startswith("Add"):
                src = d[1]["stmt"]["rv"]
            if src is None or const_value(op_const(body.resolve_copy(src["r"])) or {}) != 1:
                return None
            op = src["l"]
        d = body.origin_def(op)
        if not (d and d[0] == "place"):
            return None
        nd = [e for e in d[1]["proj"] if e != "deref"]
        if not (len(nd) == 2 and nd[0].get("downcast") in ("Some", "Continue") and "field" in nd[1]):
            return None
        h = body.single_def(d[1]["local"])
        if h and h["kind"] == "call" and re.search(r"ops::Try::branch$", h["term"]["callee"]):
            hd = body.origin_def(h["term"]["args"][0])
            h = hd[1] if hd and hd[0] == "def" else None
        return h if h and h["kind"] == "call" else None

    h = pos_of(rv["ops"][0], kind == "RangeFrom")
    if h is None:
        return None
    c = h["term"]["callee"]
    same_subject = root_local(body, t["args"][0]) is not None
    if re.search(r"Iterator::position$", c):
        # the predicate compares the element with the separator constant
        sl = body.slice_op(h["term"]["args"][-1]) if h["term"].get("summary_operand") is not None else None
        ok = sl is not None and sep in [const_value(k) for k in sl.consts] and bool(sl.find_calls(r"PartialEq::eq$") or any(d_["stmt"]["rv"].get("op") == "Eq" for d_ in sl.assigns if d_["stmt"]["rv"]["k"] == "binop"))
        # the searched iterator is the subject's own `.iter()`: no stage in between (the subject itself may well be the
        # element of an outer pipeline that has filter stages)
        _src, _stages = pipeline_of(body, h["term"]["args"][0])
        if not ok or [x for x in _stages if x[0] != "into_iter"] or re.search(r"rposition$", c):
            return None
    elif re.search(r"str>::find$", c):
        if const_value(op_const(body.resolve_copy(h["term"]["args"][1])) or {}) != sep:
            return None
    else:
        return None
    return 0 if kind == "RangeTo" else 1


def moved_chain(body, operand, depth=8):
    """Locals a value travels through by plain moves/copies from its defining call/assign to `operand` (inclusive)."""
    chain = []
    o = operand
    for _ in range(depth):
        p = op_place(o)
        if p is None or p["proj"]:
            break
        l = p["local"]
        chain.append(l)
        ds = [d for d in body.defs().get(l, []) if d["kind"] != "mutcall"]
        if len(ds) != 1 or ds[0]["kind"] != "assign" or ds[0]["stmt"]["rv"]["k"] != "use":
            break
        o = ds[0]["stmt"]["rv"]["op"]
    return chain


def mutated_in_place(body, locals_):
    """Is any of `locals_` (owned values) mutably borrowed or the receiver of a mutating call anywhere in the body?
    `let mut v = f(); g(&mut v); use(v)`: v is no longer f()'s result as it is."""
    ls = set(locals_)
    for bi, i, st in body.stmts():
        if st["k"] == "assign" and st["rv"]["k"] == "ref" and st["rv"].get("mut") and st["rv"]["place"]["local"] in ls:
            return (bi, st)
        if st["k"] == "assign" and st["place"]["local"] in ls and st["place"]["proj"]:
            return (bi, st)
    for l in ls:
        for d in body.defs().get(l, []):
            if d["kind"] == "mutcall":
                return (d["block"], None)
    return None


def co_param_index(body, name):
    """Upvar index of the async fn's parameter `name` in its coroutine body (the parameter is field idx of _1)."""
    l = co_params(body).get(name)
    if l is None:
        return None
    for bi, i, s in body.stmts():
        if bi == 0 and s["k"] == "assign" and not s["place"]["proj"] and s["place"]["local"] == l and s["rv"]["k"] == "use":
            p = op_place(s["rv"]["op"])
            if p is not None and p["local"] == 1 and len(p["proj"]) == 1 and isinstance(p["proj"][0], dict) and "field" in p["proj"][0]:
                return p["proj"][0]["idx"]
    return None


def handed_on_unchanged(body, operand, name):
    """Is `operand` the coroutine's own parameter `name`, handed on as it is (no call, no arithmetic, no other source)?"""
    idx = co_param_index(body, name)
    od = body.origin_def(operand)
    if idx is None or not (od and od[0] == "place" and od[1]["local"] == 1):
        return False
    nd = [e for e in od[1]["proj"] if e != "deref"]
    if not (len(nd) == 1 and isinstance(nd[0], dict) and nd[0].get("idx") == idx):
        return False
    sl = body.slice_op(operand)
    return not sl.callee_names() and not [d for d in sl.assigns if d["stmt"]["rv"]["k"] in ("binop", "unop", "aggregate")]


def param_handed_on(body, operand, name):
    """Plain-fn sibling of handed_on_unchanged: `operand` is the function's own parameter `name` (or a re-borrow of it),
    with no call, arithmetic or alternative source on the way."""
    l = param_by_name(body, name)
    if l is None:
        return False
    sl = body.slice_op(operand)
    if l not in sl.locals or sl.callee_names() or sl.const_values():
        return False
    if [d for d in sl.assigns if d["stmt"]["rv"]["k"] in ("binop", "unop", "aggregate")]:
        return False
    # a single source: every local on the way has one definition
    for x in sl.locals:
        if x != l and len(body.defs().get(x, [])) > 1:
            return False
    return True


def handoff_results(ctx, rule, table, VIOL, PASS, site, why):
    """Shared shape of the hand-off rules: (caller, callee regex, {arg position: caller parameter}); coroutine callers
    (async fn) are looked up with ctx.co, plain ones with ctx.fn."""
    for caller, is_co, callee, amap in table:
        b = ctx.co(caller) if is_co else ctx.fn(caller)
        c = one(b.calls(callee), "%s call in %s" % (callee.strip("$").split("::")[-1], caller))
        for pos, nm in sorted(amap.items()):
            ctx.count()
            key = "%s->%s/%s" % (caller.split("::")[-1], callee.strip("$").split("::")[-1], nm)
            ok = pos < len(c[1]["args"]) and (handed_on_unchanged(b, c[1]["args"][pos], nm) if is_co else param_handed_on(b, c[1]["args"][pos], nm))
            if not ok:
                yield VIOL(rule, "handoff/" + key, "argument %d of %s is not the caller's own `%s` handed on unchanged: %s" % (pos, callee.strip("$").split("::")[-1], nm, why), where=b.span_of_block(c[0]))
            else:
                yield PASS(rule, "handoff/" + key, "`%s` handed on unchanged" % nm, [site(b, c[0], callee.strip("$").split("::")[-1])])


ACC_VIEW = r"Option::<T>::(as_deref|as_ref|map|copied|cloned)$|::as_str$|::as_slice$|::as_bytes$|Deref::deref$|AsRef::as_ref$|Borrow::borrow$|Clone::clone$|PathBuf::as_path$"


def accessor_problems(a, field):
    """Why the accessor body `a` does not hand back `self.<field>` as stored (empty list: it does): like-named field only,
    no condition on its value (a match on the field's own Option discriminant is a view), view calls only, no constant."""
    probs = []
    for bi in sorted(a.live_blocks()):
        if a.term(bi)["k"] != "switch":
            continue
        c = a.cond_of_switch(bi)
        if not c or c["kind"] != "discr":
            probs.append("its answer depends on a condition (%s)" % ((c or {}).get("callee", (c or {}).get("kind", "?")).split("::")[-1]))
    s = a.slice([0])
    frs = {fs for _, fs in s.fieldreads}
    if not frs or {fs[0] for fs in frs if fs} != {field}:
        probs.append("it reads field(s) %s" % sorted(frs))
    oth = [c for c in s.callee_names() if not re.search(ACC_VIEW, c)]
    if oth:
        probs.append("the value passes through %s" % [c.split("::")[-1] for c in oth][:3])
    if s.const_values():
        probs.append("a constant %r can be returned" % (s.const_values()[:2],))
    if [d for d in s.assigns if d["stmt"]["rv"]["k"] in ("binop", "unop")]:
        probs.append("arithmetic on the stored value")
    return probs


def result_handed_on(body, operand, producer, allow_part=False, _pending=None, _seen=None, _depth=0):
    """Is `operand` the result of the call matching `producer` (directly, its `?` / Ok payload, or - allow_part - one
    component of the tuple it returns), travelling by plain moves / wrap-unwrap pairs only and never mutated on the way?
    Returns (True, None) or (False, reason). `pending`: projections still to be applied to the value being followed
    (front first); an aggregate met on the way back consumes the matching projection."""
    o = operand
    pending = list(_pending or [])
    seen = _seen if _seen is not None else []
    if _depth > 6:
        return False, "chain too deep"
    for _ in range(24):
        if op_const(o) is not None:
            return False, "it is a constant"
        p = op_place(o)
        if p is None:
            return False, "its source cannot be followed"
        pj = []
        proj = [e for e in p["proj"] if e != "deref"]
        k = 0
        while k < len(proj):
            e = proj[k]
            if isinstance(e, dict) and "downcast" in e and k + 1 < len(proj) and isinstance(proj[k + 1], dict) and proj[k + 1].get("idx") == 0:
                pj.append(("variant", e["downcast"]))
                k += 2
            elif isinstance(e, dict) and "field" in e:
                pj.append(("field", e["idx"]))
                k += 1
            else:
                return False, "it is an indexed / sliced part of another value"
        pending = pj + pending
        l = p["local"]
        seen.append(l)
        ds = [d for d in body.defs().get(l, []) if d["kind"] != "mutcall"]
        if not ds:
            return False, "it is a parameter, not a result of `%s`" % producer.strip("$").split("::")[-1]
        if len(ds) > 1:
            for d in ds:
                if d["kind"] == "call":
                    ok, why = _handed_call(body, d, producer, pending, allow_part, seen, _depth)
                elif d["kind"] == "assign":
                    ok, why = _handed_assign(body, d, producer, pending, allow_part, seen, _depth)
                else:
                    ok, why = False, "one of its sources cannot be followed"
                if not ok:
                    return ok, why
            m = mutated_in_place(body, seen)
            return (False, "it is modified in place") if m else (True, None)
        d = ds[0]
        if d["kind"] == "call":
            t = d["term"]
            cal = t["callee"]
            if re.search(r"ops::Try::branch$", cal) and pending and pending[0] == ("variant", "Continue"):
                pending = [("variant", "Ok")] + pending[1:]
                o = t["args"][0]
                continue
            if re.search(r"convert::Into::into$|convert::From::from$", cal) and not pending:
                o = t["args"][0]
                continue
            ok, why = _handed_call(body, d, producer, pending, allow_part, seen, _depth)
            if ok:
                m = mutated_in_place(body, seen)
                if m:
                    return False, "it is modified in place after `%s` returned it" % cal.split("::")[-1]
            return ok, why
        if d["kind"] != "assign":
            return False, "its source cannot be followed"
        rv = d["stmt"]["rv"]
        if rv["k"] == "use" or (rv["k"] == "cast" and "Unsize" in rv.get("kind", "")):
            o = rv["op"]
            continue
        if rv["k"] == "ref" and not rv.get("mut"):
            o = {"copy": rv["place"]}
            continue
        if rv["k"] == "aggregate" and pending:
            kind, what = pending[0]
            if kind == "variant" and rv.get("variant") is not None and len(rv["ops"]) == 1:
                if rv["variant"] != what and not (what == "Continue" and rv["variant"] == "Ok"):
                    return True, None  # another variant: this source never reaches the payload followed
                pending = pending[1:]
                o = rv["ops"][0]
                continue
            if kind == "field" and (rv.get("tuple") or rv.get("closure")) and what < len(rv["ops"]):
                pending = pending[1:]  # a tuple taken apart again, or a value captured by a closure that was spliced in
                o = rv["ops"][what]
                continue
        return False, "it is computed (%s), not moved on" % rv["k"]
    return False, "chain too long"


def _handed_call(body, d, producer, pending, allow_part, seen, depth):
    cal = d["term"]["callee"]
    if re.search(producer, cal):
        rest = [x for x in pending if x not in (("variant", "Ok"), ("variant", "Continue"), ("variant", "Ready"))]
        if not rest or (allow_part and len(rest) == 1 and rest[0][0] == "field"):
            return True, None
        return False, "it is a part %s of what `%s` returned" % (rest, cal.split("::")[-1])
    if re.search(r"ops::Try::branch$", cal) and pending and pending[0] == ("variant", "Continue"):
        return result_handed_on(body, d["term"]["args"][0], producer, allow_part, [("variant", "Ok")] + pending[1:], seen, depth + 1)
    if re.search(r"ops::FromResidual::from_residual$", cal) and pending and pending[0] in (("variant", "Ok"), ("variant", "Continue"), ("variant", "Some")):
        return True, None  # the early-exit value of a `?`: an Err / None, never the payload followed
    return False, "it is the result of `%s`" % cal.split("::")[-1]


def _handed_assign(body, d, producer, pending, allow_part, seen, depth):
    rv = d["stmt"]["rv"]
    if rv["k"] == "use":
        return result_handed_on(body, rv["op"], producer, allow_part, pending, seen, depth + 1)
    if rv["k"] == "aggregate" and pending and pending[0][0] == "variant" and rv.get("variant") is not None and len(rv["ops"]) == 1:
        what = pending[0][1]
        if rv["variant"] != what and not (what == "Continue" and rv["variant"] == "Ok"):
            return True, None
        return result_handed_on(body, rv["ops"][0], producer, allow_part, pending[1:], seen, depth + 1)
    if rv["k"] == "aggregate" and pending and pending[0][0] == "field" and (rv.get("tuple") or rv.get("closure")) and pending[0][1] < len(rv["ops"]):
        return result_handed_on(body, rv["ops"][pending[0][1]], producer, allow_part, pending[1:], seen, depth + 1)
    return False, "one of its sources is computed (%s)" % rv["k"]


def _is_u8_widening(body, o):
    """operand = `<u8 value> as char` / `char::from(<u8>)`; returns the u8 operand or None"""
    od = body.origin_def(o)
    if not (od and od[0] == "def"):
        return None
    d = od[1]
    if d["kind"] == "assign" and d["stmt"]["rv"]["k"] == "cast" and "IntToInt" in d["stmt"]["rv"]["kind"] and d["stmt"]["rv"].get("ty") == "char":
        src = d["stmt"]["rv"]["op"]
        pl = op_place(src)
        if pl is not None and not [e for e in pl["proj"] if e != "deref"] and body.local_ty(pl["local"]).lstrip("&") == "u8":
            return src
        return None
    if d["kind"] == "call" and re.search(r"<char as std::convert::From<u8>>::from$|impl std::convert::From<u8> for char>::from$", d["term"].get("resolved_full", "")):
        return d["term"]["args"][0]
    return None


def latin1_problems(body):
    """Why `latin1_to_string` is not `bytes.iter().map(|&b| b as char).collect()` (empty list: it is). Two accepted
    forms: a push loop over the whole slice, or that map/collect pipeline. Anything else that can reach the return value
    - a fast path returning the bytes decoded as UTF-8, a lossy conversion, a filter - gives another string for some
    byte sequence (well-formed UTF-8 above 0x7F)."""
    probs = []
    inp = 1
    bad = body.calls(r"from_utf8\w*$|char::from_u32\w*$|decode_utf16$|encoding::|String::(push_str|insert\w*|extend\w*|from)$|to_owned$|ToString::to_string$|str>::(to_string|to_owned|into)$")
    if bad:
        probs.append("it calls `%s`: part of the result is not a byte-by-byte widening" % bad[0][1]["callee"].split("::")[-1])
    d0 = [d for d in body.defs().get(0, [])]
    if len(d0) != 1:
        probs.append("the return value has %d sources" % len(d0))
        return probs
    acc = returned_local(body)
    if acc:
        ds = body.defs().get(acc, [])
        inits = [d for d in ds if d["kind"] == "call"]
        muts = [d for d in ds if d["kind"] == "mutcall"]
        if len(inits) != 1 or not re.search(r"String::(new|with_capacity)$", inits[0]["term"]["callee"]) or [d for d in ds if d["kind"] == "assign"]:
            probs.append("the result is not a String started empty")
        pushes = [d for d in muts if re.search(r"String::push$", d["term"]["callee"])]
        other = [d for d in muts if d not in pushes and not re.search(r"String::(reserve\w*|shrink_to\w*)$", d["term"]["callee"])]
        if other:
            probs.append("the result is also written through `%s`" % other[0]["term"]["callee"].split("::")[-1])
        if len(pushes) != 1:
            probs.append("%d push sites (expected one)" % len(pushes))
            return probs
        pd = pushes[0]
        src = _is_u8_widening(body, pd["term"]["args"][1])
        if src is None:
            probs.append("the character pushed is not `byte as char`")
            return probs
        sl = body.slice_op(src)
        nx = [(nb, nt) for nb, nt in sl.find_calls(r"Iterator::next$")]
        if len(nx) != 1 or inp not in sl.locals:
            probs.append("the byte pushed is not the element of one iteration over the input")
            return probs
        stages = [c for c in sl.callee_names() if not re.search(r"Iterator::next$|IntoIterator::into_iter$|slice::<impl \[T\]>::iter$|Iterator::copied$|Iterator::cloned$|Deref::deref$|AsRef::as_ref$", c)]
        if stages:
            probs.append("the bytes pass through %s before they are widened" % [c.split("::")[-1] for c in stages][:3])
        st = body.term(nx[0][1]["target"])
        some = [bb for v, bb in st["targets"] if v == 1] if st["k"] == "switch" else []
        if not some or not body.postdominates(pd["block"], some[0]):
            probs.append("not every byte is pushed (the push does not post-dominate the iteration's Some edge)")
        # no way from the loop to the return that skips bytes: the only exit of the loop is the None edge
        none = [bb for v, bb in st["targets"] if v == 0] if st["k"] == "switch" else []
        for rb in body.return_blocks():
            if none and not body.dominates(none[0], rb):
                probs.append("a return is reachable without the iteration having ended")
        for bi in sorted(body.live_blocks()):
            if body.term(bi)["k"] == "switch" and bi != nx[0][1]["target"]:
                probs.append("an extra condition (block %d) decides what is produced" % bi)
                break
        return probs
    # pipeline form
    cs = [d for d in d0 if d["kind"] == "call" and re.search(r"Iterator::collect$|FromIterator::from_iter$", d["term"]["callee"])]
    if not cs:
        probs.append("the result is neither a pushed String nor a collected iterator")
        return probs
    src, stages = pipeline_of(body, cs[0]["term"]["args"][0])
    names = [x[0] for x in stages if x[0] not in ("into_iter", "iter", "copied", "cloned")]
    if names != ["map"]:
        probs.append("pipeline stages %s (expected exactly map)" % names)
        return probs
    t = [x for x in stages if x[0] == "map"][0][2]
    fnitem = (op_const(t["args"][1]) or {}).get("repr", "") if len(t["args"]) > 1 else ""
    if fnitem == "<char as std::convert::From<u8>>::from":
        pass  # `.map(char::from)`
    elif "summary_operand" not in t or _is_u8_widening(body, t["args"][t["summary_operand"]]) is None:
        probs.append("the mapping closure is not `|b| b as char`")
    if inp not in body.slice_op(cs[0]["term"]["args"][0]).locals:
        probs.append("the pipeline does not run over the input")
    return probs


def success_edge_of(body, producer):
    """Block entered when the (possibly awaited) result of the call matching `producer` is Ok: the Continue edge of the
    `?` applied to it, or the Ok arm of a `match` / `if let` on it. None if the result is consumed in another way."""
    pcs = body.calls(producer)
    if len(pcs) != 1:
        return None
    pb = pcs[0][0]
    for bi, t in body.calls(r"Try::branch$"):
        if body.dominates(pb, bi) and body.slice_op(t["args"][0], stop_at_calls=lambda t_: bool(re.search(producer, t_.get("callee", "")))).has_call(producer):
            st = body.term(t["target"])
            if st["k"] == "switch":
                cont = [bb for v, bb in st["targets"] if v == 0]
                if cont:
                    return cont[0]
    for a in sorted(body.live_blocks()):
        st = body.term(a)
        if st["k"] != "switch" or not body.dominates(pb, a):
            continue
        c = body.cond_of_switch(a)
        if not c or c["kind"] != "discr":
            continue
        l = c["place"]["local"]
        if c["place"]["proj"] or not re.match(r"^std::result::Result<", body.local_ty(l) or ""):
            continue
        if not body.slice([l], stop_at_calls=lambda t_: bool(re.search(producer, t_.get("callee", "")))).has_call(producer):
            continue
        ok = [bb for v, bb in st["targets"] if v == 0]
        if ok:
            return ok[0]
    return None


def propagated_error_kinds(body):
    """`Err(e.into())` / `Err(From::from(e))` / `Err(e)` where e is the Err payload of another Result: the hand-written
    form of `?`. Returns ([(block, source error type)], [other Err constructions])."""
    prop, other = [], []
    for eb, i, s in result_aggs(body, "Err"):
        o = s["rv"]["ops"][0]
        ty = None
        for _ in range(4):
            od = body.origin_def(o, through_refs=False)
            if od and od[0] == "def" and od[1]["kind"] == "call" and re.search(r"convert::(Into::into|From::from)$", od[1]["term"]["callee"]):
                o = od[1]["term"]["args"][0]
                continue
            if od and od[0] == "place":
                fs = [e for e in od[1]["proj"] if isinstance(e, dict)]
                if len(fs) == 2 and fs[0].get("downcast") == "Err" and fs[1].get("idx") == 0:
                    ty = fs[1].get("ty")
            break
        (prop if ty else other).append((eb, ty) if ty else (eb, i, s))
    return prop, other


ENTRY_ARGS = {1: "region", 2: "service", 3: "get_signing_key", 4: "server_timestamp", 5: "required_headers", 6: "options"}


def wrapper_results(ctx, rule, positions, VIOL, PASS, why):
    """Second ways in: every function of the crate (other than the entry point itself) that calls sigv4_validate_request is
    a wrapper offering another route to the same verdict. For the argument positions given, what it passes must be one of
    its own parameters as it is (or an exact From / Into conversion of one): a clock converted through milliseconds, a
    region picked from a list, options rebuilt from flags make the guarantee depend on the route taken."""
    n = 0
    for body in ctx.facts.all_bodies():
        if body.kind not in ("Fn", "AssocFn", "Closure") or re.match(r"^signature::sigv4_validate_request(::\{closure#\d+\})*$", body.path):
            continue
        for bi, t in body.calls(r"^signature::sigv4_validate_request$"):
            for pos in positions:
                n += 1
                nm = ENTRY_ARGS[pos]
                key = "wrapper/%s/%s" % (body.path, nm)
                if pos >= len(t["args"]):
                    yield VIOL(rule, key, "call of sigv4_validate_request with %d arguments" % len(t["args"]), where=body.span_of_block(bi))
                    continue
                o = t["args"][pos]
                ok = False
                for _ in range(4):
                    od = body.origin_def(o)
                    if od and od[0] == "def" and od[1]["kind"] == "call" and re.search(r"convert::(From::from|Into::into)$|Clone::clone$|Deref(Mut)?::deref(_mut)?$|Borrow(Mut)?::borrow(_mut)?$", od[1]["term"]["callee"]):
                        o = od[1]["term"]["args"][0]
                        continue
                    if od and od[0] == "param":
                        ok = True
                    elif od and od[0] == "place" and od[1]["local"] == 1 and body.j.get("coroutine_kind"):
                        nd = [e for e in od[1]["proj"] if e != "deref"]
                        ok = len(nd) == 1 and isinstance(nd[0], dict) and "field" in nd[0]
                    break
                if ok:
                    sl = body.slice_op(t["args"][pos])
                    ok = not [c_ for c_ in sl.callee_names() if not re.search(r"convert::(From::from|Into::into)$|Clone::clone$|Deref(Mut)?::deref(_mut)?$|Borrow(Mut)?::borrow(_mut)?$", c_)] and not [d for d in sl.assigns if d["stmt"]["rv"]["k"] in ("binop", "unop")]
                if not ok:
                    yield VIOL(rule, key, "`%s` calls sigv4_validate_request with a `%s` that is not one of its own parameters as it is: %s" % (body.path.split("::{")[0], nm, why), where=body.span_of_block(bi))
                else:
                    yield PASS(rule, key, "`%s` handed on unchanged" % nm, [])
    ctx.count(max(1, n))
    if not n:
        yield PASS(rule, "wrapper/none", "no other function of the crate calls the entry point", [])


# calls that change a text / byte string's content (as opposed to re-typing, borrowing, copying, concatenating it)
TRANSFORM = (r"(str>|\[u8\]>|\[T\]>|String|Vec::<T, A>|canonical)::(trim\w*|strip_\w+|to_(ascii_)?(lower|upper)case|make_ascii_(lower|upper)case|replace\w*|truncate|pop|remove|drain|retain\w*|dedup\w*|sort\w*|reverse|"
             r"r?split\w*|chars|char_indices|bytes|escape_\w+|encode_upper|to_uppercase|to_lowercase|repeat|swap\w*|rotate_\w+|fill\w*|insert|insert_str|splice)$"
             r"|Iterator::(rev|skip|take|skip_while|take_while|step_by|filter|filter_map|map|flat_map|nth|last|scan|dedup\w*|cycle|chain|zip|fold|try_fold)$"
             r"|String::from_utf8_lossy$|from_utf8_lossy$|canonical::(unescape_uri_encoding|normalize_\w+|latin1_to_string)$|percent\w*|hex::(decode|encode_upper)$")


def transforms(body, operand, allow=None, stop=None):
    """Callees in the backward slice of `operand` that alter the content of a string / byte value (TRANSFORM), minus the
    ones matching `allow`. `stop`: regex of calls at which the walk ends (the reviewed source of the value)."""
    sl = body.slice_op(operand, stop_at_calls=(lambda t_: bool(re.search(stop, t_.get("callee", "")))) if stop else None)
    out = []
    for c_ in sl.callee_names():
        if stop and re.search(stop, c_):
            continue
        if re.search(TRANSFORM, c_) and not (allow and re.search(allow, c_)):
            out.append(c_)
    return sorted(set(out))
