"""C03 Credential scope binds the signature to this server's region, service and date."""
from lib import *
from registry import Module

M = Module(
    "C03",
    "Credential scope",
    "Structure of SigV4Authenticator::prevalidate and get_signing_key over MIR: the arity test is `!= 5` on the '/'-split credential and "
    "dominates the scope comparisons; there are exactly four full-equality comparisons pairing part[2]/region, part[3]/service, "
    "part[4]/'aws4_request', part[1]/request-timestamp-UTC-date; every unequal edge must push a complaint and Ok(()) is reachable only "
    "with an empty complaint list (monotone accumulator), the non-empty exit is SignatureDoesNotMatch, the arity exit IncompleteSignature; "
    "the provider request's five setters receive access key / token / request UTC date / region / service positionally.",
    ["chrono's UTC date arithmetic and %Y%m%d formatting are correct", "str equality of std is full equality"],
)

PV = "auth::SigV4Authenticator::prevalidate"
GSK = "auth::SigV4Authenticator::get_signing_key"
VS = "auth::SigV4Authenticator::validate_signature"


def credential_parts_local(b):
    """Local holding credential.split('/').collect::<Vec<&str>>()."""
    for bi, t in b.calls(r"Iterator::collect$"):
        sl = b.slice_op(t["args"][0])
        sp = sl.find_calls(r"str>::split$")
        if sp and sl.has_call(r"SigV4Authenticator::credential$"):
            sep = const_value(op_const(sp[0][1]["args"][1]) or {})
            return t["dest"]["local"], bi, sep
    # sibling idiom: `let (Some(_), Some(date), .., None) = (it.next(), it.next(), ..) else { .. }` on one split('/')
    for bi, i, st in b.aggregates():
        rv = st["rv"]
        if not rv.get("tuple") or len(rv["ops"]) < 2:
            continue
        nexts = []
        for o in rv["ops"]:
            od = b.origin_def(o)
            if od and od[0] == "def" and od[1]["kind"] == "call" and re.search(r"Iterator::next$", od[1]["term"]["callee"]) and "str::Split<" in od[1]["term"].get("resolved_full", ""):
                nexts.append(od[1])
        if len(nexts) != len(rv["ops"]):
            continue
        sl = b.slice_op(nexts[0]["term"]["args"][0])
        sp = sl.find_calls(r"str>::split$")
        if sp and sl.has_call(r"SigV4Authenticator::credential$"):
            its = {frozenset(b.pointees().get(op_local(n["term"]["args"][0]), set())) for n in nexts}
            in_order = all(b.dominates(nexts[k]["block"], nexts[k + 1]["block"]) and nexts[k]["block"] != nexts[k + 1]["block"] for k in range(len(nexts) - 1))
            if len(its) == 1 and in_order:
                b._cred_tuple = {"local": st["place"]["local"], "n": len(nexts), "block": bi}
                return st["place"]["local"], bi, const_value(op_const(sp[0][1]["args"][1]) or {})
    raise AnchorMissing("credential.split('/').collect() not found in prevalidate")


def tuple_pattern_at(b, blk):
    """In the next()-tuple idiom: {field index: 'Some' | 'None'} that holds on every way into blk."""
    ct = getattr(b, "_cred_tuple", None)
    out = {}
    if not ct:
        return out
    for pl, vals, other, a in discr_guard_variants(b, blk):
        if pl["local"] == ct["local"]:
            fs = place_fields(pl)
            if fs and fs[0].isdigit() and not other and vals in ([0], [1]):
                out[int(fs[0])] = "Some" if vals == [1] else "None"
    return out


def part_index(b, sl, parts_local):
    """Constant index K if the slice reads parts[K]: an Index::index(parts, K) call, or a slice-pattern element
    `(*slice)[K of n]` of parts.as_slice()."""
    idx = []
    ct = getattr(b, "_cred_tuple", None)
    if ct and ct["local"] == parts_local:
        for l_, fs in sl.fieldreads:
            if l_ == parts_local and fs and fs[0].isdigit():
                idx.append(int(fs[0]))
        return sorted(set(idx))
    for bi, t in sl.find_calls(r"ops::Index::index$"):
        if parts_local in b.slice_op(t["args"][0]).locals:
            k_ = const_value(op_const(t["args"][1]) or {})
            if isinstance(k_, int):
                idx.append(k_)  # `parts[..]` (a range: the whole vector again) is not an element index
    for d in sl.assigns:
        rv = d["stmt"]["rv"]
        if rv["k"] == "use":
            p = op_place(rv["op"])
            if p is not None:
                ci = [e for e in p["proj"] if isinstance(e, dict) and "constindex" in e]
                if ci and not ci[0].get("from_end") and parts_local in b.slice([p["local"]]).locals:
                    idx.append(ci[0]["constindex"])
    return sorted(set(idx))


@M.rule("C03-R1", "arity: IncompleteSignature iff split('/') length != 5, decided before any scope comparison")
def r1(ctx):
    b = ctx.fn(PV)
    parts, cb, sep = credential_parts_local(b)
    ctx.count()
    if sep != ord("/"):
        yield VIOL("C03-R1", "prevalidate/separator", "credential is split on %r, not '/'" % sep, where=b.span_of_block(cb))
    errs = err_sites(b, "IncompleteSignature")
    if len(errs) != 1:
        yield VIOL("C03-R1", "prevalidate/arity-exit-count", "expected one IncompleteSignature exit in prevalidate, found %d" % len(errs), where=loc(b.j["span"]))
        return
    eb = errs[0][0]
    ct = getattr(b, "_cred_tuple", None)
    if ct and ct["local"] == parts:
        # arity is decided by the pattern: exactly five Some followed by one None select the continuation
        comps = scope_comparisons(b, parts)
        want = {k: "Some" for k in range(5)}
        want[5] = "None"
        bad = [cb_ for cb_, _, _ in comps if tuple_pattern_at(b, cb_) != want]
        direct = {a_ for a_, s_ in b.control_deps().get(eb, ())}
        sw = {a for pl, vals, other, a in discr_guard_variants(b, comps[0][0]) if pl["local"] == parts} if comps else set()
        if ct["n"] != 6 or not comps or bad:
            yield VIOL("C03-R1", "prevalidate/arity-guard", "the scope checks run under the pattern %s of %d next() results (must be exactly five Some and a sixth None: != 5 parts refused)" % (tuple_pattern_at(b, comps[0][0]) if comps else {}, ct["n"]), where=b.span_of_block(ct["block"]))
        elif not (direct & sw):
            yield VIOL("C03-R1", "prevalidate/arity-guard", "the IncompleteSignature exit is not the failure edge of the five-parts pattern", where=b.span_of_block(eb))
        else:
            yield PASS("C03-R1", "prevalidate/arity-guard", "IncompleteSignature unless (next() x6) matches (Some, Some, Some, Some, Some, None)", [site(b, ct["block"], "pattern")])
            yield PASS("C03-R1", "prevalidate/arity-before-scope", "all %d scope comparisons run under the five-parts pattern" % len(comps), [site(b, cb_, "cmp") for cb_, _, _ in comps])
        return
    ok = None
    for a, s, c, truth in guard_conditions(b, eb):
        if c["kind"] == "binop" and c["op"] in ("Ne", "Eq"):
            l, r = c["l"], c["r"]
            ls = b.slice_op(l, int_barrier=False)
            rc = const_value(op_const(b.resolve_copy(r)) or {})
            if rc is None:
                ls, rc = b.slice_op(r, int_barrier=False), const_value(op_const(b.resolve_copy(l)) or {})
            lens = ls.find_calls(r"Vec::<T, A>::len$|slice::<impl \[T\]>::len$")
            is_len = bool(lens and parts in b.slice_op(lens[0][1]["args"][0]).locals)
            if not is_len:
                # slice pattern: PtrMetadata(parts.as_slice())
                for d_ in ls.assigns:
                    rv_ = d_["stmt"]["rv"]
                    if rv_["k"] == "unop" and rv_["op"] == "PtrMetadata" and parts in b.slice_op(rv_["x"]).locals:
                        is_len = True
            if is_len:
                unequal_edge = (c["op"] == "Ne") == bool(truth)
                ok = (a, s, rc, unequal_edge, c["op"])
    if ok is None:
        yield VIOL("C03-R1", "prevalidate/arity-guard", "the IncompleteSignature exit is not guarded by an (in)equality test of the number of '/'-separated parts", where=b.span_of_block(eb))
        return
    a, s, k, unequal, op = ok
    if k != 5 or not unequal:
        yield VIOL("C03-R1", "prevalidate/arity-guard", "arity test is `len %s %s` taken on the %s edge (must be: != 5)" % (op, k, "unequal" if unequal else "equal"), where=b.span_of_block(a))
    else:
        yield PASS("C03-R1", "prevalidate/arity-guard", "IncompleteSignature exit guarded by parts.len() != 5", [site(b, a, "len != 5")])
    # the message constant
    esl = b.slice_op(errs[0][2]["rv"]["ops"][0])
    if not esl.has_const_def(r"MSG_CREDENTIAL_MUST_HAVE_FIVE_PARTS$"):
        ctx.note("arity error message no longer uses MSG_CREDENTIAL_MUST_HAVE_FIVE_PARTS (not a violation)")
    # dominates the comparisons: every scope comparison block is dominated by the equal-edge successor
    eq_succ = [x for x in b.succ(a) if x != s]
    comps = scope_comparisons(b, parts)
    bad = [cb_ for cb_, _, _ in comps if not (eq_succ and b.dominates(eq_succ[0], cb_))]
    if bad or not comps:
        yield VIOL("C03-R1", "prevalidate/arity-before-scope", "scope comparisons are not all dominated by the len == 5 edge", where=b.span_of_block(a))
    else:
        yield PASS("C03-R1", "prevalidate/arity-before-scope", "all %d scope comparisons dominated by the len == 5 edge" % len(comps), [site(b, cb_, "cmp") for cb_, _, _ in comps])


def scope_comparisons(b, parts):
    """[(block, term, idx_list)] equality comparisons one of whose operands reads parts[K]."""
    out = []
    for bi, t in cmp_calls(b, r"PartialEq::(eq|ne)$"):
        s0, s1 = b.slice_op(t["args"][0]), b.slice_op(t["args"][1])
        i0, i1 = part_index(b, s0, parts), part_index(b, s1, parts)
        if i0 or i1:
            out.append((bi, t, (i0, i1, s0, s1)))
    return out


@M.rule("C03-R2", "exactly four full-equality scope comparisons with the right operand pairs")
def r2(ctx):
    b = ctx.fn(PV)
    parts, _, _ = credential_parts_local(b)
    region, service, server_ts = param_by_name(b, "region"), param_by_name(b, "service"), param_by_name(b, "server_timestamp")
    comps = scope_comparisons(b, parts)
    seen = {}
    for bi, t, (i0, i1, s0, s1) in comps:
        ctx.count()
        if i0 and i1:
            yield VIOL("C03-R2", "prevalidate/cmp-both-parts", "comparison of two credential parts with each other", where=b.span_of_block(bi))
            continue
        idx, other = (i0, s1) if i0 else (i1, s0)
        if len(idx) != 1:
            yield VIOL("C03-R2", "prevalidate/cmp-ambiguous-part", "comparison operand mixes credential parts %s" % idx, where=b.span_of_block(bi))
            continue
        k = idx[0]
        if not resolved_is(t, r"PartialEq(<[^>]*>)? for &?(str|std::string::String)>::(eq|ne)|<(&?str|std::string::String) as std::cmp::PartialEq"):
            yield VIOL("C03-R2", "prevalidate/cmp-kind/part%s" % k, "comparison is not str/String equality: %s" % t.get("resolved_full"), where=b.span_of_block(bi))
            continue
        if k == 2:
            good = region in other.locals and service not in other.locals
            want = "parameter region"
        elif k == 3:
            good = service in other.locals and region not in other.locals
            want = "parameter service"
        elif k == 4:
            good = other.has_const_value("aws4_request") and not other.params
            want = "constant 'aws4_request'"
        elif k == 1:
            good = other.has_call(r"SigV4Authenticator::request_timestamp$") and other.has_const_value("%Y%m%d") and other.has_call(r"DateTime::<Tz>::format$") and server_ts not in other.locals
            want = "self.request_timestamp().format(\"%Y%m%d\") (not the server time)"
        else:
            good, want = False, "a scope element (index 1-4)"
        # the credential part is compared as it is: no trimming / case folding between credential() and the comparison
        part_sl = s0 if i0 else s1
        PASSIVE = r"(SigV4Authenticator::credential|str>::split|Iterator::collect|ops::Index::index|ops::Deref::deref|AsRef::as_ref|String::as_str|Vec::<T, A>::as_slice)$"
        if getattr(b, "_cred_tuple", None):
            PASSIVE = PASSIVE[:-2] + r"|Iterator::next)$"  # the parts are the results of successive next() calls
        active = [c for c in part_sl.callee_names() if not re.search(PASSIVE, c)]
        if active:
            good = False
            want = want + "; the credential part passes through %s first" % active
        if k in (2, 3) and [c for c in other.callee_names()]:
            good = False
            want = want + " untransformed (it passes through %s)" % other.callee_names()
        if k in seen:
            yield VIOL("C03-R2", "prevalidate/cmp-duplicate/part%s" % k, "credential part %s is compared twice" % k, where=b.span_of_block(bi))
        seen[k] = (bi, t)
        if good:
            yield PASS("C03-R2", "prevalidate/cmp/part%s" % k, "credential part [%s] compared for equality with %s" % (k, want), [site(b, bi, "cmp")])
        else:
            yield VIOL("C03-R2", "prevalidate/cmp/part%s" % k, "credential part [%s] is not compared with %s" % (k, want), where=b.span_of_block(bi))
    for k, nm in ((1, "date"), (2, "region"), (3, "service"), (4, "terminator")):
        if k not in seen:
            yield VIOL("C03-R2", "prevalidate/cmp-missing/part%s" % k, "no full-equality comparison of the credential's %s (part %d)" % (nm, k), where=loc(b.j["span"]))
    # no weaker string predicate on credential parts (prefix / case-insensitive / contains)
    for bi, t in b.calls(r"str>::(starts_with|ends_with|contains|eq_ignore_ascii_case|find|strip_prefix|strip_suffix|trim\w*)$"):
        sls = [b.slice_op(a) for a in t["args"]]
        if any(part_index(b, s, parts) for s in sls):
            yield VIOL("C03-R2", "prevalidate/weak-predicate:" + t["callee"].split("::")[-1], "credential scope part handled with `%s`" % t["callee"], where=b.span_of_block(bi))


@M.rule("C03-R3", "any scope mismatch is fatal (complaint accumulator), as SignatureDoesNotMatch")
def r3(ctx):
    b = ctx.fn(PV)
    parts, _, _ = credential_parts_local(b)
    # the accumulator: a Vec<String> local that is pushed to under the comparisons
    cands = [l for l, d in b.locals.items() if d["ty"].startswith("std::vec::Vec<std::string::String>") or (d["ty"] == "std::string::String" and b.names.get(l) and not b.locals[l].get("inlined_from"))]
    acc = None
    for l in cands:
        f = accumulator_facts(b, l)
        if f["pushes"]:
            acc, facts = l, f
    if acc is None:
        raise AnchorMissing("complaint accumulator (Vec<String> with push) in prevalidate")
    ctx.count(len(facts["pushes"]))
    if not facts["created_empty"]:
        yield VIOL("C03-R3", "prevalidate/acc-not-empty-at-start", "complaint list is not created by Vec::new() exactly once", where=loc(b.j["span"]))
    for bb, c in facts["bad_ops"]:
        yield VIOL("C03-R3", "prevalidate/acc-shrinks:" + c.split("::")[-1], "complaint list is modified by `%s` (only push keeps it monotone)" % c, where=b.span_of_block(bb))
    oks = result_aggs(b, "Ok")
    if len(oks) != 1:
        yield VIOL("C03-R3", "prevalidate/ok-count", "expected exactly one Ok(()) in prevalidate, found %d" % len(oks), where=loc(b.j["span"]))
        return
    if not ok_guarded_by_empty(b, acc, oks[0][0]):
        yield VIOL("C03-R3", "prevalidate/ok-not-guarded", "Ok(()) is not guarded by complaint_list.is_empty()", where=b.span_of_block(oks[0][0]))
    else:
        yield PASS("C03-R3", "prevalidate/ok-guarded", "Ok(()) only on the is_empty() == true edge of the complaint list", [site(b, oks[0][0], "Ok")])
    # each unequal edge must push
    for bi, t, _ in scope_comparisons(b, parts):
        a, ts, fs = switch_on_call(b, bi)
        if a is None:
            yield VIOL("C03-R3", "prevalidate/cmp-unused", "result of a scope comparison does not decide a branch", where=b.span_of_block(bi))
            continue
        is_ne = t["callee"].endswith("::ne")
        unequal_succ = ts if is_ne else fs
        if unequal_succ is None or not edge_must_push(b, facts, unequal_succ):
            yield VIOL("C03-R3", "prevalidate/mismatch-not-recorded", "a scope mismatch can reach the final test without recording a complaint", where=b.span_of_block(bi))
        else:
            yield PASS("C03-R3", "prevalidate/mismatch-recorded", "unequal edge always pushes a complaint before the is_empty test", [site(b, bi, "cmp")])
    # the non-empty exit is SignatureDoesNotMatch
    errs = err_sites(b, "SignatureDoesNotMatch")
    hit = False
    for eb, i, s in errs:
        for a, sx, c, truth in guard_conditions(b, eb):
            if c["kind"] == "call" and re.search(r"is_empty$", c["callee"]) and truth is False and acc in b.slice_op(c["term"]["args"][0]).locals:
                hit = True
    # no other error kind on that edge
    if not hit:
        yield VIOL("C03-R3", "prevalidate/mismatch-kind", "the non-empty complaint exit does not construct SignatureDoesNotMatch", where=loc(b.j["span"]))
    else:
        yield PASS("C03-R3", "prevalidate/mismatch-kind", "non-empty complaint list => Err(SignatureDoesNotMatch)", [])
    kinds = {s["rv"]["variant"] for _, _, s in err_sites(b)}
    if kinds != {"SignatureDoesNotMatch", "IncompleteSignature"}:
        yield VIOL("C03-R3", "prevalidate/error-kinds", "prevalidate constructs error kinds %s" % sorted(kinds), where=loc(b.j["span"]))
    else:
        yield PASS("C03-R3", "prevalidate/error-kinds", "prevalidate constructs only IncompleteSignature (arity) and SignatureDoesNotMatch", [])


@M.rule("C03-R4", "provider request is built from access key, token, request UTC date, region, service (positional)")
def r4(ctx):
    b = ctx.co(GSK)
    self_l, region, service = param_by_name(b, "self"), param_by_name(b, "region"), param_by_name(b, "service")
    want = {
        # the text before the first '/': first element of split('/'), or the first half of split_once('/') (the whole
        # credential when there is no '/')
        "access_key": lambda sl: sl.has_call(r"SigV4Authenticator::credential$") and region not in sl.locals and (
            (sl.has_call(r"str>::split$") and sl.has_call(r"Iterator::next$") and not sl.has_call(r"Iterator::(last|nth|skip|rev)$|next_back$"))
            or (sl.has_call(r"str>::split_once$") and not sl.has_call(r"str>::rsplit\w*$") and not any(fs and fs[-1] == "1" for _, fs in sl.fieldreads))),
        "session_token": lambda sl: sl.has_call(r"SigV4Authenticator::session_token$") and not sl.has_call(r"SigV4Authenticator::credential$"),
        "request_date": lambda sl: sl.has_call(r"SigV4Authenticator::request_timestamp$") and sl.has_call(r"DateTime::<Tz>::date_naive$"),
        "region": lambda sl: region in sl.locals and service not in sl.locals and self_l not in sl.locals,
        "service": lambda sl: service in sl.locals and region not in sl.locals and self_l not in sl.locals,
    }
    build = one(b.calls(r"GetSigningKeyRequestBuilder::build$"), "GetSigningKeyRequestBuilder::build in get_signing_key")
    for f, pred in want.items():
        cs = b.calls(r"GetSigningKeyRequestBuilder::%s$" % f)
        ctx.count()
        if len(cs) != 1:
            yield VIOL("C03-R4", "get_signing_key/setter-count/" + f, "setter `%s` called %d times (expected once)" % (f, len(cs)), where=loc(b.j["span"]))
            continue
        cb, ct = cs[0]
        sl = b.slice_op(ct["args"][1], stop_at_calls=lambda t: bool(re.search(r"GetSigningKeyRequestBuilder::", t.get("callee", ""))))
        if not pred(sl) or not b.dominates(cb, build[0]):
            yield VIOL("C03-R4", "get_signing_key/setter/" + f, "setter `%s` does not receive the required value (calls %s, params %s)" % (f, [c for c in sl.callee_names() if "auth::" in c or "chrono" in c][:5], sorted(sl.locals & {region, service, self_l})), where=b.span_of_block(cb))
        else:
            yield PASS("C03-R4", "get_signing_key/setter/" + f, "setter `%s` fed as specified and dominates build()" % f, [site(b, cb, f)])
            # ... and unaltered: the key is requested for the access key / token / region / service as they are
            # (no trimming, re-casing, replacing; the access key is the text before the first '/')
            alt = transforms(b, ct["args"][1], allow=(r"str>::split$|str>::split_once$|Iterator::map$" if f in ("access_key", "session_token") else None), stop=r"GetSigningKeyRequestBuilder::")
            if alt:
                yield VIOL("C03-R4", "get_signing_key/setter/%s/as-is" % f, "the %s handed to the key provider is altered on the way (through %s)" % (f.replace("_", " "), [c.split("::")[-1] for c in alt]), where=b.span_of_block(cb))
    # split separator '/'
    sp = b.calls(r"str>::split$|str>::split_once$")
    if sp and const_value(op_const(sp[0][1]["args"][1]) or {}) != ord("/"):
        yield VIOL("C03-R4", "get_signing_key/separator", "access key split on a separator other than '/'", where=b.span_of_block(sp[0][0]))
    # the request handed to the provider is that built request
    prov = one(b.calls(r"tower::ServiceExt::oneshot$|tower(_service)?::Service::call$"), "provider invocation in get_signing_key")
    rs = b.slice_op(prov[1]["args"][1])
    if not rs.has_call(r"GetSigningKeyRequestBuilder::build$"):
        yield VIOL("C03-R4", "get_signing_key/request-source", "the request given to the provider is not the built GetSigningKeyRequest", where=b.span_of_block(prov[0]))
    else:
        yield PASS("C03-R4", "get_signing_key/request-source", "provider receives builder.build() result", [site(b, prov[0], "oneshot")])
    # builder setters set the like-named field (derive_builder output)
    for f in want:
        sb = ctx.fn("signing_key::GetSigningKeyRequestBuilder::" + f)
        writes = set()
        for bi, i, s in sb.stmts():
            if s["k"] == "assign":
                fs = place_fields(s["place"])
                if fs:
                    writes.add(fs[0])
        salt = []
        for bi_, i_, s_ in sb.stmts():
            if s_["k"] == "assign" and place_fields(s_["place"]) and place_fields(s_["place"])[0] == f and s_["rv"]["k"] in ("use", "aggregate"):
                for o_ in ([s_["rv"]["op"]] if s_["rv"]["k"] == "use" else s_["rv"]["ops"]):
                    salt += transforms(sb, o_, allow=None)
        if salt:
            yield VIOL("C03-R4", "builder-setter/%s/as-is" % f, "GetSigningKeyRequestBuilder::%s alters the value it stores (through %s): the provider is asked for something other than what the request named" % (f, sorted({c_.split("::")[-1] for c_ in salt})), where=loc(sb.j["span"]))
        if writes != {f}:
            yield VIOL("C03-R4", "builder-setter/" + f, "GetSigningKeyRequestBuilder::%s writes field(s) %s" % (f, sorted(writes)), where=loc(sb.j["span"]))
        else:
            yield PASS("C03-R4", "builder-setter/" + f, "writes self.%s" % f, [loc(sb.j["span"])])
    # in validate_signature the same region/service go to prevalidate and get_signing_key
    v = ctx.co(VS)
    pv = one(v.calls(r"SigV4Authenticator::prevalidate$"), "prevalidate call")
    gk = one(v.calls(r"SigV4Authenticator::get_signing_key$"), "get_signing_key call")
    rg, sv = param_by_name(v, "region"), param_by_name(v, "service")
    okk = True
    for call, off in ((pv, 1), (gk, 1)):
        a_r = v.slice_op(call[1]["args"][off])
        a_s = v.slice_op(call[1]["args"][off + 1])
        if not (rg in a_r.locals and sv not in a_r.locals and sv in a_s.locals and rg not in a_s.locals):
            okk = False
            yield VIOL("C03-R4", "validate_signature/region-service-args:" + call[1]["callee"].split("::")[-1], "region/service not passed positionally", where=v.span_of_block(call[0]))
    if okk:
        yield PASS("C03-R4", "validate_signature/region-service-args", "prevalidate and get_signing_key both receive (region, service) in that order", [site(v, pv[0], "prevalidate"), site(v, gk[0], "get_signing_key")])


@M.rule("C03-R6", "prevalidate's success edge dominates the provider lookup and the comparison")
def r6(ctx):
    v = ctx.co(VS)
    pv = one(v.calls(r"SigV4Authenticator::prevalidate$"), "prevalidate call")
    gk = one(v.calls(r"SigV4Authenticator::get_signing_key$"), "get_signing_key call")
    cont = v.try_continue_block(pv[0])
    ctx.count(2)
    if cont is None or not v.dominates(cont, gk[0]):
        yield VIOL("C03-R6", "validate_signature/prevalidate-first", "get_signing_key is not dominated by the success edge of prevalidate(..)?", where=v.span_of_block(gk[0]))
    else:
        yield PASS("C03-R6", "validate_signature/prevalidate-first", "get_signing_key dominated by Continue edge of prevalidate(..)?", [site(v, pv[0], "prevalidate"), site(v, gk[0], "get_signing_key")])
    # prevalidate's arguments: server_timestamp and allowed_mismatch positional
    for i, nm in ((3, "server_timestamp"), (4, "allowed_mismatch")):
        pl = param_by_name(v, nm)
        if pl not in v.slice_op(pv[1]["args"][i]).locals:
            yield VIOL("C03-R6", "validate_signature/prevalidate-arg-" + nm, "prevalidate argument %d is not parameter %s" % (i, nm), where=v.span_of_block(pv[0]))
        else:
            yield PASS("C03-R6", "validate_signature/prevalidate-arg-" + nm, "prevalidate arg %d <= %s" % (i, nm), [site(v, pv[0], nm)])


import c16  # noqa: E402


@M.rule("C03-R5", "the scope date is compared with the UTC date of the parsed instant (timestamp chain shared with C16-R3)")
def r5(ctx):
    for r in list(c16.r3(ctx)) + [x for x in c16.r2(ctx) if "offset" in x.key or "constructors" in x.key or x.status != "PASS"]:
        r.rule = "C03-R5"
        yield r


ENTRY = "signature::sigv4_validate_request"
HANDOFFS = [
    # (caller coroutine, callee, {argument position: caller's parameter})
    (ENTRY, r"SigV4Authenticator::validate_signature$", {1: "region", 2: "service"}),
    (VS, r"SigV4Authenticator::prevalidate$", {1: "region", 2: "service"}),
    (VS, r"SigV4Authenticator::get_signing_key$", {1: "region", 2: "service"}),
]


@M.rule("C03-R7", "the server's region and service reach the scope check and the key request exactly as the caller configured them")
def r7(ctx):
    """The scope comparison (R2) is against prevalidate's parameters; this rule pins those to the public entry point's own
    `region` / `service`: handed on as they are at each of the three call sites (no trimming, re-casing, defaulting)."""
    for caller, callee, amap in HANDOFFS:
        b = ctx.co(caller)
        c = one(b.calls(callee), "%s call in %s" % (callee.strip("$").split("::")[-1], caller))
        for pos, nm in sorted(amap.items()):
            ctx.count()
            key = "%s->%s/%s" % (caller.split("::")[-1], callee.strip("$").split("::")[-1], nm)
            if pos >= len(c[1]["args"]) or not handed_on_unchanged(b, c[1]["args"][pos], nm):
                yield VIOL("C03-R7", "handoff/" + key, "argument %d of %s is not the caller's own `%s` handed on unchanged: the credential scope is compared with (or the key is requested for) something other than the configured %s" % (pos, callee.strip("$").split("::")[-1], nm, nm), where=b.span_of_block(c[0]))
            else:
                yield PASS("C03-R7", "handoff/" + key, "`%s` handed on unchanged" % nm, [site(b, c[0], callee.strip("$").split("::")[-1])])


@M.rule("C03-R8", "the credential is cut from a header value trimmed of ASCII whitespace only (shared with C02-R8)")
def r8(ctx):
    import c02

    for r in c02.r8(ctx):
        r.rule = "C03-R8"
        yield r


ACCESSORS = ("credential", "session_token", "request_timestamp", "signature", "canonical_request_sha256")


@M.rule("C03-R9", "the authenticator's accessors hand back their field as stored, unconditionally")
def r9(ctx):
    """get_signing_key and prevalidate read the credential, the session token and the request timestamp through these
    accessors; an accessor that answers from a condition on the value (`if token.is_empty() { None }`) changes what the
    key provider is asked for (a present-but-empty token becomes `no token`) without touching either caller."""
    for ty, names in (("auth::SigV4Authenticator", ACCESSORS), ("signing_key::GetSigningKeyRequest", ("access_key", "session_token", "request_date", "region", "service"))):
        for nm in names:
            a = ctx.fn("%s::%s" % (ty, nm))
            ctx.count()
            probs = accessor_problems(a, nm)
            key = "accessor/%s/as-stored" % nm if ty.startswith("auth::") else "accessor/GetSigningKeyRequest::%s/as-stored" % nm
            if probs:
                yield VIOL("C03-R9", key, "%s::%s does not hand back self.%s as stored: %s" % (ty.split("::")[-1], nm, nm, "; ".join(probs)), where=loc(a.j["span"]))
            else:
                yield PASS("C03-R9", key, "returns a view of self.%s, no condition" % nm, [loc(a.j["span"])])


@M.rule("C03-R10", "header-carrier text is the header's bytes widened one by one (shared with C02-R9)")
def r_latin1(ctx):
    import c02

    for r in c02.r9(ctx):
        r.rule = "C03-R10"
        yield r


@M.rule("C03-R11", "wrappers around the entry point hand the caller's configuration on unchanged")
def r_wrappers(ctx):
    for r in wrapper_results(ctx, "C03-R11", (1, 2), VIOL, PASS, 'the scope is checked against / the key is requested for something the caller did not configure'):
        yield r
