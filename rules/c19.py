"""C19 Repeated authentication inputs are resolved by fixed, documented rules."""
from lib import *
from registry import Module

M = Module(
    "C19",
    "Repeated authentication inputs",
    "Constant-index and lookup-order rules over the three extraction functions: every value list obtained by a keyed lookup in the header / "
    "query-parameter maps is consumed only through `[0]` (first occurrence; lists are built in arrival order by push, see C10/C11), never "
    "iterated, searched, reversed or indexed otherwise; the Authorization header's parameter map is filled by an unconditional HashMap::insert "
    "in a forward split(',') iteration (last occurrence wins); the `date` lookup happens only on the None edge of the `x-amz-date` lookup; "
    "and the (Authorization, X-Amz-Algorithm) presence matrix is evaluated exhaustively: both => refusal, neither => MissingAuthenticationToken.",
    ["value lists are in arrival order (C10-R4, C11-R3)", "HashMap::insert overwrites (std)"],
)

CRQ = "canonical::CanonicalRequest::"
FNS = [CRQ + "get_auth_parameters", CRQ + "get_auth_parameters_from_auth_header", CRQ + "get_auth_parameters_from_query_parameters"]
LIST_TYPES = ("std::vec::Vec<std::vec::Vec<u8>>", "std::vec::Vec<std::string::String>", "[std::vec::Vec<u8>]", "[std::string::String]")
EXPECTED_KEYS = {"authorization", "X-Amz-Algorithm", "x-amz-date", "date", "x-amz-security-token", "X-Amz-Credential", "X-Amz-Signature", "X-Amz-SignedHeaders", "X-Amz-Security-Token", "X-Amz-Date"}


def is_map_lookup(t):
    return bool(re.search(r"HashMap::<K, V, S, A>::get$", t.get("callee", ""))) and ("std::vec::Vec<std::vec::Vec<u8>>" in t.get("resolved_full", "") or "std::vec::Vec<std::string::String>" in t.get("resolved_full", ""))


def list_receiver(ty):
    t = ty.replace("&mut ", "").replace("&", "").strip()
    return t in LIST_TYPES


@M.rule("C19-R1", "first occurrence: looked-up value lists are consumed only through index 0")
def r1(ctx):
    n_idx = 0
    keys_seen = set()
    for fn in FNS:
        b = ctx.fn(fn)
        stop = lambda t: bool(re.search(r"ops::Index::index$", t.get("callee", "")))
        for bi, t in b.calls():
            if not t["args"]:
                continue
            ty = t["arg_tys"][0] if t.get("arg_tys") else ""
            if not list_receiver(ty):
                continue
            rs = b.slice_op(t["args"][0], stop_at_calls=stop)
            lookups = [(lb, lt) for lb, lt in rs.calls if is_map_lookup(lt)]
            if not lookups:
                continue
            ctx.count()
            keys = set()
            for lb, lt in lookups:
                kv, _ = const_str_of(b, lt["args"][1])
                keys.add(kv)
            c = t["callee"]
            if re.search(r"ops::Index::index$", c):
                iv = const_value(op_const(b.resolve_copy(t["args"][1])) or {})
                if iv != 0:
                    yield VIOL("C19-R1", "%s/index-not-first/%s" % (fn, "+".join(sorted(str(k) for k in keys))), "value list of %s is indexed with %r, not the first occurrence [0]" % (sorted(keys, key=str), iv), where=b.span_of_block(bi))
                else:
                    n_idx += 1
                    keys_seen |= keys
            elif re.search(r"ops::Deref::deref$|AsRef::as_ref$|Borrow::borrow$", c):
                continue
            else:
                yield VIOL("C19-R1", "%s/list-op:%s/%s" % (fn, c.split("::")[-1], "+".join(sorted(str(k) for k in keys))), "value list of %s is consumed by `%s` instead of `[0]` (selection among repeated inputs is no longer 'the first')" % (sorted(keys, key=str), c), where=b.span_of_block(bi))
        # Option-level selection on the lookup result other than presence tests
        for bi, t in b.calls(r"Option::<T>::(and_then|map|filter|or|or_else|xor|zip|unwrap_or\w*|into_iter|iter)$|slice::<impl \[T\]>::(last|first|iter|get)$"):
            rs = b.slice_op(t["args"][0], stop_at_calls=stop)
            if any(is_map_lookup(lt) for lb, lt in rs.calls) and "std::vec::Vec<" in t.get("resolved_full", ""):
                yield VIOL("C19-R1", "%s/option-op:%s" % (fn, t["callee"].split("::")[-1]), "lookup result combined through `%s` (selection rule no longer the documented one)" % t["callee"], where=b.span_of_block(bi))
    if n_idx < 8:
        yield MISSING("C19-R1", "first-occurrence/floor", "only %d `[0]` selections found (10 on the reviewed tree; >= 8 required)" % n_idx)
    else:
        missing = EXPECTED_KEYS - keys_seen
        if missing:
            yield VIOL("C19-R1", "first-occurrence/keys-missing", "no first-occurrence selection found for %s" % sorted(missing), where=None)
        else:
            yield PASS("C19-R1", "first-occurrence", "%d `[0]` selections covering %s; no other list operation on a looked-up value list" % (n_idx, sorted(keys_seen, key=str)), [])
    ctx.extra["c19_index0_sites"] = n_idx


@M.rule("C19-R2", "inside the Authorization header the last occurrence of a parameter wins (unconditional insert, forward iteration)")
def r2(ctx):
    b = ctx.fn(FNS[1])
    ins = b.calls(r"HashMap::<K, V, S, A>::insert$")
    ctx.count()
    if not ins:
        # sibling idiom: split(',') [.map(trim)] [.filter(non-empty)] .map(|p| -> (key, value) | Result<(key, value), E>)
        # .collect::<[Result<]HashMap<_, _>[, E>]>(): FromIterator for HashMap inserts the items in order, a later key overwrites
        cols = []
        for bi, t in b.calls(r"Iterator::collect$"):
            if "std::collections::HashMap<" not in t.get("resolved_full", ""):
                continue
            src, stages = pipeline_of(b, t["args"][0])
            if src and src[0] == "def" and src[1]["kind"] == "call" and re.search(r"slice::<impl \[T\]>::split$|str>::split$", src[1]["term"]["callee"]):
                cols.append((bi, t, [x for x in stages if x[0] != "into_iter"]))
        cl = one(cols, "parameter_map.insert in get_auth_parameters_from_auth_header (or split(',')...collect::<HashMap>())")
        names = [x[0] for x in cl[2]]
        probs = []
        if [n for n in names if n not in ("map", "filter")]:
            probs.append("pipeline stages %s: only map / filter keep every occurrence in arrival order" % names)
        if b.calls(r"Iterator::rev$|slice::<impl \[T\]>::rsplit\w*$|str>::rsplit\w*$|DoubleEndedIterator::\w+$"):
            probs.append("parameters are iterated in reverse")
        maps = [x for x in cl[2] if x[0] == "map" and "summary_operand" in x[2]]
        kv = None
        if maps:
            t_ = maps[-1][2]
            o_ = t_["args"][t_["summary_operand"]]
            l_ = op_local(o_)
            cands = []
            work, seen_ = [l_], set()
            while work:
                x = work.pop()
                if x in seen_ or x is None:
                    continue
                seen_.add(x)
                for d in b.defs().get(x, []):
                    if d["kind"] != "assign":
                        continue
                    rv = d["stmt"]["rv"]
                    if rv["k"] == "use" and op_local(rv["op"]) is not None:
                        work.append(op_local(rv["op"]))
                    elif rv["k"] == "aggregate" and rv.get("tuple") and len(rv["ops"]) == 2:
                        cands.append(rv["ops"])
                    elif rv["k"] == "aggregate" and rv.get("variant") == "Ok" and rv["ops"]:
                        work.append(op_local(rv["ops"][0]))
            if len(cands) == 1:
                kv = cands[0]
        if kv is None:
            probs.append("the (key, value) pair built by the last map stage was not found")
        if probs:
            yield MISSING("C19-R2", "from_auth_header/last-wins", "; ".join(probs), where=b.span_of_block(cl[0]))
            return
        yield PASS("C19-R2", "from_auth_header/last-wins", "split(',') pipeline (%s) collected into a HashMap: items inserted in arrival order, later keys overwrite" % names, [site(b, cl[0], "collect")])
        k_op, v_op, site_blk = kv[0], kv[1], cl[0]
    else:
        i = one(ins, "parameter_map.insert in get_auth_parameters_from_auth_header")
        k_op, v_op, site_blk = i[1]["args"][1], i[1]["args"][2], i[0]
        probs = []
        if not b.in_cycle(i[0]):
            probs.append("insert is not inside the parameter loop")
        for a, s, c, truth in guard_conditions(b, i[0]):
            if c["kind"] == "call" and re.search(r"HashMap::<K, V, S, A>::(contains_key|get|get_mut)$|Option::<T>::is_(some|none)$", c["callee"]):
                probs.append("insert is conditional on a lookup (`%s`): first-wins" % c["callee"].split("::")[-1])
        if b.calls(r"HashMap::<K, V, S, A>::entry$|Entry::<'a, K, V(, A)?>::or_insert\w*$|HashMap::<K, V, S, A>::try_insert$"):
            probs.append("entry()/or_insert used on the parameter map")
        if b.calls(r"Iterator::rev$|slice::<impl \[T\]>::rsplit\w*$|str>::rsplit\w*$|DoubleEndedIterator::\w+$"):
            probs.append("parameters are iterated in reverse")
        sp = [t for bi, t in b.calls(r"slice::<impl \[T\]>::split$")]
        if not sp:
            probs.append("forward split over the parameter list not found")
        if probs:
            yield VIOL("C19-R2", "from_auth_header/last-wins", "; ".join(probs), where=b.span_of_block(i[0]))
        else:
            yield PASS("C19-R2", "from_auth_header/last-wins", "unconditional HashMap::insert in a forward split(',') loop", [site(b, i[0], "insert")])
    # key/value of the insert are parts[0], parts[1] of the split at '='
    def idx_of(o):
        od = b.origin_def(o)
        hops = 0
        while od and od[0] == "def" and od[1]["kind"] == "call" and re.search(r"ops::Deref::deref$", od[1]["term"]["callee"]) and hops < 4:
            od = b.origin_def(od[1]["term"]["args"][0])
            hops += 1
        if od and od[0] == "def" and od[1]["kind"] == "call" and re.search(r"ops::Index::index$", od[1]["term"]["callee"]):
            return [const_value(op_const(od[1]["term"]["args"][1]) or {})]
        # slice pattern `let [key, value] = parts[..] else ..`: element K of exactly N
        if od and od[0] == "place":
            ci = [e for e in od[1]["proj"] if isinstance(e, dict) and "constindex" in e]
            if len(ci) == 1 and not ci[0].get("from_end"):
                return [ci[0]["constindex"]]
        return []

    ki, vi = idx_of(k_op), idx_of(v_op)
    if ki != [0] or vi != [1]:
        # cut by position: key = &p[..i], value = &p[i + 1..] with i = position of the first '='
        if split_part(b, k_op, ord("=")) == 0 and split_part(b, v_op, ord("=")) == 1:
            ki, vi = [0], [1]
    if ki != [0] or vi != [1]:
        # iterator form: key = it.next(), value = it.next() on one splitn(2, b'=') iterator, key taken first
        def next_of(o):
            # `let (Some(k), Some(v)) = (it.next(), it.next()) else ..` / `let Some(k) = it.next() else ..`: the payload of
            # one particular next() call (a slice would see both: next(&mut it) also defines `it`)
            od = b.origin_def(o)
            if od and od[0] == "place":
                nd = [e for e in od[1]["proj"] if e != "deref"]
                src = None
                if len(nd) == 3 and "field" in nd[0] and nd[1].get("downcast") == "Some" and "field" in nd[2]:
                    sd = [d for d in b.defs().get(od[1]["local"], []) if d["kind"] != "mutcall"]
                    if len(sd) == 1 and sd[0]["kind"] == "assign" and sd[0]["stmt"]["rv"].get("tuple") and nd[0]["idx"] < len(sd[0]["stmt"]["rv"]["ops"]):
                        src = b.origin_def(sd[0]["stmt"]["rv"]["ops"][nd[0]["idx"]])
                elif len(nd) == 2 and nd[0].get("downcast") == "Some" and "field" in nd[1]:
                    src = b.origin_def({"copy": {"local": od[1]["local"], "proj": []}})
                if src and src[0] == "def" and src[1]["kind"] == "call" and re.search(r"Iterator::next$", src[1]["term"]["callee"]) and "SplitN" in src[1]["term"].get("resolved_full", ""):
                    return [(src[1]["block"], src[1]["term"])]
            sl_ = b.slice_op(o)
            nx = [c_ for c_ in sl_.find_calls(r"Iterator::next$") if "SplitN" in c_[1].get("resolved_full", "")]
            return nx
        kn, vn = next_of(k_op), next_of(v_op)
        if len(kn) == 1 and len(vn) == 1 and kn[0][0] != vn[0][0] and b.dominates(kn[0][0], vn[0][0]):
            ki, vi = [0], [1]
    if ki != [0] or vi != [1]:
        yield VIOL("C19-R2", "from_auth_header/insert-kv", "insert(key, value) is not (parts[0], parts[1]): key idx %s value idx %s" % (ki, vi), where=b.span_of_block(site_blk))
    else:
        yield PASS("C19-R2", "from_auth_header/insert-kv", "insert(parts[0], parts[1])", [])
    # what is split at '=' is the list element trimmed of ASCII whitespace on BOTH sides (`Credential=x , Signed..`: the
    # blank before the comma is not part of the value), and it is cut at the first '=' into exactly two pieces
    TRIM, HALF = r"^canonical::trim_ascii$", r"canonical::trim_ascii_(start|end)$|slice::(ascii::)?<impl \[u8\]>::trim_ascii_(start|end)$"
    probs = []
    for nm, o in (("name", k_op), ("value", v_op)):
        sl = b.slice_op(o)
        tr = sl.find_calls(TRIM) + sl.find_calls(r"slice::(ascii::)?<impl \[u8\]>::trim_ascii$")
        if not tr or sl.find_calls(HALF):
            probs.append("the parameter %s is not cut from the element trimmed on both sides (trim_ascii)" % nm)
        else:
            # the innermost trim is applied to the split(',') element itself
            inner = [t_ for _, t_ in tr if not [c_ for c_ in b.slice_op(t_["args"][0]).callee_names() if not re.search(r"Iterator::next$|IntoIterator::into_iter$|slice::<impl \[T\]>::split$|Iterator::map$|Iterator::filter$|slice::<impl \[T\]>::is_empty$|canonical::trim_ascii$|Index::index$|Deref::deref$|Iterator::collect$|slice::<impl \[T\]>::splitn$|Vec::<T, A>::len$|Iterator::position$|slice::<impl \[T\]>::iter$|Option::<T>::unwrap_or$", c_)]]
            if not inner:
                probs.append("trim_ascii is not applied to the comma-separated element as it is")
    for bi_, t_ in b.calls(r"slice::<impl \[T\]>::splitn$|str>::splitn$"):
        n_ = const_value(op_const(b.resolve_copy(t_["args"][1])) or {})
        if n_ != 2:
            probs.append("splitn(%s, ..): a piece is cut at every separator up to the %s-th, the value loses what follows its own '=' / the header its parameters" % (n_, n_))
    # `parameter.split(b'=')` (every '=') instead of splitn(2, ..): `Credential=AK=ID/..` has three pieces
    for bi_, t_ in b.calls(r"slice::<impl \[T\]>::(split|rsplit|rsplitn|split_inclusive)$|str>::(split|rsplit|rsplitn)$"):
        cd_ = b.origin_def(t_["args"][-1])
        sepc = None
        if cd_ and cd_[0] == "def" and cd_[1]["kind"] == "assign" and cd_[1]["stmt"]["rv"].get("closure"):
            kb_ = b.facts.find_bodies("^" + re.escape(cd_[1]["stmt"]["rv"]["closure"]) + "$", include_absorbed=True)
            if kb_:
                cs_ = [const_value(op_const(x)) for _, _, st_ in kb_[0].stmts() if st_["k"] == "assign" and st_["rv"]["k"] == "binop" for x in (st_["rv"]["l"], st_["rv"]["r"]) if op_const(x) is not None]
                sepc = cs_[0] if len(cs_) == 1 else None
        elif op_const(t_["args"][-1]) is not None:
            sepc = const_value(op_const(t_["args"][-1]))
        if sepc in (ord("="), "="):
            probs.append("`%s` at '=' cuts a parameter at EVERY '=' (or from the wrong end): the value must be everything after the first one" % t_["callee"].split("::")[-1])
    if probs:
        yield VIOL("C19-R2", "from_auth_header/param-trim", "; ".join(sorted(set(probs))), where=b.span_of_block(site_blk))
    else:
        yield PASS("C19-R2", "from_auth_header/param-trim", "name / value cut from trim_ascii(element) at the first '=' (splitn(2, ..))", [])
    # the algorithm token is compared on the header trimmed on both sides
    alg = []
    for bi_, t_ in cmp_calls(b, r"PartialEq::(eq|ne)$"):
        sides = [b.slice_op(x) for x in t_["args"]]
        if any(b"AWS4-HMAC-SHA256" in sl_.const_values() or "AWS4-HMAC-SHA256" in sl_.const_values() for sl_ in sides):
            alg.append((bi_, t_, sides))
    if len(alg) == 1:
        other = [sl_ for sl_ in alg[0][2] if not (b"AWS4-HMAC-SHA256" in sl_.const_values() or "AWS4-HMAC-SHA256" in sl_.const_values())]
        if not other or not (other[0].find_calls(TRIM) or other[0].find_calls(r"slice::(ascii::)?<impl \[u8\]>::trim_ascii$")) or other[0].find_calls(HALF):
            yield VIOL("C19-R2", "from_auth_header/header-trim", "the algorithm token is not taken from the Authorization value trimmed of ASCII whitespace on both sides (a leading TAB survives normalisation)", where=b.span_of_block(alg[0][0]))
        else:
            yield PASS("C19-R2", "from_auth_header/header-trim", "algorithm = first token of trim_ascii(header value)", [])


@M.rule("C19-R3", "X-Amz-Date takes precedence over Date; first security-token header")
def r3(ctx):
    b = ctx.fn(FNS[1])
    gets = {}
    for bi, t in b.calls(r"HashMap::<K, V, S, A>::get$"):
        kv, _ = const_str_of(b, t["args"][1])
        if isinstance(kv, str):
            gets.setdefault(kv, []).append((bi, t))
    ctx.count(len(gets))
    if "x-amz-date" not in gets or "date" not in gets:
        yield VIOL("C19-R3", "from_auth_header/date-lookups", "lookups of `x-amz-date` and `date` not both found (keys: %s)" % sorted(gets), where=loc(b.j["span"]))
        return
    xb, xt = gets["x-amz-date"][0]
    db, dt = gets["date"][0]
    ok = False
    for pl, vals, other, a in discr_guard_variants(b, db):
        if pl["local"] == xt["dest"]["local"] or root_local(b, {"copy": pl}) == xt["dest"]["local"] or (b.single_def(pl["local"]) and b.single_def(pl["local"])["kind"] == "assign" and op_local(b.single_def(pl["local"])["stmt"]["rv"].get("op", {})) == xt["dest"]["local"]):
            # on the None side: Some is value 1
            if 1 not in vals:
                ok = True
    if not ok or not b.dominates(xb, db):
        yield VIOL("C19-R3", "from_auth_header/x-amz-date-first", "the `date` header is consulted other than as the fallback when `x-amz-date` is absent", where=b.span_of_block(db))
    else:
        yield PASS("C19-R3", "from_auth_header/x-amz-date-first", "get(\"date\") only on the None edge of get(\"x-amz-date\")", [site(b, xb, "x-amz-date"), site(b, db, "date")])
    # the timestamp assigned on the Some edge derives from the x-amz-date list
    # (the [0] selection itself is R1's)


@M.rule("C19-R4", "carrier presence matrix: header only / query only / both => refusal / neither => MissingAuthenticationToken")
def r4(ctx):
    b = ctx.fn(FNS[0])
    gets = {}
    glocals = {"authorization": set(), "X-Amz-Algorithm": set()}
    has = {}  # dest local of contains_key(..) -> 'h' / 'q'
    for bi, t in b.calls(r"HashMap::<K, V, S, A>::(get|contains_key)$"):
        kv, _ = const_str_of(b, t["args"][1])
        if kv in glocals:
            if t["callee"].endswith("::get"):
                gets[kv] = t["dest"]["local"]
                glocals[kv].add(t["dest"]["local"])
            else:
                has[t["dest"]["local"]] = "h" if kv == "authorization" else "q"
    if not (glocals["authorization"] or "h" in has.values()) or not (glocals["X-Amz-Algorithm"] or "q" in has.values()):
        raise AnchorMissing("lookups of `authorization` and `X-Amz-Algorithm` in get_auth_parameters")

    def which(place):
        """'h' / 'q' if place's discriminant is the header / query lookup result ITSELF (moves / tuple packing only):
        a filtered or recomputed presence (e.g. "present and equal to AWS4-HMAC-SHA256") is not the documented rule."""
        sl = b.slice([place["local"]])
        passive = [c for c in sl.callee_names() if not re.search(r"HashMap::<K, V, S, A>::get$|CanonicalRequest::(headers|query_parameters)$", c)]
        if place["local"] in has and not place["proj"]:
            return has[place["local"]]
        if passive:
            return None
        fs = place_fields(place)
        hs = [t for _, t in sl.calls if t["dest"]["local"] in glocals["authorization"]]
        qs = [t for _, t in sl.calls if t["dest"]["local"] in glocals["X-Amz-Algorithm"]]
        if fs and fs[0] in ("0", "1") and hs and qs:
            # tuple (auth_header, sig_algs): field 0 / 1 -> resolve through the tuple aggregate
            for d in b.defs().get(place["local"], []):
                if d["kind"] == "assign" and d["stmt"]["rv"]["k"] == "aggregate" and d["stmt"]["rv"].get("tuple"):
                    o = d["stmt"]["rv"]["ops"][int(fs[0])]
                    s2 = b.slice_op(o)
                    if any(t["dest"]["local"] in glocals["authorization"] for _, t in s2.calls):
                        return "h"
                    if any(t["dest"]["local"] in glocals["X-Amz-Algorithm"] for _, t in s2.calls):
                        return "q"
            return None
        if hs and not qs:
            return "h"
        if qs and not hs:
            return "q"
        return None

    # abstract evaluation over the four presence combinations
    outcomes = {}
    start = None
    for a in sorted(b.live_blocks(), key=lambda x: sum(1 for y in b.live_blocks() if b.dominates(y, x))):
        c = b.cond_of_switch(a)
        if c and c["kind"] == "discr" and which(c["place"]):
            start = a
            break
        if c and c["kind"] == "call" and re.search(r"Option::<T>::is_(some|none)$", c["callee"]) and which({"local": root_local(b, c["term"]["args"][0]), "proj": []}):
            start = a
            break
        if c and c["kind"] == "call" and c["term"]["dest"]["local"] in has:
            start = a
            break
    if start is None:
        for a in sorted(b.live_blocks()):
            c = b.cond_of_switch(a)
            if c and c["kind"] == "discr":
                sl = b.slice([c["place"]["local"]])
                if any(t["dest"]["local"] in (glocals["authorization"] | glocals["X-Amz-Algorithm"]) for _, t in sl.calls):
                    yield VIOL("C19-R4", "get_auth_parameters/carrier-presence-filtered", "carrier presence is decided on a value computed from the lookup (through %s), not on the presence of the Authorization header / X-Amz-Algorithm parameter itself: e.g. a non-SigV4 X-Amz-Algorithm next to an Authorization header is no longer refused" % [x for x in sl.callee_names() if "HashMap" not in x][:4], where=b.span_of_block(a))
                    return
        raise AnchorMissing("presence switch in get_auth_parameters")
    for h in (0, 1):
        for q in (0, 1):
            blk = start
            steps = 0
            res = None
            while steps < 60:
                steps += 1
                t = b.term(blk)
                if t["k"] == "switch":
                    c = b.cond_of_switch(blk)
                    if c and c["kind"] == "call" and c["term"]["dest"]["local"] in has:
                        w = has[c["term"]["dest"]["local"]]
                        val = bool(h if w == "h" else q)
                        if c.get("neg"):
                            val = not val
                        nb = None
                        for s_ in b.succ(blk):
                            if b.truth_of_edge(blk, s_) is val:
                                nb = s_
                        if nb is None:
                            res = ("unknown-switch", blk)
                            break
                        blk = nb
                        continue
                    if c and c["kind"] == "call" and re.search(r"Option::<T>::is_(some|none)$", c["callee"]):
                        a0 = c["term"]["args"][0]
                        pl0 = op_place(a0)
                        od0 = b.origin_def(a0)
                        w = which({"local": root_local(b, a0) if od0 is None or od0[0] != "place" else od0[1]["local"], "proj": od0[1]["proj"] if od0 and od0[0] == "place" else []}) if pl0 else None
                        if w is None:
                            res = ("unknown-switch", blk)
                            break
                        present = bool(h if w == "h" else q)
                        val = present if c["callee"].endswith("is_some") else not present
                        if c.get("neg"):
                            val = not val
                        nb = None
                        for s_ in b.succ(blk):
                            if b.truth_of_edge(blk, s_) is val:
                                nb = s_
                        if nb is None:
                            res = ("unknown-switch", blk)
                            break
                        blk = nb
                        continue
                    w = which(c["place"]) if c and c["kind"] == "discr" else None
                    if w is None:
                        res = ("unknown-switch", blk)
                        break
                    v = h if w == "h" else q
                    nxt = [bb for vv, bb in t["targets"] if vv == v]
                    blk = nxt[0] if nxt else t["otherwise"]
                    continue
                if t["k"] == "call" and re.search(r"Option::<T>::is_(some|none)$|HashMap::<K, V, S, A>::(get|contains_key)$|CanonicalRequest::(headers|query_parameters)$", t.get("callee", "")) and t.get("target") is not None \
                        and not any(s_["k"] == "assign" and s_["rv"]["k"] == "aggregate" for s_ in b.blocks[blk]["stmts"]):
                    blk = t["target"]
                    continue
                if t["k"] == "goto" and not b.blocks[blk]["stmts"]:
                    blk = t["target"]  # empty connector block between two tests
                    continue
                # first non-switch block: classify by what happens from here
                calls = [tt["callee"].split("::")[-1] for bb in [blk] for tt in [b.term(bb)] if tt["k"] == "call"]
                reach = b._reachable_from(blk)
                hdr = any(b.term(x)["k"] == "call" and b.term(x)["callee"].endswith("get_auth_parameters_from_auth_header") for x in reach)
                qry = any(b.term(x)["k"] == "call" and b.term(x)["callee"].endswith("get_auth_parameters_from_query_parameters") for x in reach)
                errs = [(eb, s["rv"]["variant"]) for eb, i, s in err_sites(b) if eb in reach and not any(b.term(x)["k"] == "call" and "get_auth_parameters_from" in b.term(x).get("callee", "") for x in b._reachable_from(blk) if b.reachable(x, eb))]
                # Determine by dominance: which of the four kinds of continuation is dominated by blk
                dom_hdr = [x for x in reach if b.term(x)["k"] == "call" and b.term(x)["callee"].endswith("get_auth_parameters_from_auth_header") and b.dominates(blk, x)]
                dom_qry = [x for x in reach if b.term(x)["k"] == "call" and b.term(x)["callee"].endswith("get_auth_parameters_from_query_parameters") and b.dominates(blk, x)]
                dom_err = [s["rv"]["variant"] + ("(None)" if (s["rv"]["variant"] == "SignatureDoesNotMatch" and not b.slice_op(s["rv"]["ops"][0]).calls) else "") for eb, i, s in err_sites(b) if b.dominates(blk, eb) and not any(b.dominates(x, eb) for x in dom_hdr + dom_qry)]
                if dom_hdr and not dom_qry:
                    res = "header"
                elif dom_qry and not dom_hdr:
                    res = "query"
                elif dom_err and not dom_hdr and not dom_qry:
                    res = "Err:" + "+".join(sorted(set(dom_err)))
                else:
                    res = ("ambiguous", blk)
                break
            outcomes[(h, q)] = res
    ctx.count(4)
    ctx.extra["carrier_matrix"] = {"header=%d,query=%d" % k: str(v) for k, v in outcomes.items()}
    want = {(1, 0): "header", (0, 1): "query", (1, 1): "Err:SignatureDoesNotMatch(None)", (0, 0): "Err:MissingAuthenticationToken"}
    bad = {k: (outcomes.get(k), w) for k, w in want.items() if outcomes.get(k) != w}
    if bad:
        yield VIOL("C19-R4", "get_auth_parameters/carrier-matrix", "presence matrix (header, query) -> outcome deviates: %s" % {str(k): "got %s, want %s" % v for k, v in bad.items()}, where=b.span_of_block(start))
    else:
        yield PASS("C19-R4", "get_auth_parameters/carrier-matrix", "exhaustive over 4 presence combinations: header-only -> header path, query-only -> query path, both -> Err(SignatureDoesNotMatch(None)), neither -> Err(MissingAuthenticationToken)", [site(b, start, "match (auth_header, sig_algs)")])


import c12  # noqa: E402
import c10  # noqa: E402


@M.rule("C19-R5", "value lists are in arrival order: URL values first, body values appended; parsed lists only grow by push (shared with C12-R1, C10-R4)")
def r5(ctx):
    # the carrier matrix (R4) sees form-body X-Amz-* parameters only because they were folded first: whether that happens
    # must not depend on anything but the option and the content type (C12-R2 folding-conditions)
    fold = [x for x in c12.r2(ctx) if "folding-condition" in x.key]
    for r in list(c12.r1(ctx)) + [x for x in c10.r4(ctx) if "insert" in x.key or "store" in x.key or x.status != "PASS"] + fold:
        r.rule = "C19-R5"
        yield r


import c11  # noqa: E402


@M.rule("C19-R6", "header value lists hold every occurrence in arrival order, so `[0]` is the first occurrence (shared with C11-R3)")
def r6(ctx):
    for r in c11.r3(ctx):
        r.rule = "C19-R6"
        yield r


TRUNCATING = r"Iterator::(take_while|skip_while|take|skip|step_by|map_while|scan|nth|last|find|find_map|rev|dedup\w*)$"


@M.rule("C19-R7", "the Authorization header's parameter list is read to its end: only empty elements are skipped, nothing stops the scan")
def r7(ctx):
    """`Credential=.., ,Signature=..`: an empty list element is skipped, the elements after it still count (last wins needs
    every occurrence). Two idioms: a `for` loop over split(',') whose only ways out of an iteration are the next iteration,
    the insert or an error return; or an iterator pipeline on split(',') without a truncating / reordering stage."""
    b = ctx.fn(FNS[1])
    sp = [(bi, t) for bi, t in b.calls(r"slice::<impl \[T\]>::split$|str>::split$")]
    if not sp:
        raise AnchorMissing("split(',') over the Authorization parameters")
    ctx.count(len(sp))
    bad = []
    for bi, t in b.calls(TRUNCATING):
        src, stages = pipeline_of(b, t["args"][0])
        if src and src[0] == "def" and src[1]["kind"] == "call" and re.search(r"slice::<impl \[T\]>::split$|str>::split$", src[1]["term"]["callee"]):
            bad.append((bi, t))
    for bi, t in bad:
        yield VIOL("C19-R7", "from_auth_header/params-truncated:" + t["callee"].split("::")[-1], "`%s` on the parameter list: elements after the first one it rejects (e.g. after an empty element `, ,`) are never looked at, or the order of occurrences changes" % t["callee"].split("::")[-1], where=b.span_of_block(bi))
    # loop form: no `break`
    nx = [x for x in b.calls(r"Iterator::next$") if re.search(r"slice::Split<|str::Split<", x[1].get("resolved_full", "")) and not x[1].get("summary")]
    if len(nx) == 1:
        st = b.term(nx[0][1]["target"])
        some = [bb for v, bb in st["targets"] if v == 1] if st["k"] == "switch" else []
        none = [bb for v, bb in st["targets"] if v == 0] if st["k"] == "switch" else []
        if st["k"] == "switch" and not none and st.get("otherwise") is not None:
            none = [st["otherwise"]]
        if some and none:
            r = b._reachable_from(some[0], avoid={nx[0][0]})
            # a `break` lands on the code after the loop (not necessarily on the None arm's own first block): from inside an
            # iteration, without going through the loop head again, no success result may be reachable
            oks = {ob for ob, _, _ in result_aggs(b, "Ok")}
            if none[0] in r or (oks & r):
                yield VIOL("C19-R7", "from_auth_header/params-loop-break", "the parameter loop can be left from inside an iteration without an error (`break`): later parameters are not read", where=b.span_of_block(nx[0][0]))
            elif not bad:
                yield PASS("C19-R7", "from_auth_header/params-read-to-end", "for-loop over split(','): an iteration ends in the next iteration or an error return", [site(b, nx[0][0], "next")])
        elif not bad:
            yield MISSING("C19-R7", "from_auth_header/params-loop-shape", "parameter loop's Some/None edges not found")
    elif not bad:
        # pipeline form: every stage between split(',') and the consumer is order- and length-preserving apart from `filter`
        yield PASS("C19-R7", "from_auth_header/params-read-to-end", "no truncating or reordering adaptor on the split(',') pipeline", [site(b, bi, "split") for bi, _ in sp])
