"""C08 Totality: every panic-capable construct of the library carries a discharging guard (K8 inventory)."""
import json
import os

from lib import *
from registry import Module
from linear import Lin, lf_add, lf_const, lf_str, lf_norm, entails, ineq
import regexhelp
import valueset

M = Module(
    "C08",
    "Totality (no panics)",
    "Inventory (from MIR, so macro output is included) of every panic-capable construct in non-test library code: Assert terminators (overflow, "
    "bounds, division) and calls into a table of panicking APIs (unwrap/expect, indexing, copy_from_slice, remove, split_at, truncate, panic!/assert!, "
    "chrono constructors/formatting, the documented-panicking unescape_uri_encoding). Each site must be discharged by a machine-checked guard "
    "(dominating length/discriminant tests turned into linear facts, first element of a split, value lists of the header/query multimaps are "
    "non-empty, regex-group languages bounding parsed integers, array lengths from types, accumulator-implies-set for builders, infallible writers, "
    "valid regex/chrono literals, exhaustive value-set evaluation) or by a row of the reviewed table (reviewed-only, kept minimal and listed). A site "
    "with no guard - in particular any new one - is reported with function, construct and callee.",
    ["allocation failure / stack exhaustion are out of scope", "functions outside the panic-capable API table do not panic (notably the encoding crate's decoders and regex matching)",
     "the body of unescape_uri_encoding is documented as panicking and exempt by the property's own exception; its call sites are not"],
)

TABLE = os.path.join(os.path.dirname(os.path.abspath(__file__)), "tables", "panic_sites.json")

PANIC_API = (
    r"(Option::<T>::(unwrap|expect)|Result::<T, E>::(unwrap|expect|unwrap_err|expect_err)|^core::panicking::\w+|^std::rt::\w*panic\w*|^core::option::(unwrap_failed|expect_failed)"
    r"|ops::Index(Mut)?::index(_mut)?|slice::<impl \[T\]>::(copy_from_slice|clone_from_slice|split_at(_mut)?|swap|chunks\w*|windows|rotate_\w+|copy_within|fill_with|select_nth\w*)"
    r"|str>::(split_at|split_at_mut)|Vec::<T, A>::(remove|insert|swap_remove|drain|split_off|extend_from_within|splice)|VecDeque::<T, A>::\w+"
    r"|String::(truncate|remove|insert|insert_str|split_off|drain|replace_range)"
    r"|TimeDelta::(weeks|days|hours|minutes|seconds|milliseconds)|DateTime::<Tz>::format|NaiveDate::format|NaiveDateTime::format|NaiveTime::format"
    r"|NaiveDate::(from_ymd|from_yo|succ|pred)|NaiveTime::from_hms(_milli|_micro|_nano)?|with_ymd_and_hms|DateTime::<Tz>::(from_utc|from_local)|TimeZone::(ymd|timestamp|datetime_from_str)"
    r"|RefCell::<T>::borrow\w*|canonical::unescape_uri_encoding|Iterator::step_by|u\d+::pow|i\d+::pow|<impl u\d+>::pow|<impl i\d+>::(pow|abs)|Uri::from_static|HeaderValue::from_static|HeaderName::from_static"
    r"|Duration::(from_secs_f\d+|new)|Instant::\w+|Layout::\w+|char::from_digit|<impl char>::from_digit)$"
)
EXEMPT_BODIES = {"canonical::unescape_uri_encoding": "documented as panicking on malformed escapes (the property's own exception); call sites are checked"}


def load_table():
    if not os.path.exists(TABLE):
        return {}
    return {r["key"]: r for r in json.load(open(TABLE))["rows"]}


class SiteCx:
    def __init__(self, ctx, b):
        self.ctx = ctx
        self.b = b
        self.lin = Lin(b)
        self._iso = None

    # ---------------------------------------------------------------- facts with invalidation
    def stable_facts(self, blk):
        """Linear facts at blk whose symbols were not redefined/mutated between the guard and blk."""
        b = self.b
        out = []
        for (a, s) in b.guards(blk):
            c = b.cond_of_switch(a)
            if not c:
                continue
            truth = b.truth_of_edge(a, s)
            if truth is None:
                continue
            if c.get("neg"):
                truth = not truth
            forms = []
            if c["kind"] == "binop":
                l, r = self.lin.form(c["l"]), self.lin.form(c["r"])
                if l is None or r is None:
                    continue
                forms = ineq(c["op"], l, r, truth)
            elif c["kind"] == "call" and re.search(r"is_empty$", c["callee"]):
                k = {"len(%s)" % self.lin.root_key(c["term"]["args"][0]): 1, 1: 0}
                forms = [k] if truth else [lf_add(lf_const(1), k, -1)]
            for f in forms:
                if self.symbols_stable(f, a, s, blk):
                    out.append(f)
        return out + self.origin_facts()

    def origin_facts(self):
        """Facts that hold by construction of a value, wherever it is used: the payload of
        `s.iter().position(..)` / `str::find(..)` on s is an index < len(s) (also when unwrapped by `?`)."""
        if hasattr(self, "_ofacts"):
            return self._ofacts
        b = self.b
        out = []
        for bi, t in b.calls(r"Iterator::position$|slice::<impl \[T\]>::iter$"):
            pass
        for bi, t in b.calls(r"Iterator::position$"):
            src = b.origin_def(t["args"][0])
            if not (src and src[0] == "def" and src[1]["kind"] == "call" and re.search(r"slice::<impl \[T\]>::iter$", src[1]["term"]["callee"])):
                continue
            ln = "len(%s)" % self.lin.root_key(src[1]["term"]["args"][0])
            holders = [t["dest"]["local"]]
            for tb, tt in b.calls(r"ops::Try::branch$"):
                od = b.origin_def(tt["args"][0])
                if od and od[0] == "def" and od[1]["kind"] == "call" and od[1]["block"] == bi:
                    holders.append(tt["dest"]["local"])
            for h in holders:
                # the symbol Lin.form gives to `(h as Some).0` / `(h as Continue).0`
                out.append({"pay:_%d.0" % h: 1, ln: -1, 1: 1})
                out.append({"pay:_%d.0" % h: -1, 1: 0})  # an index is not negative
        # `s.get(a..b)` is Some(sub) only with len(sub) == b - a
        from linear import lf_add as _add
        for bi, t in b.calls(r"slice::<impl \[T\]>::get$|str>::get$"):
            rg = b.origin_def(t["args"][1])
            if not (rg and rg[0] == "def" and rg[1]["kind"] == "assign" and str(rg[1]["stmt"]["rv"].get("adt", "")).endswith("ops::Range")):
                continue
            ops = rg[1]["stmt"]["rv"]["ops"]
            s_, e_ = self.lin.form(ops[0]), self.lin.form(ops[1])
            if s_ is None or e_ is None:
                continue
            holders = [t["dest"]["local"]]
            for tb, tt in b.calls(r"ops::Try::branch$"):
                od = b.origin_def(tt["args"][0])
                if od and od[0] == "def" and od[1]["kind"] == "call" and od[1]["block"] == bi:
                    holders.append(tt["dest"]["local"])
            for h in holders:
                for vn in ("Some", "Continue"):
                    ln = {"len((_%d as %s).0)" % (h, vn): 1, 1: 0}
                    diff = _add(e_, s_, -1)
                    out.append(_add(ln, diff, -1))       # len - (e - s) <= 0
                    out.append(_add(diff, ln, -1))       # (e - s) - len <= 0
        # `a.checked_sub(k)` is Some(d) only with d == a - k (hence a >= k); likewise checked_add on the Some side
        for bi, t in b.calls(r"num::<impl (usize|u64|u32|u16|u8)>::checked_(sub|add)$"):
            a_, k_ = self.lin.form(t["args"][0]), self.lin.form(t["args"][1])
            if a_ is None or k_ is None:
                continue
            val = _add(a_, k_, -1 if t["callee"].endswith("checked_sub") else 1)
            holders = [t["dest"]["local"]]
            for tb, tt in b.calls(r"ops::Try::branch$"):
                od = b.origin_def(tt["args"][0])
                if od and od[0] == "def" and od[1]["kind"] == "call" and od[1]["block"] == bi:
                    holders.append(tt["dest"]["local"])
            for h in holders:
                pay = {"pay:_%d.0" % h: 1, 1: 0}
                out.append(_add(pay, val, -1))   # pay - val <= 0
                out.append(_add(val, pay, -1))   # val - pay <= 0
                out.append({"pay:_%d.0" % h: -1, 1: 0})  # unsigned
        self._ofacts = out
        return out

    def symbols_stable(self, form, a, s, blk):
        b = self.b
        for sym in form:
            if sym == 1 or not isinstance(sym, str):
                continue
            m = re.match(r"^L(\d+)$", sym) or re.match(r"^len\(_(\d+)\)$", sym)
            if not m:
                continue
            l = int(m.group(1))
            is_len = sym.startswith("len(")
            for d in b.defs().get(l, []):
                db = d["block"]
                if is_len and d["kind"] == "assign" and d.get("partial"):
                    continue  # element / field write: the length is unchanged
                if is_len and d["kind"] == "mutcall" and re.search(r"(IndexMut::index_mut|DerefMut::deref_mut|iter_mut|as_mut_slice|slice::<impl \[T\]>::(sort\w*|reverse|swap|fill|copy_from_slice|clone_from_slice)|Iterator::next)$", d["term"]["callee"]):
                    continue
                if db == blk and d["kind"] != "assign":
                    continue
                if db == a:
                    continue
                from_s = db == s or db in b._reachable_from(s, avoid={a})
                to_blk = blk == db or blk in b._reachable_from(db, avoid={a})
                if from_s and to_blk and db != blk:
                    return False
        return True

    def static_len(self, o, depth=10):
        """Array length from the type behind a slice operand (through unsize casts / as_ref / as_slice / deref)."""
        b = self.b
        while depth > 0:
            depth -= 1
            p = op_place(o)
            c = op_const(o)
            if c is not None:
                v = const_value(c)
                m = re.search(r"\[u8; (\d+)\]", c.get("ty", ""))
                if m:
                    return int(m.group(1))
                return len(v) if isinstance(v, (bytes, str)) else None
            if p is None:
                return None
            ty = b.local_ty(p["local"])
            if not p["proj"] or p["proj"] == ["deref"]:
                m = re.match(r"^&?(mut )?\[[\w:]+; (\d+)\]$", ty)
                if m:
                    return int(m.group(2))
            od = b.origin_def(o, through_refs=True)
            if od is None:
                return None
            if od[0] == "def" and od[1]["kind"] == "call" and re.search(r"(AsRef::as_ref|AsMut::as_mut|::as_slice|::as_mut_slice|Deref::deref|DerefMut::deref_mut|Borrow::borrow)$", od[1]["term"]["callee"]):
                o = od[1]["term"]["args"][0]
                continue
            if od[0] == "place":
                l = od[1]["local"]
                fs = place_fields(od[1])
                tyl = b.local_ty(l)
                if fs:
                    last = [e for e in od[1]["proj"] if isinstance(e, dict) and "field" in e][-1]
                    m = re.match(r"^\[[\w:]+; (\d+)\]$", last.get("ty", ""))
                    return int(m.group(1)) if m else None
                m = re.match(r"^&?(mut )?\[[\w:]+; (\d+)\]$", tyl)
                return int(m.group(2)) if m else None
            if od[0] in ("multi", "param"):
                m = re.match(r"^&?(mut )?\[[\w:]+; (\d+)\]$", b.local_ty(od[1]))
                return int(m.group(2)) if m else None
            if od[0] == "def" and od[1]["kind"] == "assign":
                m = re.match(r"^&?(mut )?\[[\w:]+; (\d+)\]$", b.local_ty(od[1]["stmt"]["place"]["local"]))
                if m:
                    return int(m.group(2))
                rv = od[1]["stmt"]["rv"]
                if rv["k"] in ("cast", "use"):
                    o = rv["op"]
                    continue
                return None
            if od[0] == "def" and od[1]["kind"] == "call":
                m = re.match(r"^&?(mut )?\[[\w:]+; (\d+)\]$", b.local_ty(od[1]["term"]["dest"]["local"]))
                return int(m.group(2)) if m else None
            return None
        return None

    # ---------------------------------------------------------------- regex groups (ISO-8601)
    def iso(self):
        if self._iso is None:
            lits = regexhelp.regex_literals(self.ctx.facts)
            pat = [p for st, p, bb, bi in lits if st.endswith("ISO_8601_REGEX")]
            f = regexhelp.facts_for_patterns(pat)[0] if pat and pat[0] else {"groups": []}
            self._iso = {g["name"]: g for g in f.get("groups", []) if g["name"]}
        return self._iso

    def group_of(self, o):
        sl = self.b.slice_op(o)
        gs = set()
        for _, t in sl.find_calls(r"regex::Captures::<'h>::name$"):
            gs.add(const_str_of(self.b, t["args"][1])[0])
        return gs, sl

    def interval(self, o, depth=12):
        """Integer interval of an operand built from regex-group numbers, constants and + * (i32/u32)."""
        b = self.b
        c = op_const(o)
        if c is not None:
            v = const_value(c)
            return (v, v) if isinstance(v, int) else None
        p = op_place(o)
        if p is None or depth <= 0:
            return None
        l = p["local"]
        fs = place_fields(p)
        if fs == ["0"]:
            d = b.single_def(l)
            if d and d["kind"] == "assign" and d["stmt"]["rv"]["k"] == "binop":
                rv = d["stmt"]["rv"]
                x, y = self.interval(rv["l"], depth - 1), self.interval(rv["r"], depth - 1)
                if x is None or y is None:
                    return None
                if rv["op"].startswith("Add"):
                    return (x[0] + y[0], x[1] + y[1])
                if rv["op"].startswith("Sub"):
                    return (x[0] - y[1], x[1] - y[0])
                if rv["op"].startswith("Mul"):
                    ps = [x[0] * y[0], x[0] * y[1], x[1] * y[0], x[1] * y[1]]
                    return (min(ps), max(ps))
            return None
        if p["proj"]:
            return None
        ds = [d for d in b.defs().get(l, []) if d["kind"] != "mutcall"]
        if len(ds) > 1 and all(d["kind"] == "assign" and d["stmt"]["rv"]["k"] == "use" and op_const(d["stmt"]["rv"]["op"]) for d in ds):
            vs = [const_value(d["stmt"]["rv"]["op"]["const"]) for d in ds]
            if all(isinstance(v, int) for v in vs):
                return (min(vs), max(vs))
        if len(ds) != 1:
            return None
        d = ds[0]
        if d["kind"] == "assign":
            rv = d["stmt"]["rv"]
            if rv["k"] == "use":
                return self.interval(rv["op"], depth - 1)
            return None
        if d["kind"] == "call":
            t = d["term"]
            if re.search(r"Result::<T, E>::unwrap$", t["callee"]):
                od = b.origin_def(t["args"][0])
                if od and od[0] == "def" and od[1]["kind"] == "call" and re.search(r"FromStr::from_str$", od[1]["term"]["callee"]):
                    return self.parsed_interval(od[1]["term"])
        return None

    def parsed_interval(self, from_str_term):
        """Interval of from_str::<int>(text) when text is (a piece of) an ISO-8601 capture group with a finite digit language."""
        gs, sl = self.group_of(from_str_term["args"][0])
        if len(gs) != 1:
            return None
        g = self.iso().get(list(gs)[0])
        if not g:
            return None
        if g["finite"] and g["language"]:
            lang = g["language"]
            if list(gs)[0] == "offset":
                # hh and mm pieces after dropping ':' and the sign: split_at(1) then split_at(2)
                vals = []
                for s in lang:
                    if s == "Z":
                        continue
                    s2 = s.replace(":", "")
                    if not re.match(r"^[+-][0-9]{4}$", s2) or not s2.isascii():
                        return None  # a member of the offset language that is neither "Z" nor a signed hhmm (e.g. `z` under (?i)) reaches the numeric branch
                    vals += [int(s2[1:3]), int(s2[3:5])]
                return (min(vals), max(vals))
            if all(s.isdigit() and s.isascii() for s in lang):
                return (min(int(s) for s in lang), max(int(s) for s in lang))
            return None
        return None


# ------------------------------------------------------------------------------------------------
# dischargers: each returns (guard name, explanation) or None
# ------------------------------------------------------------------------------------------------
def d_assert(cx, bi, t):
    b, lin = cx.b, cx.lin
    kind = t["kind"]
    facts = cx.stable_facts(bi)
    if kind.startswith("Overflow(Add)") or kind.startswith("Overflow(Sub)") or kind.startswith("Overflow(Mul)"):
        l, r = lin.form(t["ops"][0]), lin.form(t["ops"][1])
        ty = None
        p0 = op_place(t["ops"][0])
        if p0 is not None:
            ty = b.local_ty(p0["local"])
        elif op_const(t["ops"][0]):
            ty = t["ops"][0]["const"]["ty"]
        if ty in ("i32", "u32", "i64", "u64"):
            x, y = cx.interval(t["ops"][0]), cx.interval(t["ops"][1])
            if x is not None and y is not None:
                if "Add" in kind:
                    lo, hi = x[0] + y[0], x[1] + y[1]
                elif "Sub" in kind:
                    lo, hi = x[0] - y[1], x[1] - y[0]
                else:
                    ps = [x[0] * y[0], x[0] * y[1], x[1] * y[0], x[1] * y[1]]
                    lo, hi = min(ps), max(ps)
                bits = int(ty[1:])
                tlo, thi = (-(1 << (bits - 1)), (1 << (bits - 1)) - 1) if ty[0] == "i" else (0, (1 << bits) - 1)
                if tlo <= lo and hi <= thi:
                    return ("regex-group-interval", "operands in %s and %s (bounded by the ISO-8601 pattern's field languages): result in [%d, %d] fits %s" % (x, y, lo, hi, ty))
            return None
        if l is None or r is None:
            return None
        if "Add" in kind:
            tot = lf_add(l, r)
            w = 0
            for sym, c in tot.items():
                if sym == 1:
                    continue
                if c < 0:
                    return None
                if isinstance(sym, str) and sym.startswith("len("):
                    w += c
                elif isinstance(sym, str) and (sym.startswith("L") or sym.startswith("field:") or sym.startswith("pay:")):
                    # bounded above by a length through a stable fact  sym - len(..) + k <= 0
                    okb = any(f.get(sym, 0) >= 1 and any(isinstance(s2, str) and s2.startswith("len(") and c2 < 0 for s2, c2 in f.items()) for f in facts)
                    if not okb:
                        return None
                    w += c
                else:
                    return None
            if w <= 2 and 0 <= tot.get(1, 0) < (1 << 32):
                return ("usize-len-arith", "%s: at most two object lengths (each <= isize::MAX) plus a small constant cannot overflow usize" % lf_str(tot))
            return None
        if "Sub" in kind:
            goal = lf_add(r, l, -1)  # r - l <= 0
            if entails(facts, goal):
                return ("dom-len", "%s >= %s holds on every path here (facts: %s)" % (lf_str(l), lf_str(r), "; ".join(lf_str(f) + " <= 0" for f in facts)))
            return None
        return None
    if kind == "BoundsCheck":
        ln, ix = t["ops"][0], t["ops"][1]
        lf, xf = lin.form(ln), lin.form(ix)
        # length of a sub-slice produced by range indexing: end - start
        od = b.origin_def(ln)
        if od and od[0] == "def" and od[1]["kind"] == "assign" and od[1]["stmt"]["rv"]["k"] == "unop" and od[1]["stmt"]["rv"]["op"] == "PtrMetadata":
            src = b.origin_def(od[1]["stmt"]["rv"]["x"])
            if src and src[0] == "def" and src[1]["kind"] == "call" and re.search(r"ops::Index::index$", src[1]["term"]["callee"]):
                rg = b.origin_def(src[1]["term"]["args"][1])
                if rg and rg[0] == "def" and rg[1]["kind"] == "assign" and rg[1]["stmt"]["rv"].get("adt", "").endswith("ops::Range"):
                    ops = rg[1]["stmt"]["rv"]["ops"]
                    s_, e_ = lin.form(ops[0]), lin.form(ops[1])
                    if s_ is not None and e_ is not None:
                        lf = lf_add(e_, s_, -1)
        if lf is None or xf is None:
            return None
        goal = lf_add(lf_add(xf, lf_const(1)), lf, -1)  # idx + 1 - len <= 0
        if entails(facts, goal):
            return ("loop-bound" if any(s for s in xf if isinstance(s, str) and s.startswith("L")) else "const-index", "index %s < length %s on every path here" % (lf_str(xf), lf_str(lf)))
        return None
    if kind in ("RemainderByZero", "DivisionByZero"):
        # the divisor is in the asserted condition: !(divisor == 0)
        od = b.origin_def(t["cond"])
        if od and od[0] == "def" and od[1]["kind"] == "assign" and od[1]["stmt"]["rv"]["k"] == "binop" and od[1]["stmt"]["rv"]["op"] == "Eq":
            rv = od[1]["stmt"]["rv"]
            vals = [const_value(op_const(b.resolve_copy(x)) or {}) for x in (rv["l"], rv["r"])]
            if all(isinstance(v, int) for v in vals) and vals[0] != vals[1]:
                return ("const-divisor", "divisor is the non-zero constant %d" % max(vals, key=abs))
        return None
    if kind.startswith("Overflow(Rem)") or kind.startswith("Overflow(Div)"):
        v = const_value(op_const(t["ops"][1]) or {})
        if isinstance(v, int) and v not in (0, -1):
            return ("const-divisor", "divisor is the constant %d (MIN / -1 impossible)" % v)
        return None
    return None


def value_list_lookup(cx, o):
    b = cx.b
    sl = b.slice_op(o, stop_at_calls=lambda tt: bool(re.search(r"ops::Index::index$", tt.get("callee", ""))))
    for _, t in sl.calls:
        if re.search(r"HashMap::<K, V, S, A>::get$", t["callee"]) and re.search(r"HashMap::<std::string::String, std::vec::Vec<(std::vec::Vec<u8>|std::string::String)>>", t.get("resolved_full", "")):
            return True
    return False


def d_index(cx, bi, t):
    b, lin = cx.b, cx.lin
    recv, idx = t["args"][0], t["args"][1]
    facts = cx.stable_facts(bi)
    rty = t["arg_tys"][0] if t.get("arg_tys") else ""
    od = b.origin_def(idx)
    iv = const_value(op_const(b.resolve_copy(idx)) or {})
    # range index
    if od and od[0] == "def" and od[1]["kind"] == "assign" and od[1]["stmt"]["rv"]["k"] == "aggregate" and "ops::Range" in od[1]["stmt"]["rv"].get("adt", ""):
        rv = od[1]["stmt"]["rv"]
        kind = rv["adt"].split("::")[-1]
        if kind == "RangeFull":
            return ("full-range", "`x[..]` is the whole slice: no bound to violate")
        n = cx.static_len(recv)
        ln = lf_const(n) if n is not None else None
        if ln is None:
            m = re.search(r"\[u8; (M)\]", rty)
            if m:
                ln = {"M": 1, 1: 0}
        if ln is None:
            ln = {"len(%s)" % lin.root_key(recv): 1, 1: 0}
        ops = rv["ops"]
        if kind == "Range":
            s_, e_ = lin.form(ops[0]), lin.form(ops[1])
        elif kind == "RangeTo":
            s_, e_ = lf_const(0), lin.form(ops[0])
        elif kind == "RangeFrom":
            s_, e_ = lin.form(ops[0]), ln
        else:
            return None
        if s_ is None or e_ is None:
            return None
        g1 = lf_add(s_, e_, -1)
        g2 = lf_add(e_, ln, -1)
        is_str = bool(re.search(r"for (str|std::string::String)>::index", t.get("resolved_full", ""))) or rty.replace("&", "").replace("mut ", "").strip() in ("str", "std::string::String")
        if is_str:
            return None  # slicing a str also needs both ends on char boundaries: no generic guard shows that
        if entails(facts, g1) and entails(facts, g2):
            return ("dom-len", "range %s..%s within length %s on every path here" % (lf_str(s_), lf_str(e_), lf_str(ln)))
        if "field:self.len" in e_ and n is not None:
            return None
        return None
    if isinstance(iv, int):
        if value_list_lookup(cx, recv):
            if iv == 0:
                return ("multimap-nonempty", "[0] of a value list of the header/query multimap: lists are created with one element and only grow (C08-R2)")
            return None
        # first element of a collected split
        rs = b.slice_op(recv)
        col = rs.find_calls(r"Iterator::collect$")
        if col and (rs.has_call(r"str>::(split|splitn|split_terminator|rsplit)$") or rs.has_call(r"slice::<impl \[T\]>::(split|splitn)$")) and iv == 0:
            return ("split-first", "element 0 of a collected split: split always yields at least one piece")
        ln = {"len(%s)" % lin.root_key(recv): 1, 1: 0}
        goal = lf_add(lf_const(iv + 1), ln, -1)
        if entails(facts, goal):
            return ("dom-len", "constant index %d < length on every path here (facts: %s)" % (iv, "; ".join(lf_str(f) + " <= 0" for f in facts)))
        return None
    # variable index
    xf = lin.form(idx)
    if xf is not None:
        ln = {"len(%s)" % lin.root_key(recv): 1, 1: 0}
        goal = lf_add(lf_add(xf, lf_const(1)), ln, -1)
        if entails(facts, goal):
            return ("loop-bound", "index %s < %s on every path here" % (lf_str(xf), lf_str(ln)))
    return None


def d_copy(cx, bi, t):
    n0, n1 = cx.static_len(t["args"][0]), cx.static_len(t["args"][1])
    if n0 is not None and n0 == n1:
        return ("array-len-types", "both sides are %d-byte arrays by type" % n0)
    return None


def acc_of(b):
    for l, d in b.locals.items():
        if re.match(r"^std::vec::Vec<&?(str|std::string::String)>$", d["ty"].replace("&'static ", "&")) or d["ty"].startswith("std::vec::Vec<&str>") or d["ty"].startswith("std::vec::Vec<&'static str>"):
            f = accumulator_facts(b, l)
            if f["pushes"] and f["tests"]:
                return l, f
    return None, None


def d_unwrap(cx, bi, t):
    b = cx.b
    c = t["callee"]
    subj = t["args"][0]
    od = b.origin_def(subj)
    # dominated by a discriminant test of the same place
    sl_local = root_local(b, subj)
    for pl, vals, other, a in discr_guard_variants(b, bi):
        if pl["local"] == sl_local:
            want = 1 if "Option" in c else 0
            if vals == [want]:
                return ("dom-some", "dominated by a match on the same value selecting %s" % ("Some" if "Option" in c else "Ok"))
    for a, s, cnd, truth in guard_conditions(b, bi):
        if cnd["kind"] == "call" and re.search(r"Option::<T>::is_(some|none)$|Result::<T, E>::is_(ok|err)$", cnd["callee"]) and root_local(b, cnd["term"]["args"][0]) == sl_local or (cnd["kind"] == "call" and sl_local in b.slice_op(cnd["term"]["args"][0]).locals and re.search(r"is_(some|none|ok|err)$", cnd["callee"])):
            pos = bool(re.search(r"is_(some|ok)$", cnd["callee"]))
            if pos == bool(truth):
                return ("dom-some", "dominated by `%s` == %s" % (cnd["callee"].split("::")[-1], truth))
    if not (od and od[0] == "def" and od[1]["kind"] == "call"):
        # result of a desugared combinator (map / and_then / ok_or_else ..): Some/Ok exactly when the receiver was
        if od and od[0] == "multi":
            l0 = od[1]
            ds0 = [d for d in b.defs().get(l0, []) if d["kind"] == "assign"]
            if ds0 and all(d["stmt"].get("syn") for d in ds0) and len(ds0) == len(b.defs().get(l0, [])):
                kinds = {}
                for d in ds0:
                    rv = d["stmt"]["rv"]
                    if rv["k"] == "aggregate" and rv.get("adt") in ("std::option::Option", "std::result::Result"):
                        kinds[rv["variant"]] = d
                good_v = "Some" if "Option" in c else "Ok"
                bad_v = "None" if "Option" in c else "Err"
                if set(kinds) == {good_v, bad_v}:
                    # the bad variant is produced only on the receiver's bad edge
                    for pl, vals, other, a in discr_guard_variants(b, kinds[bad_v]["block"]):
                        rd = b.single_def(pl["local"])
                        if rd and rd["kind"] == "assign" and rd["stmt"].get("syn") and rd["stmt"]["rv"]["k"] == "use":
                            recv_op = rd["stmt"]["rv"]["op"]
                            t2 = dict(t)
                            t2["args"] = [recv_op] + t["args"][1:]
                            sub = d_unwrap(cx, bi, t2)
                            if sub:
                                return (sub[0], "through a desugared combinator: " + sub[1])
        # Option local assigned in branches: accumulator-implies-set
        if od and od[0] == "multi":
            l = od[1]
            acc, f = acc_of(b)
            if acc is not None:
                def is_some(d):
                    if d["kind"] != "assign":
                        return False
                    rv = d["stmt"]["rv"]
                    if rv["k"] == "aggregate":
                        return rv.get("variant") == "Some"
                    if rv["k"] == "use":
                        o2 = b.origin_def(rv["op"])
                        return bool(o2 and o2[0] == "def" and o2[1]["kind"] == "assign" and o2[1]["stmt"]["rv"]["k"] == "aggregate" and o2[1]["stmt"]["rv"].get("variant") == "Some")
                    return False

                some_blocks = {d["block"] for d in b.defs().get(l, []) if is_some(d)}
                avoid = some_blocks | set(f["pushes"])
                tests = [tb for tb, _ in f["tests"]]
                if some_blocks and all(tb not in b._reachable_from(0, avoid=avoid) for tb in tests) and ok_guarded_by_empty(b, acc, bi):
                    return ("acc-implies-set", "every path to the is_empty() test either assigned Some(..) or pushed a complaint; this site runs only when the complaint list is empty")
        return None
    ot = od[1]["term"]
    oc = ot["callee"]
    ofull = ot.get("resolved_full", "")
    if re.search(r"Iterator::next$", oc):
        its = b.slice_op(ot["args"][0])
        fresh = its.find_calls(r"str>::(split|splitn|rsplit|split_terminator)$|slice::<impl \[T\]>::(split|splitn)$")
        it_local = list(b.pointees()[op_local(ot["args"][0])]) if op_local(ot["args"][0]) is not None else []
        nexts = [d for l in it_local for d in b.defs().get(l, []) if d["kind"] == "mutcall" and re.search(r"Iterator::next$", d["term"]["callee"])]
        first = all(b.dominates(od[1]["block"], d["block"]) for d in nexts)
        nonempty_input = True
        if fresh and first and not its.has_call(r"Iterator::(skip|filter|skip_while|take|step_by)$"):
            return ("split-first", "first next() on a fresh split/splitn iterator: always Some")
        return None
    if re.search(r"regex::Captures::<'h>::name$", oc):
        g = const_str_of(b, ot["args"][1])[0]
        gi = cx.iso().get(g)
        caps = b.slice_op(ot["args"][0])
        if gi and gi["unconditional"] and any("ISO_8601_REGEX" in (k.get("repr", "") + k.get("static", "")) for k in caps.consts):
            return ("regex-group", "group `%s` participates in every match of ISO_8601_REGEX" % g)
        return None
    if re.search(r"FromStr::from_str$", oc) and re.search(r"for (u|i)\d+>::from_str", ofull):
        ity = re.search(r"for ((u|i)\d+)>::from_str", ofull).group(1)
        iv = cx.parsed_interval(ot)
        bits = int(ity[1:])
        tlo, thi = (-(1 << (bits - 1)), (1 << (bits - 1)) - 1) if ity[0] == "i" else (0, (1 << bits) - 1)
        if iv and tlo <= iv[0] and iv[1] <= thi:
            return ("regex-group", "text is a capture group whose language is ASCII digits with value in [%d, %d]: parse::<%s>() cannot fail" % (iv[0], iv[1], ity))
        gs, sl = cx.group_of(ot["args"][0])
        if gs == {"frac"}:
            tr = sl.find_calls(r"String::truncate$|Iterator::take$")
            g = cx.iso().get("frac")
            if tr and const_value(op_const(b.resolve_copy(tr[0][1]["args"][1])) or {}) == 9 and g and g["ascii_only"] and ity in ("u32", "u64", "i64"):
                return ("regex-group", "fraction is ASCII digits padded/truncated to 9 characters: <= 999999999 fits %s" % ity)
        if gs == {"year"}:
            g = cx.iso().get("year")
            if g and g["min_len"] == 4 and ity in ("i32", "u32", "i64"):
                # Unicode \d: requires the caller-domain argument
                callers = cx.ctx.facts.callers_of(r"parse_from_iso8601$")
                okd = bool(callers)
                for cb, cbi, ct in callers:
                    if cb.path.endswith("parse_from_iso8601"):
                        continue
                    ok1 = False
                    for prod in cx.ctx.facts.all_bodies():
                        pass
                    # the string parsed derives from AuthParams.timestamp_str whose producers are latin1_to_string / unescape_uri_encoding
                    if not cb.slice_op(ct["args"][0]).has_field("timestamp_str"):
                        okd = False
                prods = []
                for fn in ("canonical::CanonicalRequest::get_auth_parameters_from_auth_header", "canonical::CanonicalRequest::get_auth_parameters_from_query_parameters"):
                    pb = cx.ctx.facts.body(fn)
                    for abi, ai, a_s in pb.aggregates(adt=r"canonical::AuthParams$"):
                        fld = dict(zip(a_s["rv"]["fields"], a_s["rv"]["ops"]))
                        tsl = pb.slice_op(fld["timestamp_str"])
                        prods.append(tsl.has_call(r"canonical::latin1_to_string$") or tsl.has_call(r"canonical::unescape_uri_encoding$"))
                # the two producers really are Latin-1 (byte -> char casts only; no UTF-8 decoding of the bytes)
                for fn in ("canonical::latin1_to_string", "canonical::unescape_uri_encoding"):
                    pb = cx.ctx.facts.body(fn)
                    if pb.calls(r"from_utf8_lossy$|String::from_utf8$|from_utf8_unchecked$|char::from_u32$|decode_utf16|encoding::"):
                        okd = False
                    for pbi, pt in pb.calls(r"String::push$"):
                        od2 = pb.origin_def(pt["args"][1])
                        isc = od2 and od2[0] == "def" and od2[1]["kind"] == "assign" and od2[1]["stmt"]["rv"]["k"] == "cast" and "IntToInt" in od2[1]["stmt"]["rv"]["kind"]
                        src_ty = None
                        if isc:
                            pl = op_place(od2[1]["stmt"]["rv"]["op"])
                            src_ty = pb.local_ty(pl["local"]) if pl and not pl["proj"] else None
                        # `char::from(b)` is the same widening as `b as char`
                        isf = bool(od2 and od2[0] == "def" and od2[1]["kind"] == "call" and re.search(r"<char as std::convert::From<u8>>::from$|impl std::convert::From<u8> for char>::from$", od2[1]["term"].get("resolved_full", "")))
                        if not ((isc and src_ty == "u8") or isf):
                            okd = False
                    if pb.calls(r"String::push_str$|String::from$|Extend::extend$|String::insert\w*$"):
                        okd = False
                if okd and prods and all(prods):
                    return ("regex-group+caller-domain", "`\\d{4}` is Unicode-aware, but every caller passes a Latin-1 string (latin1_to_string / unescape_uri_encoding), which contains no decimal digit other than 0-9; four ASCII digits fit %s" % ity)
        return None
    if re.search(r"hmac::Mac::new_from_slice$|KeyInit::new_from_slice$", oc) and "hmac::HmacCore" in ofull:
        return ("hmac-any-key-len", "Hmac::new_from_slice accepts keys of any length")
    if re.search(r"^regex::Regex::new$", oc):
        pat = const_str_of(b, ot["args"][0])[0]
        if isinstance(pat, str) and regexhelp.facts_for_patterns([pat])[0]["parse_ok"]:
            return ("regex-literal-valid", "pattern literal parses with the linked regex-syntax")
        return None
    if re.search(r"io::Write::write_fmt$", oc) and "<std::vec::Vec<u8> as std::io::Write>" in ofull:
        return ("infallible-writer", "io::Write for Vec<u8> never fails")
    if re.search(r"convert::(TryInto::try_into|TryFrom::try_from)$", oc):
        m = re.search(r"(TryInto|TryFrom)<&?\[u8; (\d+)\]>", ofull) or re.search(r"<\[u8; (\d+)\] as std::convert::TryFrom", ofull)
        n = cx.static_len(ot["args"][0])
        want = int(m.group(m.lastindex)) if m else None
        if n is not None and want is not None and n == want:
            return ("array-len-types", "slice of a %d-byte array converted to [u8; %d]: lengths equal by type" % (n, want))
        return None
    if re.search(r"fmt::Write::write_fmt$", oc) and "<std::string::String as std::fmt::Write>" in ofull:
        return ("infallible-writer", "fmt::Write for String never fails")
    if re.search(r"Builder::build$", oc) and ot.get("resolved_local"):
        return d_builder(cx, bi, od[1])
    if re.search(r"from_utf8$", oc):
        return d_ascii_buffer(cx, ot)
    if re.search(r"Option::<T>::map$", oc):
        inner = b.origin_def(ot["args"][0])
        if inner and inner[0] == "def" and inner[1]["kind"] == "call" and re.search(r"str>::split_once$", inner[1]["term"]["callee"]):
            return d_caller_dom(cx, inner[1]["term"])
    if re.search(r"str>::split_once$", oc):
        return d_caller_dom(cx, ot)
    if re.search(r"HashMap::<K, V, S, A>::get$", oc):
        # Option from a lookup: accumulator idiom `if x.is_none() { push }`
        acc, f = acc_of(b)
        if acc is not None and ok_guarded_by_empty(b, acc, bi):
            for nb, nt in b.calls(r"Option::<T>::is_none$"):
                if root_local(b, nt["args"][0]) == ot["dest"]["local"] or ot["dest"]["local"] in b.slice_op(nt["args"][0]).locals:
                    a, ts, fs = switch_on_call(b, nb)
                    if ts is not None and edge_must_push(b, f, ts):
                        return ("acc-implies-set", "is_none() pushes a complaint; this site runs only when the complaint list is empty")
    return None


def d_builder(cx, bi, d):
    """builder.build().expect(..): every required field's setter was called on every path."""
    b = cx.b
    t = d["term"]
    btype = t["callee"].rsplit("::", 1)[0]
    target = btype[:-len("Builder")] if btype.endswith("Builder") else None
    adt = cx.ctx.facts.adts.get(target)
    if adt is None:
        return None
    # required fields: those whose build() body has an Err(UninitializedField) exit
    bb = cx.ctx.facts.body(t["resolved"])
    required = set()
    fieldnames = [f["name"] for v_ in adt["variants"] for f in v_["fields"]]
    # build() may fail only for an unset required field: every Err it can return is an UninitializedFieldError("field")
    for ebi, i, es in result_aggs(bb, "Err"):
        esl = bb.slice_op(es["rv"]["ops"][0])
        src = esl.find_calls(r"convert::From::from$", r"derive_builder::UninitializedFieldError as std::convert::From<&'static str>")
        names = [const_value(op_const(x[1]["args"][0]) or {}) for x in src]
        if not src or any(n not in fieldnames for n in names) or [c for c in esl.callee_names() if not re.search(r"convert::(From::from|Into::into)$", c)]:
            return None
        required |= set(names)
    if bb.calls(r"FromResidual::from_residual$|Try::branch$") or [c for c in bb.calls() if c[1].get("resolved_local") and not re.search(r"Clone::clone$|Default::default$", c[1]["callee"])]:
        return None  # a validate()/custom step can fail too
    bl = root_local(b, t["args"][0])
    pts = b.pointees()
    setters = {}
    for sb, st in b.calls("^" + re.escape(btype) + r"::\w+$"):
        nm = st["callee"].split("::")[-1]
        if nm != "build":
            setters.setdefault(nm, []).append(sb)
    missing = []
    for f in sorted(required):
        if any(b.dominates(sb, d["block"]) for sb in setters.get(f, [])):
            continue
        # set in a producer function whose Ok implies the setter (accumulator idiom): builder comes from a field of a parameter
        prods = []
        if b.slice_op(t["args"][0]).has_field("builder"):
            for fn in ("canonical::CanonicalRequest::get_auth_parameters_from_auth_header", "canonical::CanonicalRequest::get_auth_parameters_from_query_parameters"):
                pb = cx.ctx.facts.body(fn)
                acc, af = acc_of(pb)
                sbs = {sb for sb, st in pb.calls("^" + re.escape(btype) + "::" + f + "$")}
                ags = pb.aggregates(adt=r"canonical::AuthParams$")
                okp = acc is not None and sbs and ags and all(tb not in pb._reachable_from(0, avoid=sbs | set(af["pushes"])) for tb, _ in af["tests"]) and ok_guarded_by_empty(pb, acc, ags[0][0])
                prods.append(bool(okp))
        if prods and all(prods):
            continue
        missing.append(f)
    if not required:
        return None
    if missing:
        return None
    return ("acc-implies-set", "required fields %s are all set before build() (directly, or in both producers under the complaint-accumulator idiom)" % sorted(required))


def d_ascii_buffer(cx, from_utf8_term):
    import c09

    res = list(c09.r1(cx.ctx)) + list(c09.r2(cx.ctx))
    bad = [r for r in res if r.status != "PASS"]
    if cx.b.path == "canonical::normalize_uri_element" and not bad:
        return ("ascii-only-buffer", "every byte written to the buffer is an unreserved ASCII byte, '%', an upper-case hex digit or \"%20\" (C09-R1/R2 hold): from_utf8 cannot fail")
    return None


def d_caller_dom(cx, split_once_term):
    b = cx.b
    if not b.path.endswith("get_string_to_sign"):
        return None
    sep = const_value(op_const(split_once_term["args"][1]) or {})
    if sep != ord("/") or not b.slice_op(split_once_term["args"][0]).has_call(r"SigV4Authenticator::credential$"):
        return None
    callers = cx.ctx.facts.callers_of(r"SigV4Authenticator::get_string_to_sign$")
    if not callers:
        return None
    for cb, cbi, ct in callers:
        pv = cb.calls(r"SigV4Authenticator::prevalidate$")
        if not pv:
            return None
        cont = cb.try_continue_block(pv[0][0])
        if cont is None or not cb.dominates(cont, cbi):
            return None
        if root_local(cb, pv[0][1]["args"][0]) != root_local(cb, ct["args"][0]) and not (set(cb.slice_op(pv[0][1]["args"][0]).locals) & set(cb.slice_op(ct["args"][0]).locals)):
            return None
    return ("caller-dom(prevalidate)", "every in-crate caller runs prevalidate(..)? on the same authenticator first: the credential has five '/'-separated parts, so split_once('/') is Some (observation O6 for the `unstable` feature)")


_C06 = {}


def c06_holds(cx):
    # cached on the fact base itself (an id()-keyed table would hand a recycled id the verdict of another tree)
    f = cx.ctx.facts
    if getattr(f, "_c06_holds", None) is None:
        import c06
        from registry import Ctx

        res = list(c06.r3(Ctx(f, None, "quick", cx.ctx.repo)))
        f._c06_holds = all(r.status == "PASS" for r in res)
    return f._c06_holds


def d_call(cx, bi, t):
    b = cx.b
    c = t["callee"]
    if b.path in ("<signing_key::KSecretKey as std::convert::AsRef<[u8]>>::as_ref", "<signing_key::KSecretKey<M> as std::str::FromStr>::from_str") and re.search(r"ops::Index(Mut)?::index(_mut)?$|copy_from_slice$|split_at_mut$", c):
        r0 = d_index(cx, bi, t) if "index" in c else d_copy(cx, bi, t) if "copy" in c else None
        if r0:
            return r0
        if c06_holds(cx):
            return ("type-invariant(KSecretKey.len)", "C06-R3 holds: equal copy lengths, 4 + len <= M on the path, and 4 <= self.len <= M is an invariant of the only constructor")
        return None
    if re.search(r"Option::<T>::(unwrap|expect)$|Result::<T, E>::(unwrap|expect|unwrap_err|expect_err)$", c):
        return d_unwrap(cx, bi, t)
    if re.search(r"ops::Index(Mut)?::index(_mut)?$", c):
        return d_index(cx, bi, t)
    if re.search(r"(copy_from_slice|clone_from_slice)$", c):
        return d_copy(cx, bi, t)
    if re.search(r"TimeDelta::(weeks|days|hours|minutes|seconds|milliseconds)$", c):
        v = const_value(op_const(b.resolve_copy(t["args"][0])) or {})
        if isinstance(v, int) and abs(v) < 10 ** 9:
            return ("const-arg-in-range", "constant argument %d is far inside chrono's range" % v)
        return None
    if re.search(r"(DateTime::<Tz>|NaiveDate|NaiveDateTime|NaiveTime)::format$", c):
        v = const_str_of(b, t["args"][1])[0]
        if isinstance(v, str) and re.fullmatch(r"(%[YmdHMS]|[TZ:\-])+", v):
            return ("chrono-format-literal", "format literal %r uses only %%Y %%m %%d %%H %%M %%S and literals: rendering cannot fail" % v)
        return None
    if re.search(r"canonical::unescape_uri_encoding$", c):
        if not query_values_normalised(cx.ctx):
            return None  # the premise of the argument below does not hold in this tree
        sl = b.slice_op(t["args"][0])
        ok = any(re.search(r"HashMap::<K, V, S, A>::get$", tt["callee"]) and b.slice_op(tt["args"][0]).has_field("query_parameters") for _, tt in sl.calls)
        extra = [x for x in sl.callee_names() if not re.search(r"HashMap::<K, V, S, A>::get$|ops::Index::index$|Deref::deref$|String::as_str$|AsRef::as_ref$|Option::<T>::expect$", x)]
        if ok and not extra:
            return ("encoded-domain", "argument is a value stored in self.query_parameters: produced by normalize_uri_element, where every '%' is followed by two hex digits")
        return None
    if re.search(r"Vec::<T, A>::remove$", c):
        lin = cx.lin
        xf = lin.form(t["args"][1])
        ln = {"len(%s)" % lin.root_key(t["args"][0]): 1, 1: 0}
        if xf is not None and entails(cx.stable_facts(bi), lf_add(lf_add(xf, lf_const(1)), ln, -1)):
            return ("loop-bound", "remove(%s) with index < length on every path here" % lf_str(xf))
        return None
    if re.search(r"Vec::<T, A>::drain$", c):
        # drain(lo..hi) panics unless lo <= hi <= len (for `lo..=hi`: hi_exclusive = hi + 1; hi < len also rules out usize::MAX)
        rf = range_forms(cx, t["args"][1])
        if rf is not None:
            lo, hi = rf
            ln = {"len(%s)" % cx.lin.root_key(t["args"][0]): 1, 1: 0}
            fc = cx.stable_facts(bi)
            if entails(fc, lf_add(lo, hi, -1)) and entails(fc, lf_add(hi, ln, -1)):
                return ("loop-bound", "drain(%s .. %s) with start <= end <= length on every path here" % (lf_str(lo), lf_str(hi)))
        return None
    if re.search(r"String::truncate$", c):
        gs, sl = cx.group_of(t["args"][0])
        g = cx.iso().get(list(gs)[0]) if len(gs) == 1 else None
        pushes = [d for l in b.pointees()[op_local(t["args"][0])] for d in b.defs().get(l, []) if d["kind"] == "mutcall" and re.search(r"String::push(_str)?$", d["term"]["callee"])]
        ascii_pushes = all(isinstance(const_value(op_const(d["term"]["args"][1]) or {}), int) and const_value(op_const(d["term"]["args"][1])) < 128 for d in pushes)
        if g and g["ascii_only"] and ascii_pushes:
            return ("regex-group-ascii", "the string is an ASCII-only capture group (plus ASCII padding): every index is a char boundary")
        return None
    if re.search(r"str>::split_at$", c):
        gs, sl = cx.group_of(t["args"][0])
        g = cx.iso().get("offset") if gs == {"offset"} else None
        k = const_value(op_const(t["args"][1]) or {})
        if g and g["finite"] and g["ascii_only"] and isinstance(k, int):
            lens = {len(s.replace(":", "")) for s in g["language"] if s != "Z"}
            # guarded by the offset != "Z" branch and (for hm) applied to the 4-char remainder
            if lens == {5} and k <= 4:
                return ("regex-group-ascii", "offset text is ASCII of length 5 after removing ':' (finite language enumerated): split_at(%d) is in range and on a char boundary" % k)
        return None
    if re.search(r"^core::panicking::", c):
        return d_panic_call(cx, bi, t)
    return None


def query_values_normalised(ctx):
    """Premise of the `encoded-domain` discharge: every value query_string_to_normalized_map stores is the `?` result of
    normalize_query_string_element, as it is (one source per String local on the way, nothing else producing a String):
    a value kept `as presented` for some key (`X-Amz-Signature`) can hold a malformed escape, on which a later
    unescape_uri_encoding panics."""
    if hasattr(ctx.facts, "_qvn"):
        return ctx.facts._qvn  # cached on the fact base itself (an id()-keyed table outlives the object it was made for)
    ok = True
    try:
        b = ctx.fn("canonical::query_string_to_normalized_map")
        stop = lambda t_: bool(re.search(r"canonical::normalize_query_string_element$", t_.get("callee", "")))
        sites = [(bi, t) for bi, t in b.calls(r"Vec::<T, A>::push$|HashMap::<K, V, S, A>::insert$|Extend::extend$|Vec::<T, A>::extend_from_slice$") if re.search(r"std::string::String", " ".join(t.get("arg_tys", [])[:1]) + t.get("resolved_full", ""))]
        if not sites:
            ok = False
        for bi, t in sites:
            sl = b.slice_op(t["args"][-1], stop_at_calls=stop)
            odd = [c_ for c_ in sl.callee_names() if not re.search(r"canonical::normalize_query_string_element$|ops::Try::branch$|Box::<T>::new_uninit$|box_assume_init_into_vec_unsafe$|slice::<impl \[T\]>::into_vec$|boxed::box_new$|convert::(From::from|Into::into)$", c_)]
            multi = [x for x in sl.locals if b.local_ty(x) == "std::string::String" and len([d for d in b.defs().get(x, []) if d["kind"] != "mutcall"]) != 1]
            if odd or multi or not sl.has_call(r"canonical::normalize_query_string_element$"):
                ok = False
    except Exception:  # anchor lost: the premise is not established
        ok = False
    ctx.facts._qvn = ok
    return ok


def range_forms(cx, operand):
    """(lo, hi_exclusive) linear forms of a usize range operand: `a..b`, `a..=b`, `..b`, `..=b`; None if not recognised
    (`a..` and `..` need the length and are not used for removals here)."""
    b, lin = cx.b, cx.lin
    od = b.origin_def(operand)
    if od and od[0] == "def" and od[1]["kind"] == "call" and re.search(r"ops::RangeInclusive::<Idx>::new$", od[1]["term"]["callee"]):
        lo, hi = lin.form(od[1]["term"]["args"][0]), lin.form(od[1]["term"]["args"][1])
        return (lo, lf_add(hi, lf_const(1))) if lo is not None and hi is not None else None
    if od and od[0] == "def" and od[1]["kind"] == "assign" and od[1]["stmt"]["rv"]["k"] == "aggregate":
        rv = od[1]["stmt"]["rv"]
        kind = str(rv.get("adt", "")).split("::")[-1]
        fs = [lin.form(o) for o in rv["ops"]]
        if any(f is None for f in fs):
            return None
        if kind == "Range" and len(fs) == 2:
            return fs[0], fs[1]
        if kind == "RangeTo" and len(fs) == 1:
            return lf_const(0), fs[0]
        if kind == "RangeToInclusive" and len(fs) == 1:
            return lf_const(0), lf_add(fs[0], lf_const(1))
    return None


def lower_bound_invariant(cx, local, bound):
    """Inductive check that integer local >= bound at every definition: constants >= bound, `l + k` (k >= 0), and
    `l - k` only under a stable path fact l >= bound + k."""
    b, lin = cx.b, cx.lin
    sym = "L%d" % local
    for d in b.defs().get(local, []):
        if d["kind"] != "assign":
            return False
        rv = d["stmt"]["rv"]
        if rv["k"] != "use":
            return False
        c = op_const(rv["op"])
        if c is not None:
            v = const_value(c)
            if not (isinstance(v, int) and v >= bound):
                return False
            continue
        f = lin.form(rv["op"])
        if f is None or set(k for k in f if k != 1) != {sym} or f.get(sym) != 1:
            return False
        k = f.get(1, 0)
        if k >= 0:
            continue
        goal = lf_add(lf_const(bound - k), {sym: 1, 1: 0}, -1)  # bound + |k| - l <= 0
        # facts must hold where the subtraction is computed: the block of the (checked) arithmetic
        p = op_place(rv["op"])
        srcd = b.single_def(p["local"]) if p else None
        blk = srcd["block"] if srcd else d["block"]
        if not entails(cx.stable_facts(blk), goal):
            return False
    return True


def root_never_removed(cx, vec_local):
    """Every shrinking operation on the vector is remove(idx) with idx >= 1 provable; created by collect() of a split."""
    b, lin = cx.b, cx.lin
    created = [d for d in b.defs().get(vec_local, []) if d["kind"] == "call"]
    if len(created) == 1 and re.search(r"box_assume_init_into_vec_unsafe$|slice::<impl \[T\]>::into_vec$", created[0]["term"]["callee"]):
        # stack form: `let mut v = vec![root]; .. v.push(x) .. if v.len() <= 1 { return Err } v.pop()`: created with >= 1
        # element; every pop happens where len(v) >= 2 is a stable path fact; nothing else shrinks it
        m = re.search(r"::<.*, (\d+)>$", created[0]["term"].get("resolved_full", ""))
        if not m or int(m.group(1)) < 1:
            return False
        for d in b.defs().get(vec_local, []):
            if d["kind"] != "mutcall":
                continue
            c = d["term"]["callee"]
            if re.search(r"Vec::<T, A>::(push|reserve\w*|extend\w*|insert|append)$|Extend::extend$|DerefMut::deref_mut$", c):
                continue
            if re.search(r"Vec::<T, A>::pop$", c):
                ln = {"len(%s)" % lin.root_key(d["term"]["args"][0]): 1, 1: 0}
                if not entails(cx.stable_facts(d["block"]), lf_add(lf_const(2), ln, -1)):  # 2 - len <= 0
                    return False
                continue
            return False
        return True
    if len(created) != 1 or not re.search(r"Iterator::collect$", created[0]["term"]["callee"]) or not b.slice_op(created[0]["term"]["args"][0]).has_call(r"str>::split$"):
        return False
    for d in b.defs().get(vec_local, []):
        if d["kind"] != "mutcall":
            continue
        c = d["term"]["callee"]
        if re.search(r"Vec::<T, A>::(clear|truncate|pop|retain\w*|swap_remove|split_off|dedup\w*)$", c):
            return False
        if re.search(r"Vec::<T, A>::(remove|drain)$", c):
            if c.endswith("drain"):
                rf = range_forms(cx, d["term"]["args"][1])
                f = rf[0] if rf else None  # the lowest index removed
            else:
                f = lin.form(d["term"]["args"][1])
            if f is None:
                return False
            syms = [k for k in f if k != 1]
            if len(syms) != 1 or not re.match(r"^L\d+$", str(syms[0])) or f[syms[0]] != 1:
                return False
            l = int(syms[0][1:])
            k = f.get(1, 0)
            if k >= 0:
                if not lower_bound_invariant(cx, l, 1):
                    return False
            else:
                goal = lf_add(lf_const(1 - k), {syms[0]: 1, 1: 0}, -1)
                if not entails(cx.stable_facts(d["block"]), goal):
                    return False
    return True


def d_panic_call(cx, bi, t):
    """assert!/assert_eq! failure arms: discharged when the asserted condition is statically true."""
    b = cx.b
    # assert!(!v.is_empty()) where element 0 of a collected split is never removed
    for a, s, cnd, truth in guard_conditions(b, bi):
        if cnd["kind"] == "call" and re.search(r"Vec::<T, A>::is_empty$|slice::<impl \[T\]>::is_empty$", cnd["callee"]) and truth is True:
            v = root_local(b, cnd["term"]["args"][0])
            pts = b.pointees().get(op_local(cnd["term"]["args"][0]), set())
            for vl in ([v] + sorted(pts)):
                if vl is not None and root_never_removed(cx, vl):
                    return ("root-never-removed", "the vector starts with >= 1 element (collect() of a split / vec![root]) and every removal provably leaves element 0 (index >= 1; pop only where len >= 2): it cannot be empty")
    for a, s, cnd, truth in guard_conditions(b, bi):
        if cnd["kind"] != "binop" or cnd["op"] not in ("Eq", "Ne"):
            continue
        # failure arm is taken when Eq is false
        fail_when_equal = (cnd["op"] == "Eq") == bool(truth)
        if fail_when_equal:
            continue
        l, r = cx.lin.form(cnd["l"]), cx.lin.form(cnd["r"])

        def deref_len(o):
            od = b.origin_def(o)
            for _ in range(6):
                if od and od[0] == "place":
                    od = b.origin_def({"copy": {"local": od[1]["local"], "proj": []}})
                elif od and od[0] == "def" and od[1]["kind"] == "assign" and od[1]["stmt"]["rv"]["k"] in ("ref",):
                    od = b.origin_def({"copy": {"local": od[1]["stmt"]["rv"]["place"]["local"], "proj": []}})
                else:
                    break
            return od

        for x, y in ((cnd["l"], cnd["r"]), (cnd["r"], cnd["l"])):
            yv = None
            ody = deref_len(y)
            if ody and ody[0] == "const":
                yv = const_value(ody[1])
            elif op_const(y):
                yv = const_value(op_const(y))
            odx = deref_len(x)
            if isinstance(yv, int) and odx and odx[0] == "def" and odx[1]["kind"] == "call" and re.search(r"(slice::<impl \[T\]>::len|Vec::<T, A>::len|String::len|str>::len)$", odx[1]["term"]["callee"]):
                subj = odx[1]["term"]["args"][0]
                n = cx.static_len(subj)
                if n is not None and n == yv:
                    return ("array-len-types", "asserted length %d is the array length by type" % n)
                ssl = b.slice_op(subj)
                hd = ssl.find_calls(r"^hex::decode$")
                if hd and yv == 1:
                    rg = [a_ for a_ in b.slice_op(hd[0][1]["args"][0], int_barrier=False).aggs if a_["stmt"]["rv"].get("adt", "").endswith("ops::Range")]
                    if rg:
                        ops = rg[0]["stmt"]["rv"]["ops"]
                        s_, e_ = cx.lin.form(ops[0]), cx.lin.form(ops[1])
                        if s_ is not None and e_ is not None and lf_norm(lf_add(e_, s_, -1)) == lf_norm(lf_const(2)):
                            return ("hex-decode-len", "hex::decode of a 2-byte slice yields exactly 1 byte (trusted: hex's documented output length = input/2)")
                gs, sl = cx.group_of(subj)
                if gs == {"offset"} and sl.has_call(r"str>::replace$"):
                    g = cx.iso().get("offset")
                    lens = {len(s_.replace(":", "")) for s_ in g["language"] if s_ != "Z"} if g and g["finite"] else set()
                    if lens == {yv}:
                        return ("regex-group", "every non-Z offset the pattern admits has length %d once ':' is removed (finite language enumerated)" % yv)
    return None


def site_key(cx, bi, t, ordinals):
    b = cx.b
    bpath = b.path
    # the initialiser of a lazily initialised static is the same code whether it is written with lazy_static! or
    # std::sync::LazyLock: key it by the static
    m_ = re.match(r"^<(.*) as std::ops::Deref>::deref::__static_ref_initialize$", bpath) or re.match(r"^(.*)::\{closure#0\}$", bpath)
    if m_ and any(s_["path"] == m_.group(1) or s_["path"].startswith(m_.group(1) + "::") for s_ in cx.ctx.facts.statics):
        bpath = "<%s as std::ops::Deref>::deref::__static_ref_initialize" % m_.group(1)
    if t["k"] == "assert":
        ops = [lf_str(cx.lin.form(o) or {"?": 1}) for o in t["ops"]]
        base = "%s/%s(%s)" % (bpath, t["kind"], ", ".join(ops))
    else:
        c = t["callee"]
        short = "::".join(c.split("::")[-2:])
        det = ""
        od = b.origin_def(t["args"][0]) if t["args"] else None
        if od and od[0] == "def" and od[1]["kind"] == "call":
            oc = od[1]["term"]
            det = "<-" + oc["callee"].split("::")[-1]
            cs = [const_value(op_const(a) or {}) for a in oc["args"]]
            cs += [const_str_of(b, a)[0] for a in oc["args"]]
            cs = [str(x) for x in cs if isinstance(x, (str, int)) and len(str(x)) < 24]
            if cs:
                det += "(%s)" % ",".join(sorted(set(cs)))
        if len(t["args"]) > 1:
            v = const_value(op_const(b.resolve_copy(t["args"][1])) or {})
            if isinstance(v, int):
                det += "[%d]" % v
        base = "%s/%s%s" % (bpath, short, det)
    n = ordinals.get(base, 0)
    ordinals[base] = n + 1
    return base if n == 0 else "%s#%d" % (base, n)


@M.rule("C08-R1", "every panic-capable construct is discharged by a machine-checked guard or a reviewed row")
def r1(ctx):
    table = load_table()
    used_rows = set()
    n_sites = n_auto = n_reviewed = 0
    guards_used = {}
    exempt_sites = 0
    samples = []
    # function-level: exhaustive value-set evaluation proves all run-time checks of small pure functions
    vs_total = set()
    for fn in ("canonical::u8_to_upper_hex", "canonical::is_rfc3986_unreserved"):
        try:
            valueset.eval_u8_fn(ctx.fn(fn))
            vs_total.add(fn)
        except AnchorMissing:
            pass
    for b in ctx.facts.all_bodies():
        if b.kind not in ("Fn", "AssocFn", "Closure"):
            continue
        cx = None
        ordinals = {}
        for bi in sorted(b.live_blocks()):
            t = b.term(bi)
            is_site = t["k"] == "assert" or (t["k"] == "call" and re.search(PANIC_API, t.get("callee", "")))
            if not is_site:
                continue
            if t["k"] == "call" and t["callee"].endswith("_opt"):
                continue
            if cx is None:
                cx = SiteCx(ctx, b)
                ctx.functions.add(b.path)
            n_sites += 1
            ctx.count()
            key = site_key(cx, bi, t, ordinals)
            where = b.span_of_block(bi)
            if b.path in EXEMPT_BODIES:
                exempt_sites += 1
                continue
            if b.path in vs_total:
                n_auto += 1
                guards_used["valueset-total"] = guards_used.get("valueset-total", 0) + 1
                continue
            try:
                res = d_assert(cx, bi, t) if t["k"] == "assert" else d_call(cx, bi, t)
            except AnchorMissing:
                res = None
            if res:
                n_auto += 1
                guards_used[res[0]] = guards_used.get(res[0], 0) + 1
                if len(samples) < 60:
                    samples.append({"site": key, "where": where, "guard": res[0], "why": res[1][:200]})
                continue
            row = table.get(key)
            if row:
                used_rows.add(key)
                n_reviewed += 1
                guards_used["reviewed-only"] = guards_used.get("reviewed-only", 0) + 1
                continue
            what = t["kind"] if t["k"] == "assert" else t["callee"]
            yield VIOL("C08-R1", key, "panic-capable construct `%s` has no discharging guard (unguarded, or a new site that needs review): an input can make a public operation panic" % what, where=where)
    ctx.extra.update({"panic_sites": n_sites, "auto_discharged": n_auto, "reviewed_only": n_reviewed, "exempt_documented_panicking_body": exempt_sites, "guards_used": guards_used, "discharge_samples": samples,
                      "reviewed_rows": [{"key": k, "reason": table[k]["reason"]} for k in sorted(used_rows)]})
    if n_sites < 120:
        yield MISSING("C08-R1", "inventory/floor", "only %d panic-capable constructs found (>= 120 counted on the reviewed tree)" % n_sites)
    else:
        yield PASS("C08-R1", "inventory", "%d panic-capable constructs: %d machine-discharged %s, %d reviewed-only, %d in the documented-panicking body" % (n_sites, n_auto, guards_used, n_reviewed, exempt_sites), [s["where"] + " " + s["guard"] for s in samples[:12]])


@M.rule("C08-R2", "multimap invariant: header/query value lists are created non-empty and only grow")
def r2(ctx):
    import c10
    import c11

    res = [r for r in c10.r4(ctx) if "insert" in r.key or "store" in r.key or r.status != "PASS"] + [r for r in c11.r3(ctx) if "value-list" in r.key or "store" in r.key or "value" in r.key or r.status != "PASS"]
    for r in res:
        r.rule = "C08-R2"
        yield r
    # creation sites: or_default() is always followed by a push/extend of at least... (entry.or_default().push(v)); vec![v]
    n = 0
    for b in ctx.facts.all_bodies():
        for bi, t in b.calls(r"Entry::<'a, K, V(, A)?>::or_default$|Entry::<'a, K, V(, A)?>::or_insert_with$"):
            if "std::vec::Vec<" not in t.get("resolved_full", ""):
                continue
            n += 1
            d = t["dest"]["local"]
            grows = [(gb, gt) for gb, gt in b.calls(r"Vec::<T, A>::push$|Extend::extend$") if d in b.slice_op(gt["args"][0]).locals and b.dominates(bi, gb)]
            if not grows or not all(b.postdominates(gb, bi) for gb, gt in grows[:1]):
                yield VIOL("C08-R2", "%s/empty-value-list" % b.path, "entry(..).or_default() may leave an empty value list in the map (a later `[0]` would panic)", where=b.span_of_block(bi))
            elif re.search(r"Extend::extend$", grows[0][1]["callee"]):
                # extend(values): values is itself a value list of a multimap (non-empty by this invariant)
                src = b.slice_op(grows[0][1]["args"][1])
                if not src.has_call(r"canonical::query_string_to_normalized_map$"):
                    yield VIOL("C08-R2", "%s/extend-source" % b.path, "value list extended from something that is not a multimap value list (may be empty)", where=b.span_of_block(grows[0][0]))
                else:
                    yield PASS("C08-R2", "%s/or_default-extend" % b.path, "or_default() immediately extended with a (non-empty) value list of the body map", [site(b, grows[0][0], "extend")])
            else:
                yield PASS("C08-R2", "%s/or_default-push" % b.path, "or_default() immediately followed by push(v)", [site(b, grows[0][0], "push")])
    ctx.count(n)
    # the sibling creation idiom `map.insert(key, vec![v])` (query_string_to_normalized_map; checked by the imported
    # C10-R4 / C11-R3 insert rules above) counts towards the floor: 3 creation sites confirmed by hand on the pinned tree
    n_ins = sum(1 for b in ctx.facts.all_bodies() for bi, t in b.calls(r"HashMap::<K, V, S, A>::insert$") if re.search(r"HashMap::<std::string::String, std::vec::Vec<", t.get("resolved_full", "")))
    # third idiom (C11-R3): the list is the collect() of headers.get_all(name).iter() for a name taken from headers.keys():
    # a name the map yields has at least one value (http::HeaderMap)
    n_ins += sum(1 for b in ctx.facts.all_bodies() for bi, t in b.calls(r"Iterator::collect$") if re.search(r"^<std::iter::Map<http::header::ValueIter<.*collect::<std::vec::Vec<std::vec::Vec<u8>>>$", t.get("resolved_full", "")))
    if n + n_ins < 3:
        yield MISSING("C08-R2", "or_default/floor", "expected >= 3 value-list creation sites (entry().or_default() in normalize_headers and the form merge, insert(vec![..]) in query_string_to_normalized_map), found %d + %d" % (n, n_ins))


@M.rule("C08-R3", "header-carrier text is the header's bytes widened one by one (shared with C02-R9)")
def r_latin1(ctx):
    import c02

    for r in c02.r9(ctx):
        r.rule = "C08-R3"
        yield r
