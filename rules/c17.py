"""C17 No key material or valid signature leaks through errors, Debug/Display or logs."""
from lib import *
from registry import Module
from taint import SecretTaint, raw_field_source, KEY_TYPES, is_key_type

M = Module(
    "C17",
    "No key material / valid signature leaks",
    "Crate-wide information-flow analysis over MIR: raw key bytes (raw fields of the key types, AsRef::as_ref on them, the `raw` secret given to "
    "KSecretKey::from_str) and everything computed from them (derived keys, HMACs, the expected signature) must not reach: a formatting argument "
    "outside a log call whose level operand is log::Level::Trace; format!/write!/panic/expect messages; any SignatureError / KeyTooLongError / boxed "
    "error construction; the SigV4AuthenticatorResponse; and no function taking &mut Formatter may read a raw key field (so Debug/Display of key "
    "types print no key bytes; derived Debug on containing structs delegates to them).",
    ["what the caller's logger does with trace-level records is out of scope", "dependencies do not log their inputs", "field-insensitive propagation through calls (over-approximation: sound for leak detection)"],
)

FMT_ARG = r"^core::fmt::rt::Argument::<'_>::new_\w+$"
LOG_CALL = r"^log::__private_api::log$"
FMT_SINKS = (
    r"^std::fmt::format$", r"fmt::Write::write_fmt$", r"io::Write::write_fmt$", r"^core::panicking::\w+$", r"^std::rt::\w*panic\w*$", r"Formatter::<'a>::(write_str|write_fmt|pad|debug_\w+)$",
    r"fmt::Debug(Struct|Tuple|List|Set|Map)::<'a, 'b>::\w+$", r"fmt::(Debug|Display|LowerHex|UpperHex)::fmt$", r"(Option|Result)::<T(, E)?>::expect$", r"^std::fmt::Write::write_str$",
    r"^std::string::ToString::to_string$",
)
ERR_ADTS = (r"^error::SignatureError$", r"^error::KeyTooLongError$", r"^auth::SigV4AuthenticatorResponse$")
KEYDER_FNS = r"^(signing_key::K\w+Key(<M>)?::to_k\w+|<signing_key::K\w+Key(<M>)? as |crypto::hmac_sha256|crypto::sha256)"


def level_of_log_call(body, t, pos=2):
    od = body.origin_def(t["args"][pos])
    if od and od[0] == "def" and od[1]["kind"] == "assign" and od[1]["stmt"]["rv"]["k"] == "aggregate" and od[1]["stmt"]["rv"].get("adt") == "log::Level":
        return od[1]["stmt"]["rv"]["variant"]
    return None


@M.rule("C17-R1", "secret-derived values are formatted only into trace-level log records; never into errors or results")
def r1(ctx):
    st = SecretTaint(ctx.facts)
    total = 0
    viol = 0
    analysed = 0
    trace_logs = 0
    for body in ctx.facts.all_bodies():
        if body.kind not in ("Fn", "AssocFn", "Closure"):
            continue
        tainted = st.taint(body)
        # parameters of crate functions that are key material by type also count (e.g. helper taking &KSigningKey)
        uses = list(tainted_uses(body, tainted, raw_field_source))
        if not uses:
            continue
        analysed += 1
        ctx.functions.add(body.path)
        for kind, bi, det in uses:
            total += 1
            ctx.count()
            where = body.span_of_block(bi)
            if kind == "aggregate":
                s, idx = det
                rv = s["rv"]
                adt = rv.get("adt", "")
                if any(re.search(p, adt) for p in ERR_ADTS):
                    viol += 1
                    yield VIOL("C17-R1", "%s/secret-into-%s::%s" % (body.path, adt.split("::")[-1], rv.get("variant")), "key-derived value stored in `%s::%s`, which is returned to / printable by the caller" % (adt, rv.get("variant")), where=loc(s["span"]))
                elif adt == "std::result::Result" and rv.get("variant") == "Err":
                    viol += 1
                    yield VIOL("C17-R1", "%s/secret-into-Err" % body.path, "key-derived value returned inside Err(..)", where=loc(s["span"]))
            elif kind == "call":
                t, idx = det
                c = t.get("callee", "")
                if re.search(LOG_CALL, c):
                    lvl = level_of_log_call(body, t)
                    if lvl != "Trace":
                        viol += 1
                        yield VIOL("C17-R1", "%s/secret-logged-at-%s" % (body.path, lvl), "a log record at level %s is built from key-derived data (only trace is allowed)" % lvl, where=where)
                    else:
                        trace_logs += 1
                    continue
                if re.search(r"^log::RecordBuilder::<'a>::args$|^log::Log::log$|^log::Record::<'a>::\w+$", c):
                    # a record built by hand (`log::logger().log(&Record::builder().level(l).args(..).build())`): its level
                    # is whatever reaches RecordBuilder::level - it must be the constant Trace, not a value chosen at run time
                    lv = [level_of_log_call(body, t2, 1) for _, t2 in body.calls(r"^log::RecordBuilder::<'a>::level$")]
                    if not lv or any(x != "Trace" for x in lv):
                        viol += 1
                        yield VIOL("C17-R1", "%s/secret-logged-at-%s" % (body.path, "run-time-level" if lv else "default-level"), "a hand-built log record carries key-derived data and its level is %s (only the constant Trace is allowed)" % (sorted({str(x) for x in lv}) if lv else "RecordBuilder's default (Info)"), where=where)
                    else:
                        trace_logs += 1
                    continue
                if re.search(FMT_ARG, c) or re.search(r"^std::fmt::Arguments::<'a>::new\w*$", c):
                    continue  # judged where the Arguments value is consumed (log call / format sink)
                if any(re.search(p, c) for p in FMT_SINKS):
                    # ToString on a non-formatting type (e.g. str) is still rendering secret data into a String: only a sink when the
                    # String then reaches an error/log, which the propagation handles; so to_string itself is transparent.
                    if re.search(r"ToString::to_string$", c):
                        continue
                    viol += 1
                    yield VIOL("C17-R1", "%s/secret-formatted-by:%s" % (body.path, c.split("::")[-1]), "key-derived value rendered by `%s` outside a trace-level log call" % c, where=where)
                    continue
                r = t.get("resolved_full", "")
                if re.search(r"as std::convert::(Into|From)<std::boxed::Box<\(?dyn std::error::Error", r) or re.search(r"Box<dyn std::error::Error.*as std::convert::From", r):
                    viol += 1
                    yield VIOL("C17-R1", "%s/secret-into-boxed-error" % body.path, "key-derived value converted into a boxed error", where=where)
    if analysed < 8:
        yield MISSING("C17-R1", "taint/floor", "only %d functions handle key material (>= 8 confirmed by hand: from_str, as_ref, to_k*, hmac_sha256, validate_signature ...)" % analysed)
        return
    if viol == 0:
        yield PASS("C17-R1", "secret-flow/no-leak", "%d uses of key-derived values in %d functions: none reaches an error, result, non-trace log or formatter; %d trace-level log record(s)" % (total, analysed, trace_logs), ["functions handling key material: %d" % analysed])
    ctx.extra["c17_functions_with_key_material"] = analysed
    ctx.extra["c17_uses_examined"] = total


@M.rule("C17-R3", "formatter impls of key types (and of types containing them) never read raw key bytes; key types' Debug is hand-written")
def r3(ctx):
    n_fmt = 0
    bad = 0
    for body in ctx.facts.all_bodies():
        if body.kind not in ("AssocFn", "Fn"):
            continue
        tys = [body.local_ty(l) for l in range(1, body.arg_count + 1)]
        if not any("std::fmt::Formatter" in t for t in tys):
            continue
        n_fmt += 1
        ctx.functions.add(body.path)
        ctx.count()
        reads = []
        for bi, i, s in body.stmts():
            if s["k"] != "assign":
                continue
            ops, places = rv_operands(s["rv"])
            for p in [op_place(o) for o in ops] + places:
                if p is not None and raw_field_source(p, body):
                    reads.append(s)
        for bi, t in body.calls():
            for a in t["args"]:
                p = op_place(a)
                if p is not None and raw_field_source(p, body):
                    reads.append({"span": body.blocks[bi]["tspan"]})
            r = t.get("resolved_full", "")
            if re.search(r"as std::convert::AsRef<\[u8", r) and any(k in r for k in KEY_TYPES):
                reads.append({"span": body.blocks[bi]["tspan"]})
        if reads:
            bad += 1
            yield VIOL("C17-R3", "%s/reads-raw-key" % body.path, "a formatter implementation reads raw key bytes", where=loc(reads[0]["span"]))
    # Debug/Display impls for key types exist and are not derived
    have = {}
    for im in ctx.facts.impls:
        tr = im.get("trait", "")
        if tr in ("std::fmt::Debug", "std::fmt::Display", "std::fmt::LowerHex", "std::fmt::UpperHex", "std::fmt::Binary", "std::fmt::Pointer") and is_key_type(im["self_ty"]):
            have.setdefault(im["self_ty"], []).append((tr, im["derived"]))
            if im["derived"]:
                bad += 1
                yield VIOL("C17-R3", "derived-%s:%s" % (tr.split("::")[-1], im["self_ty"]), "`#[derive(%s)]` on key type %s prints its bytes" % (tr.split("::")[-1], im["self_ty"]), where=loc(im["span"]))
    n_handwritten = sum(1 for v in have.values() for tr, d in v if not d)
    if n_handwritten < 10:
        yield MISSING("C17-R3", "key-fmt-impls/floor", "expected >= 10 hand-written Debug/Display impls on the 5 key types, found %d" % n_handwritten)
    elif not bad:
        yield PASS("C17-R3", "key-fmt-impls", "%d formatter functions in the crate, none reads raw key bytes; %d hand-written Debug/Display impls on key types, none derived" % (n_fmt, n_handwritten), sorted(have))
    # serde / other dumping traits on key types
    for im in ctx.facts.impls:
        tr = im.get("trait", "")
        if is_key_type(im["self_ty"]) and re.search(r"(serde::|Serialize|std::hash::Hash$|std::cmp::(Partial)?Ord$)", tr):
            ctx.note("key type %s implements %s" % (im["self_ty"], tr))


@M.rule("C17-R4", "the signature-mismatch error carries a fixed message only")
def r4(ctx):
    b = ctx.co("auth::SigV4Authenticator::validate_signature")
    errs = err_sites(b, "SignatureDoesNotMatch")
    ctx.count(len(errs))
    if len(errs) != 1:
        yield VIOL("C17-R4", "validate_signature/mismatch-exit-count", "expected exactly one SignatureDoesNotMatch construction in validate_signature, found %d" % len(errs), where=loc(b.j["span"]))
        return
    sl = b.slice_op(errs[0][2]["rv"]["ops"][0])
    nonconst = [c for c in sl.callee_names() if not re.search(r"ToString::to_string$|String::from$|convert::From::from$|Into::into$|to_owned$|ToOwned::to_owned$", c)]
    if sl.params or nonconst or 1 in sl.locals:
        yield VIOL("C17-R4", "validate_signature/mismatch-message", "mismatch message is computed from run-time data (%s)" % (nonconst or "parameters"), where=b.span_of_block(errs[0][0]))
    else:
        yield PASS("C17-R4", "validate_signature/mismatch-message", "Err(SignatureDoesNotMatch(Some(<constant>.to_string())))", [site(b, errs[0][0], "Err")])


@M.rule("C17-R5", "once the signature has been verified nothing refuses the request: a presented signature known to be correct never travels in an error")
def r5(ctx):
    """The presented signature is not secret while it is unverified; after `ct_eq` said equal it *is* the correct signature
    of this request. From that point on (the equal edge in validate_signature, the success edge of
    `validate_signature(..).await?` in the entry point) only `Ok` may be reached: a later refusal - e.g. a defensive check
    whose message renders the authenticator with `{:?}` - puts a correct signature of a refused request in an error."""
    import c01

    for fn, what in (("auth::SigV4Authenticator::validate_signature", "the equal edge of the comparison"), ("signature::sigv4_validate_request", "the success edge of validate_signature(..).await?")):
        b = ctx.co(fn)
        ctx.count()
        if fn.endswith("validate_signature"):
            vg, why = c01.verdict_guard(b)
            start = None
            if vg:
                cand = [x for x in b.succ(vg["switch"]) if x == vg["ok_block"] or vg["ok_block"] in b._reachable_from(x)]
                start = cand[0] if len(cand) == 1 else None
        else:
            start = success_edge_of(b, r"SigV4Authenticator::validate_signature$")
        if start is None:
            raise AnchorMissing("%s in %s" % (what, fn))
        reach = b._reachable_from(start)
        errs = [(eb, s) for eb, i, s in result_aggs(b, "Err") if eb in reach]
        resid = [(bi, t) for bi, t in b.calls(r"FromResidual::from_residual$") if bi in reach]
        key = fn.split("::")[-1] + "/no-refusal-after-verification"
        if errs or resid:
            w = errs[0][0] if errs else resid[0][0]
            yield VIOL("C17-R5", key, "an error exit is reachable from %s (%d Err construction(s), %d `?` exit(s)): the request is refused although its signature was found correct, and whatever that error renders may include it" % (what, len(errs), len(resid)), where=b.span_of_block(w))
        else:
            yield PASS("C17-R5", key, "from %s only Ok is reachable" % what, [])


PRESENTED = r"auth::SigV4Authenticator(Builder)?\b|canonical::AuthParams\b|canonical::CanonicalRequest\b"  # CanonicalRequest's Debug dumps the headers, Authorization included


@M.rule("C17-R6", "the presented signature (and any value whose Debug prints it) is rendered at trace level only")
def r6(ctx):
    """The signature a client presents is the *correct* one whenever the request is refused for another reason (expired,
    not yet current, foreign scope) - and a future-dated request becomes acceptable minutes later. The reviewed tree
    renders it (the `signature` accessor, `{:?}` of the authenticator / its builder / AuthParams) inside trace! only; a
    debug! line explaining why a request was turned away, or an error message showing the authenticator, publishes it."""
    n = 0
    bad = 0
    for body in ctx.facts.all_bodies():
        if body.kind not in ("Fn", "AssocFn", "Closure"):
            continue
        if re.search(r"as std::fmt::(Debug|Display)>::fmt$", body.path):
            continue  # the impls themselves: what matters is where they are invoked
        seeds = set()
        for bi, t in body.calls(FMT_ARG):
            tys = " ".join(t.get("arg_tys", [])) + " " + t.get("resolved_full", "")
            sl = body.slice_op(t["args"][0])
            if re.search(PRESENTED, tys) or sl.has_call(r"SigV4Authenticator::signature$") or any(fs and fs[-1] == "signature" for _, fs in sl.fieldreads):
                seeds.add(t["dest"]["local"])
        if not seeds:
            continue
        tainted = forward_taint(body, seed_locals=seeds, int_barrier=False)
        for kind, bi, det in tainted_uses(body, tainted):
            if kind != "call":
                continue
            t, idx = det
            c = t.get("callee", "")
            where = body.span_of_block(bi)
            if re.search(LOG_CALL, c):
                n += 1
                lvl = level_of_log_call(body, t)
                if lvl != "Trace":
                    bad += 1
                    yield VIOL("C17-R6", "%s/presented-signature-logged-at-%s" % (body.path, lvl), "a log record at level %s renders the presented signature (or a value whose Debug prints it): for a request refused by another rule that is a correct signature" % lvl, where=where)
            elif re.search(r"^log::RecordBuilder::<'a>::args$|^log::Log::log$", c):
                n += 1
                lv = [level_of_log_call(body, t2, 1) for _, t2 in body.calls(r"^log::RecordBuilder::<'a>::level$")]
                if not lv or any(x != "Trace" for x in lv):
                    bad += 1
                    yield VIOL("C17-R6", "%s/presented-signature-logged-at-run-time-level" % body.path, "a hand-built log record renders the presented signature and its level is not the constant Trace", where=where)
            elif re.search(r"^std::fmt::format$|^alloc::fmt::format$|fmt::Write::write_fmt$|io::Write::write_fmt$|^core::panicking::\w+$|^std::rt::\w*panic\w*$", c):
                n += 1
                bad += 1
                yield VIOL("C17-R6", "%s/presented-signature-formatted-by:%s" % (body.path, c.split("::")[-1]), "the presented signature (or a value whose Debug prints it) is rendered into a string / message outside a trace-level log call", where=where)
    ctx.count(max(1, n))
    if n < 2:
        yield MISSING("C17-R6", "presented/floor", "only %d renderings of the presented signature found (2 counted by hand: the authenticator at trace, the mismatch line at trace)" % n)
    elif not bad:
        yield PASS("C17-R6", "presented-signature/trace-only", "%d rendering(s) of the presented signature, all inside trace-level log calls" % n, [])


KEY_EXPORTS = r"^<signing_key::K\w+Key(<M>)? as std::convert::AsRef<\[u8(; \w+)?\]>>::as_ref$"


@M.rule("C17-R7", "who may hand out raw key bytes: the key types' AsRef impls and nothing else")
def r7(ctx):
    """The redaction of C17-R3 lives in the key types' hand-written Debug / Display. A value of any other type that holds
    the bytes - `impl From<KSigningKey> for [u8; 32]`, a field `signing_key: [u8; 32]` with a derived Debug - is printed
    in full by `{:?}`. Every function that reads a raw key field and returns something that is not itself a key type is
    therefore an export point; the reviewed tree has exactly the five `AsRef<[u8]>` impls (whose results the secret-flow
    rules follow). A new one is reported."""
    st = SecretTaint(ctx.facts)
    n = 0
    bad = 0
    for body in ctx.facts.all_bodies():
        if body.kind not in ("Fn", "AssocFn"):
            continue
        reads_raw = False
        for bi, i, s in body.stmts():
            if s["k"] != "assign":
                continue
            ops, places = rv_operands(s["rv"])
            for p in [op_place(o) for o in ops] + places:
                if p is not None and raw_field_source(p, body):
                    reads_raw = True
        if not reads_raw:
            continue
        tainted = st.taint(body)
        rty = body.local_ty(0) or ""
        ret_tainted = 0 in tainted or any(s["k"] == "assign" and s["place"]["local"] == 0 and any(p is not None and raw_field_source(p, body) for p in [op_place(o) for o in rv_operands(s["rv"])[0]] + rv_operands(s["rv"])[1]) for _, _, s in body.stmts())
        if not ret_tainted:
            continue
        inner = re.sub(r"^std::result::Result<(.*), [^,]*>$", r"\1", rty)
        if is_key_type(inner) or is_key_type(rty):
            continue  # a derived key: still a redacting type
        if re.search(r"as std::fmt::(Debug|Display)>::fmt$|as std::cmp::PartialEq>::(eq|ne)$|as std::clone::Clone>::clone$", body.path):
            continue  # judged by R3 / C07-R2b; Clone returns the key type
        n += 1
        ctx.count()
        if not re.search(KEY_EXPORTS, body.path):
            bad += 1
            yield VIOL("C17-R7", "key-export/" + body.path, "`%s` reads a raw key field and returns `%s`: the bytes leave the redacting key types (a derived Debug of whatever holds them prints the key)" % (body.path, rty), where=loc(body.j["span"]))
    if n < 5 and not bad:
        yield MISSING("C17-R7", "key-export/floor", "only %d export points found (the 5 AsRef impls were counted by hand)" % n)
    elif not bad:
        yield PASS("C17-R7", "key-export/inventory", "%d functions hand out raw key bytes: the key types' AsRef impls only" % n, [])
    # ... and no crate type other than the key types has a raw byte-array field named like / fed like a key: structural
    # half - GetSigningKeyResponse.signing_key is a KSigningKey
    a = ctx.facts.adts.get("signing_key::GetSigningKeyResponse")
    if a:
        ftys = {f["name"]: f.get("ty", "") for v in a["variants"] for f in v["fields"]}
        if "signing_key" in ftys and not is_key_type(ftys["signing_key"]):
            yield VIOL("C17-R7", "response-field/signing_key", "GetSigningKeyResponse.signing_key has type `%s`, not the redacting KSigningKey: the response's derived Debug prints the key" % ftys["signing_key"], where=loc(ctx.fn("signing_key::GetSigningKeyResponse::signing_key").j["span"]))
        elif "signing_key" in ftys:
            yield PASS("C17-R7", "response-field/signing_key", "GetSigningKeyResponse.signing_key: %s" % ftys["signing_key"], [])


KEY_MAKERS = r"^signing_key::K\w+Key(<M>)?::to_k\w+$|^<signing_key::KSecretKey<M> as std::str::FromStr>::from_str$|^<signing_key::GetSigningKeyResponse as std::default::Default>::default$|^<signing_key::K\w+Key(<M>)? as std::clone::Clone>::clone$"


@M.rule("C17-R8", "secrets live in the key types only: every HMAC key is key material, and key values are made by the reviewed derivations")
def r8(ctx):
    """A second home for a secret - `enum { Standard(KSecretKey), Extended(String) }` with a derived Debug - is invisible to
    the flow rules, which start at the key types. What gives it away is its use: sooner or later it keys an HMAC. So (a)
    the key argument of every `crypto::hmac_sha256` call in the crate must come from a key type (a raw key field, AsRef on
    a key type, the provider response's signing key), and (b) values of the key types are constructed only by the
    reviewed derivation methods, from_str and the response's Default."""
    from taint import KEY_TYPES
    n = 0
    bad = 0
    for body in ctx.facts.all_bodies():
        if body.kind not in ("Fn", "AssocFn", "Closure") or body.path.startswith("crypto::"):
            continue
        for bi, t in body.calls(r"^crypto::hmac_sha256$|Mac::new_from_slice$|KeyInit::new_from_slice$"):
            n += 1
            sl = body.slice_op(t["args"][0])
            from_key = any(raw_field_source({"local": l_, "proj": [{"field": f_, "idx": 0} for f_ in fs_]}, body) for l_, fs_ in sl.fieldreads) \
                or any(is_key_type(body.local_ty(l_) or "") for l_ in sl.locals) \
                or sl.has_call(r"GetSigningKeyResponse::signing_key$")
            if not from_key:
                bad += 1
                yield VIOL("C17-R8", "%s/hmac-key-not-key-material" % body.path, "an HMAC is keyed with a value that does not come from one of the key types: the secret (or a derived key) is held in a type without the key types' redacting Debug / Display" , where=body.span_of_block(bi))
        for bi, i, s in body.stmts():
            if s["k"] == "assign" and s["rv"]["k"] == "aggregate" and any(str(s["rv"].get("adt", "")) == k_ for k_ in KEY_TYPES):
                n += 1
                if not re.search(KEY_MAKERS, re.sub(r"::\{closure#\d+\}$", "", body.path)):
                    bad += 1
                    yield VIOL("C17-R8", "%s/key-made-outside-derivations:%s" % (body.path, s["rv"]["adt"].split("::")[-1]), "a `%s` is constructed outside the reviewed derivation methods: its bytes come from somewhere the derivation and leak rules do not look" % s["rv"]["adt"].split("::")[-1], where=loc(s["span"]))
    ctx.count(max(1, n))
    if n < 6:
        yield MISSING("C17-R8", "hmac-keys/floor", "only %d HMAC calls / key constructions found (>= 6 counted by hand)" % n)
    elif not bad:
        yield PASS("C17-R8", "hmac-keys/key-material-only", "%d HMAC calls and key constructions: keys come from the key types, key values from the reviewed derivations" % n, [])
