"""C02 Completeness: structural necessary conditions for accepting spec-conformant requests on both carriers."""
from lib import *
from registry import Module
import c19

M = Module(
    "C02",
    "Completeness (necessary structural conditions)",
    "Representation-domain taint in get_auth_parameters_from_query_parameters: values read out of self.query_parameters are in the encoded "
    "domain (once-percent-encoded by normalize_uri_element); every def-use path from such a value to a decoded-domain sink (the builder's "
    "credential / session_token, AuthParams.timestamp_str, the signed-header list) must pass through the crate's decoder "
    "unescape_uri_encoding (one reviewed exemption: the signature, whose expected alphabet [0-9a-f] is unreserved). On the header carrier the "
    "values come from the raw header bytes through latin1_to_string. Carrier dispatch is total and exclusive (shared with C19-R4); the 15-minute "
    "constant, sort key and timestamp pattern are cross-referenced to C04-R1, C10-R2, C16-R1. Acceptance of every conformant request over all "
    "spellings is a round-trip fact over strings and is NOT decided.",
    ["normalize_uri_element output is the encoded domain (C09-R2)", "signature exemption: normalisation is injective on [0-9a-f]{64}"],
)

CRQ = "canonical::CanonicalRequest::"
FQ = CRQ + "get_auth_parameters_from_query_parameters"
FH = CRQ + "get_auth_parameters_from_auth_header"
DECODER = r"canonical::unescape_uri_encoding$"


def reads_query_map(b, sl):
    return any(re.search(r"HashMap::<K, V, S, A>::get$", t.get("callee", "")) and b.slice_op(t["args"][0]).has_field("query_parameters") for _, t in sl.calls) or sl.has_field("query_parameters")


PARTIAL = r"(split\w*|rsplit\w*|find|rfind|position|trim\w*|strip_\w+|truncate|pop|drain|replace\w*|to_(ascii_)?(lower|upper)case|from_utf8\w*|chars|char_indices)$|Iterator::(take|skip|filter|nth|last|step_by|take_while|skip_while)$|str>::get$|slice::<impl \[T\]>::(get|first|last|split_first|split_last)$"


@M.rule("C02-R1", "query-carrier values reach decoded-domain sinks only through the decoder")
def r1(ctx):
    b = ctx.fn(FQ)
    stop = lambda t: bool(re.search(DECODER, t.get("callee", "")))
    sinks = []
    for f in ("credential", "session_token", "signature"):
        cs = b.calls(r"SigV4AuthenticatorBuilder::%s$" % f)
        if len(cs) != 1:
            yield MISSING("C02-R1", "from_query/setter/" + f, "builder.%s(..) called %d times" % (f, len(cs)))
            continue
        sinks.append((f, cs[0][0], cs[0][1]["args"][1]))
    ag = one(b.aggregates(adt=r"canonical::AuthParams$"), "AuthParams construction in from_query")
    fields = dict(zip(ag[2]["rv"]["fields"], ag[2]["rv"]["ops"]))
    for f in ("timestamp_str", "signed_headers"):
        if f in fields:
            sinks.append((f, ag[0], fields[f]))
        else:
            yield MISSING("C02-R1", "from_query/authparams/" + f, "AuthParams has no field " + f)
    n = 0
    for name, blk, opnd in sinks:
        ctx.count()
        full = b.slice_op(opnd)
        if not reads_query_map(b, full):
            yield VIOL("C02-R1", "from_query/%s/source" % name, "`%s` does not come from the query parameters" % name, where=b.span_of_block(blk))
            continue
        restricted = b.slice_op(opnd, stop_at_calls=stop)
        undecoded = reads_query_map(b, restricted)
        # for restricted slice: the decode call itself appears in calls, but its args are not traversed
        if name == "signature":
            n += 1
            if not undecoded:
                yield PASS("C02-R1", "from_query/signature", "signature is decoded too (exemption not needed)", [site(b, blk, "signature")])
            else:
                yield PASS("C02-R1", "from_query/signature", "reviewed exemption: the signature is compared verbatim; its expected alphabet [0-9a-f] is unreserved, so encoded == decoded", [site(b, blk, "signature")])
            continue
        if undecoded:
            yield VIOL("C02-R1", "from_query/%s/not-decoded" % name, "`%s` reaches a decoded-domain sink still percent-encoded (no unescape_uri_encoding on some def-use path): e.g. '/' arrives as '%%2F'" % name, where=b.span_of_block(blk))
        elif not full.has_call(DECODER):
            yield VIOL("C02-R1", "from_query/%s/not-decoded" % name, "`%s` is not decoded" % name, where=b.span_of_block(blk))
        else:
            n += 1
            yield PASS("C02-R1", "from_query/%s/decoded" % name, "every def-use path from self.query_parameters to `%s` passes unescape_uri_encoding" % name, [site(b, blk, name)])
        if name in ("timestamp_str", "credential", "session_token"):
            part = [c_ for c_ in full.callee_names() if re.search(PARTIAL, c_)] + [t_["callee"] for _, t_ in full.calls if re.search(r"ops::Index(Mut)?::index(_mut)?$", t_["callee"]) and "Range" in t_.get("resolved_full", "")]
            if part:
                yield VIOL("C02-R1", "from_query/%s/whole-value" % name, "`%s` is not the whole decoded first value of its parameter (through %s)" % (name, sorted(set(part))), where=b.span_of_block(blk))
            else:
                yield PASS("C02-R1", "from_query/%s/whole-value" % name, "`%s` = unescape(whole first value)" % name, [site(b, blk, name)])
    # every value of the query carrier reaches its sink as the (decoded) first value itself: apart from the decoder, and
    # the split of the signed-header list at ';', nothing trims, re-cases, cuts or replaces it (an upper-cased signature
    # or a lower-cased header list is not what the client sent)
    for name, blk, opnd in sinks:
        alt = transforms(b, opnd, allow=r"canonical::unescape_uri_encoding$|Iterator::map$" + (r"|str>::split$|slice::<impl \[T\]>::sort\w*$" if name == "signed_headers" else ""), stop=r"HashMap::<K, V, S, A>::get$")
        if alt:
            yield VIOL("C02-R1", "from_query/%s/as-is" % name, "`%s` is altered between the parameter map and its use (through %s)" % (name, [c.split("::")[-1] for c in alt]), where=b.span_of_block(blk))
    if len(sinks) < 5:
        yield MISSING("C02-R1", "from_query/floor", "only %d of the 5 source->sink pairs found" % len(sinks))
    # the decoder decodes: result derives from from_str_radix(.., 16) of the two bytes after '%'
    d = ctx.fn("canonical::unescape_uri_encoding")
    ds = d.slice([0])
    radix = [t for _, t in ds.find_calls(r"from_str_radix$")]
    if not radix or const_value(op_const(d.resolve_copy(radix[0]["args"][1])) or {}) != 16:
        yield VIOL("C02-R1", "unescape_uri_encoding/hex", "decoder does not parse the escape as base-16", where=loc(d.j["span"]))
    else:
        yield PASS("C02-R1", "unescape_uri_encoding/hex", "u8::from_str_radix(two bytes after '%', 16)", [loc(d.j["span"])])




@M.rule("C02-R1h", "header-carrier values come from the raw header bytes (latin1), credential/signature/signed-headers from the like-named parameters")
def r1h(ctx):
    b = ctx.fn(FH)
    want = {"credential": b"Credential", "signature": b"Signature"}
    for f, key in want.items():
        cs = b.calls(r"SigV4AuthenticatorBuilder::%s$" % f)
        ctx.count()
        if len(cs) != 1:
            yield MISSING("C02-R1h", "from_header/setter/" + f, "builder.%s(..) called %d times" % (f, len(cs)))
            continue
        sl = b.slice_op(cs[0][1]["args"][1])
        keys = set()
        for _, t in sl.find_calls(r"HashMap::<K, V, S, A>::get$"):
            kv, c = const_str_of(b, t["args"][1])
            keys.add(kv if isinstance(kv, bytes) else (kv.encode() if isinstance(kv, str) else None))
        if keys != {key} or not sl.has_call(r"canonical::latin1_to_string$"):
            yield VIOL("C02-R1h", "from_header/%s/source" % f, "builder.%s is fed from parameter key(s) %s (expected %r via latin1_to_string)" % (f, keys, key), where=b.span_of_block(cs[0][0]))
        else:
            yield PASS("C02-R1h", "from_header/%s/source" % f, "<= latin1_to_string(parameter_map[%r])" % key, [site(b, cs[0][0], f)])
            # ... and as it is: between the parameter map and the builder nothing cuts, replaces, decodes or re-cases the text
            # (the header carrier is NOT percent-decoded: `AKID%2F2015..` is one credential part, not five)
            direct = b.slice_op(cs[0][1]["args"][1], stop_at_calls=lambda t_: bool(re.search(r"HashMap::<K, V, S, A>::get$", t_.get("callee", ""))))
            part = [c_ for c_ in direct.callee_names() if re.search(PARTIAL, c_) or re.search(r"unescape_uri_encoding$|percent|decode$", c_)]
            if part:
                yield VIOL("C02-R1h", "from_header/%s/whole-value" % f, "the `%s` parameter of the Authorization header is altered before it is used (through %s): what is checked and looked up is not what the client sent" % (key.decode(), sorted(set(x.split("::")[-1] for x in part))), where=b.span_of_block(cs[0][0]))
            else:
                yield PASS("C02-R1h", "from_header/%s/whole-value" % f, "%s = latin1_to_string(whole parameter value)" % f, [site(b, cs[0][0], f)])
    # "parameter missing" is reported exactly when the parameter is absent from the map: the push of a missing-parameter
    # message sits directly on the None edge of `parameter_map.get(..)` / `self.headers.get(..)` and on nothing else (an
    # empty `SignedHeaders=` is present: it goes on to the host rule, 403, not to IncompleteSignature, 400)
    miss = [(bi_, t_) for bi_, t_ in b.calls(r"Vec::<T, A>::push$") if "Vec<&str>" in t_.get("resolved_full", "") or "Vec::<&str>" in t_.get("resolved_full", "")]
    badm = []
    for bi_, t_ in miss:
        for a_, sx_ in sorted(b.control_deps().get(bi_, ())):
            c_ = b.cond_of_switch(a_)
            okm = False

            def lookup_result(l_, depth=0):
                """every definition of local l_ is a map lookup result (or a copy / re-wrapped payload of one): the
                desugared `a.get(x).or_else(|| a.get(y))` defines it twice"""
                if depth > 5:
                    return False
                ds_ = [d for d in b.defs().get(l_, []) if d["kind"] != "mutcall"]
                if not ds_:
                    return False
                for d in ds_:
                    if d["kind"] == "call" and re.search(r"HashMap::<K, V, S, A>::get$", d["term"]["callee"]):
                        continue
                    if d["kind"] == "assign":
                        rv_ = d["stmt"]["rv"]
                        if rv_["k"] == "use" and op_place(rv_["op"]) is not None and lookup_result(op_place(rv_["op"])["local"], depth + 1):
                            continue
                        if rv_["k"] == "aggregate" and rv_.get("variant") in ("Some", "None") and all(op_place(o) is None or lookup_result(op_place(o)["local"], depth + 1) for o in rv_["ops"]):
                            continue
                    return False
                return True

            if c_ and c_["kind"] == "discr":
                okm = lookup_result(c_["place"]["local"])
            if not okm:
                badm.append((bi_, (c_ or {}).get("callee") or (c_ or {}).get("op") or (c_ or {}).get("kind") or "?"))
    if badm:
        yield VIOL("C02-R1h", "from_header/missing-only-when-absent", "a parameter is reported as missing under a condition other than its absence from the Authorization header (%s): a present (e.g. empty) parameter is refused with the wrong error" % sorted({str(w).split("::")[-1] for _, w in badm}), where=b.span_of_block(badm[0][0]))
    elif miss:
        yield PASS("C02-R1h", "from_header/missing-only-when-absent", "%d missing-parameter messages, each on the None edge of its lookup" % len(miss), [])
    ag = one(b.aggregates(adt=r"canonical::AuthParams$"), "AuthParams construction in from_auth_header")
    fields = dict(zip(ag[2]["rv"]["fields"], ag[2]["rv"]["ops"]))
    sh = b.slice_op(fields["signed_headers"])
    keys = set()
    for _, t in sh.find_calls(r"HashMap::<K, V, S, A>::get$"):
        kv, c = const_str_of(b, t["args"][1])
        keys.add(kv)
    seps = [const_value(c) for c in sh.consts]
    if keys != {b"SignedHeaders"} or not sh.has_call(r"slice::<impl \[T\]>::split$"):
        yield VIOL("C02-R1h", "from_header/signed_headers/source", "signed-header list is fed from %s" % keys, where=loc(ag[2]["span"]))
    else:
        yield PASS("C02-R1h", "from_header/signed_headers/source", "<= parameter_map[b\"SignedHeaders\"].split(b';')", [loc(ag[2]["span"])])
        halt = transforms(b, fields["signed_headers"], allow=r"canonical::latin1_to_string$|slice::<impl \[T\]>::split$|Iterator::map$|slice::<impl \[T\]>::sort\w*$", stop=r"HashMap::<K, V, S, A>::get$")
        if halt:
            yield VIOL("C02-R1h", "from_header/signed_headers/as-is", "the signed-header names are altered between the SignedHeaders parameter and the list that is enforced and rendered (through %s)" % [c.split("::")[-1] for c in halt], where=loc(ag[2]["span"]))
    ts = b.slice_op(fields["timestamp_str"])
    tkeys = set()
    for _, t in ts.find_calls(r"HashMap::<K, V, S, A>::get$"):
        kv, c = const_str_of(b, t["args"][1])
        tkeys.add(kv)
    if tkeys != {"x-amz-date", "date"} or not ts.reads_field("headers"):
        yield VIOL("C02-R1h", "from_header/timestamp/source", "timestamp is read from %s" % sorted(tkeys, key=str), where=loc(ag[2]["span"]))
    else:
        yield PASS("C02-R1h", "from_header/timestamp/source", "<= self.headers[x-amz-date | date][0] via latin1_to_string", [loc(ag[2]["span"])])
    # the timestamp text is the WHOLE first header value: nothing cuts, trims or re-cases it before the ISO-8601 parser
    # (a decimal comma, an offset or a fraction is part of the instant)
    part = [c_ for c_ in ts.callee_names() if re.search(PARTIAL, c_)] + [t_["callee"] for _, t_ in ts.calls if re.search(r"ops::Index(Mut)?::index(_mut)?$", t_["callee"]) and "Range" in t_.get("resolved_full", "")]
    rerender = [c_ for c_ in ts.callee_names() if not re.search(r"canonical::latin1_to_string$|HashMap::<K, V, S, A>::get$|ops::Deref::deref$|ops::Index::index$|Option::<T>::(expect|unwrap|or|or_else|map|and_then|ok_or\w*|unwrap_or\w*|as_ref|as_deref|cloned|copied|is_some|is_none)$|Vec::<T, A>::(first|get|as_slice)$|slice::<impl \[T\]>::(first|get)$|Clone::clone$|AsRef::as_ref$|Borrow::borrow$|ops::Try::branch$|FromResidual::from_residual$|String::(as_str|new|with_capacity)$|convert::(From::from|Into::into)$|Default::default$|mem::(take|replace|swap)$", c_) and not re.search(PARTIAL, c_)]
    if rerender:
        yield VIOL("C02-R1h", "from_header/timestamp/as-sent", "the date header's text is re-rendered or converted (%s) before the ISO-8601 parser sees it: another format is let in, and what is parsed is not what the client sent (an offset relabelled `Z` moves the instant and the scope date)" % sorted({c_.split("::")[-1] for c_ in rerender}), where=loc(ag[2]["span"]))
    if part or not ts.has_call(r"canonical::latin1_to_string$"):
        yield VIOL("C02-R1h", "from_header/timestamp/whole-value", "the date header value is not passed on whole (through %s): part of a well-formed timestamp (fraction after a decimal comma, offset) is cut off or altered" % (sorted(set(part)) or "something other than latin1_to_string"), where=loc(ag[2]["span"]))
    else:
        yield PASS("C02-R1h", "from_header/timestamp/whole-value", "timestamp text = latin1_to_string(whole first value)", [loc(ag[2]["span"])])
    tok = b.calls(r"SigV4AuthenticatorBuilder::session_token$")
    if len(tok) == 1:
        sl = b.slice_op(tok[0][1]["args"][1])
        k2 = {const_str_of(b, t["args"][1])[0] for _, t in sl.find_calls(r"HashMap::<K, V, S, A>::get$")}
        talt = transforms(b, tok[0][1]["args"][1], allow=r"canonical::latin1_to_string$", stop=r"HashMap::<K, V, S, A>::get$")
        if talt:
            yield VIOL("C02-R1h", "from_header/token/whole-value", "the session token header value is altered before it is handed on (through %s)" % [c.split("::")[-1] for c in talt], where=b.span_of_block(tok[0][0]))
        if k2 != {"x-amz-security-token"}:
            yield VIOL("C02-R1h", "from_header/token/source", "session token is read from %s" % k2, where=b.span_of_block(tok[0][0]))
        else:
            yield PASS("C02-R1h", "from_header/token/source", "<= self.headers[x-amz-security-token][0]", [site(b, tok[0][0], "token")])
    else:
        yield MISSING("C02-R1h", "from_header/setter/session_token", "builder.session_token called %d times" % len(tok))


@M.rule("C02-R2", "carrier dispatch is total and exclusive")
def r2(ctx):
    for r in c19.r4(ctx):
        r.rule = "C02-R2"
        yield r


@M.rule("C02-R3", "query-carrier keys are the documented X-Amz-* names; the algorithm gate compares with AWS4-HMAC-SHA256")
def r3(ctx):
    b = ctx.fn(FQ)
    keys = set()
    for _, t in b.calls(r"HashMap::<K, V, S, A>::get$"):
        kv, c = const_str_of(b, t["args"][1])
        keys.add(kv)
    want = {"X-Amz-Credential", "X-Amz-Signature", "X-Amz-SignedHeaders", "X-Amz-Date", "X-Amz-Security-Token"}
    ctx.count(len(keys))
    if keys != want:
        yield VIOL("C02-R3", "from_query/keys", "query carrier consults %s (documented: %s)" % (sorted(keys, key=str), sorted(want)), where=loc(b.j["span"]))
    else:
        yield PASS("C02-R3", "from_query/keys", "consults exactly %s" % sorted(want), [])
    # algorithm gate
    errs = err_sites(b, "MissingAuthenticationToken")
    e = one(errs, "algorithm gate exit in from_query")
    okg = False
    for a, s, c, truth in guard_conditions(b, e[0]):
        if c["kind"] == "call" and re.search(r"PartialEq::(ne|eq)$", c["callee"]):
            t = c["term"]
            vals = b.slice_op(t["args"][0]).const_values() + b.slice_op(t["args"][1]).const_values()
            alg = param_by_name(b, "query_alg")
            both = b.slice_op(t["args"][0]).locals | b.slice_op(t["args"][1]).locals
            unequal = (c["callee"].endswith("::ne")) == bool(truth)
            if "AWS4-HMAC-SHA256" in vals and alg in both and unequal:
                okg = True
    if not okg:
        yield VIOL("C02-R3", "from_query/algorithm-gate", "the X-Amz-Algorithm gate is not `query_alg != \"AWS4-HMAC-SHA256\"`", where=b.span_of_block(e[0]))
    else:
        yield PASS("C02-R3", "from_query/algorithm-gate", "rejects iff X-Amz-Algorithm != AWS4-HMAC-SHA256 (full equality)", [site(b, e[0], "gate")])
    h = ctx.fn(FH)
    errs = [x for x in err_sites(h, "IncompleteSignature") if h.slice_op(x[2]["rv"]["ops"][0]).has_const_def(r"MSG_UNSUPPORTED_ALGORITHM$")]
    e = one(errs, "algorithm gate exit in from_auth_header")
    okg = False
    for a, s, c, truth in guard_conditions(h, e[0]):
        if c["kind"] == "call" and re.search(r"PartialEq::(ne|eq)$", c["callee"]):
            t = c["term"]
            vals = h.slice_op(t["args"][0]).const_values() + h.slice_op(t["args"][1]).const_values()
            unequal = (c["callee"].endswith("::ne")) == bool(truth)
            if b"AWS4-HMAC-SHA256" in vals and unequal:
                okg = True
    if not okg:
        yield VIOL("C02-R3", "from_header/algorithm-gate", "the Authorization algorithm gate is not `algorithm != b\"AWS4-HMAC-SHA256\"`", where=h.span_of_block(e[0]))
    else:
        yield PASS("C02-R3", "from_header/algorithm-gate", "rejects iff the first word != AWS4-HMAC-SHA256 (full equality)", [site(h, e[0], "gate")])


import c09  # noqa: E402


@M.rule("C02-R4", "percent-normalisation shape: literal/escape emission rules of normalize_uri_element (shared with C09-R1/R2)")
def r4(ctx):
    for r in list(c09.r1(ctx)) + list(c09.r2(ctx)):
        r.rule = "C02-R4"
        yield r


import c12  # noqa: E402
import c03  # noqa: E402


@M.rule("C02-R5", "the request that is canonicalised is the request received: folding writes confined, only parts.uri/body rewritten (shared with C12-R2)")
def r5(ctx):
    for r in c12.r2(ctx):
        r.rule = "C02-R5"
        yield r


@M.rule("C02-R6", "a request whose scope names the server's region/service and the request's own UTC date passes the scope rule (shared with C03-R2)")
def r6(ctx):
    for r in c03.r2(ctx):
        r.rule = "C02-R6"
        yield r


@M.rule("C02-R7", "timestamp source precedence on the header carrier: X-Amz-Date, else Date (shared with C19-R3)")
def r7(ctx):
    for r in c19.r3(ctx):
        r.rule = "C02-R7"
        yield r


TRIMS = ("canonical::trim_ascii_start", "canonical::trim_ascii_end", "canonical::trim_ascii")


@M.rule("C02-R8", "the trim helpers remove exactly ASCII whitespace (u8::is_ascii_whitespace), on the side their name says")
def r8(ctx):
    """Every value of the header carrier passes through trim_ascii: what it strips is part of what the client is taken to
    have sent. A wider class (Latin-1 NBSP / NEL via char::is_whitespace, control bytes) makes `aws4_request\\xA0` equal
    to `aws4_request`; a narrower one rejects requests that were accepted."""
    for nm in TRIMS[:2]:
        b = ctx.fn(nm)
        ctx.count()
        # sibling: forward to the standard library's `<[u8]>::trim_ascii_start / _end` (stabilised since the copy was made)
        std_ = b.calls(r"^core::slice::(ascii::)?<impl \[u8\]>::%s$" % nm.split("::")[-1])
        if len(std_) == 1 and len(b.calls()) == 1:
            od_ = b.origin_def({"move": {"local": 0, "proj": []}})
            if od_ and od_[0] == "def" and od_[1].get("term") is std_[0][1] and b.origin_def(std_[0][1]["args"][0]) == ("param", 1):
                yield PASS("C02-R8", "trim/%s" % nm.split("::")[-1], "forwards to <[u8]>::%s (ASCII whitespace by definition)" % nm.split("::")[-1], [loc(b.j["span"])])
                continue
        pred = b.calls(r"^core::num::<impl u8>::is_ascii_whitespace$")
        other = [t["callee"] for bi, t in b.calls(r"::is_\w+$") if not re.search(r"is_ascii_whitespace$|is_empty$|is_some$|is_none$", t["callee"])]
        bytecmp = [s_ for _, _, s_ in b.stmts() if s_["k"] == "assign" and s_["rv"]["k"] == "binop" and s_["rv"]["op"] in ("Eq", "Ne", "Lt", "Le", "Gt", "Ge") and any((op_const(x) or {}).get("ty") in ("u8", "char") for x in (s_["rv"]["l"], s_["rv"]["r"]))]
        probs = []
        if len(pred) != 1 or other or bytecmp:
            probs.append("the stripped class is not decided by one call of u8::is_ascii_whitespace alone (other predicates: %s, byte comparisons: %d)" % (other, len(bytecmp)))
        else:
            # the tested byte is the first (start) / last (end) element; stripping continues while the predicate is TRUE
            want_end = nm.endswith("_end")
            od = b.origin_def(pred[0][1]["args"][0])
            ci = [e for e in (od[1]["proj"] if od and od[0] == "place" else []) if isinstance(e, dict) and "constindex" in e]
            if ci:
                if not (ci[0]["constindex"] == (1 if want_end else 0) and bool(ci[0].get("from_end")) == want_end):
                    probs.append("the tested byte is not the %s one" % ("last" if want_end else "first"))
            else:
                sl = b.slice_op(pred[0][1]["args"][0])
                side = sl.has_call(r"split_last$|slice::<impl \[T\]>::last$|DoubleEndedIterator::next_back$|Iterator::rev$") if want_end else sl.has_call(r"split_first$|slice::<impl \[T\]>::first$|Iterator::next$")
                if not side:
                    probs.append("the tested byte is not recognisably the %s one" % ("last" if want_end else "first"))
            a_, ts, fs = switch_on_call(b, pred[0][0])
            if a_ is None or ts is None or fs is None:
                probs.append("the predicate's result is not branched on")
            else:
                # on the false edge the function is done (no further shrinking): the loop head is not reachable again
                head_again = b.reachable(fs, pred[0][0])
                if head_again or not b.reachable(ts, pred[0][0]):
                    probs.append("stripping does not continue exactly while the byte IS whitespace")
        if 1 not in b.slice([0]).params and b.origin_def({"copy": {"local": 0, "proj": []}}) is None:
            probs.append("the result is not a sub-slice of the argument")
        if probs:
            yield VIOL("C02-R8", "trim/%s" % nm.split("::")[-1], "; ".join(probs), where=loc(b.j["span"]))
        else:
            yield PASS("C02-R8", "trim/%s" % nm.split("::")[-1], "strips while u8::is_ascii_whitespace(%s byte)" % ("last" if nm.endswith("_end") else "first"), [loc(b.j["span"])])
    b = ctx.fn(TRIMS[2])
    ctx.count()
    cs = b.calls()
    names = sorted(t["callee"].split("::")[-1] for _, t in cs)
    od = b.origin_def({"move": {"local": 0, "proj": []}})
    if names == ["trim_ascii"] and od and od[0] == "def" and od[1]["kind"] == "call" and re.search(r"^core::slice::(ascii::)?<impl \[u8\]>::trim_ascii$", od[1]["term"]["callee"]) and b.origin_def(od[1]["term"]["args"][0]) == ("param", 1):
        yield PASS("C02-R8", "trim/trim_ascii", "forwards to <[u8]>::trim_ascii", [loc(b.j["span"])])
        return
    ok = names == ["trim_ascii_end", "trim_ascii_start"] and od and od[0] == "def" and od[1]["kind"] == "call"
    if ok:
        inner = b.origin_def(od[1]["term"]["args"][0])
        ok = bool(inner and inner[0] == "def" and inner[1]["kind"] == "call" and inner[1]["term"] is not od[1]["term"] and b.origin_def(inner[1]["term"]["args"][0]) == ("param", 1))
    if not ok:
        yield VIOL("C02-R8", "trim/trim_ascii", "trim_ascii is not trim_ascii_end(trim_ascii_start(bytes)) (calls: %s)" % names, where=loc(b.j["span"]))
    else:
        yield PASS("C02-R8", "trim/trim_ascii", "trim_ascii_end(trim_ascii_start(bytes))", [loc(b.j["span"])])


@M.rule("C02-R9", "latin1_to_string widens each byte to the character of the same value: all bytes, in order, nothing decoded")
def r9(ctx):
    """Credential, signature, session token, signed-header names and the date of the header carrier all pass through this
    helper; a fast path that returns the bytes *decoded as UTF-8* when they happen to be well-formed gives U+00E9 for
    `c3 a9` where the client sent two characters: another access key is looked up, a foreign scope compares equal, and a
    non-ASCII decimal digit reaches the `\\d{4}` of the timestamp regex (whose integer conversion then panics)."""
    b = ctx.fn("canonical::latin1_to_string")
    ctx.count()
    pr = latin1_problems(b)
    if pr:
        yield VIOL("C02-R9", "latin1_to_string/byte-widening", "; ".join(pr), where=loc(b.j["span"]))
    else:
        yield PASS("C02-R9", "latin1_to_string/byte-widening", "result = each input byte `as char`, whole slice, in order", [loc(b.j["span"])])
