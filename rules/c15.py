"""C15 What is verified is what is returned: parts, body and identity pass through."""
from lib import *
from registry import Module
import c12

M = Module(
    "C15",
    "Pass-through of parts, body and identity",
    "Mutation-confinement and move-provenance rules: in from_request_parts the only definitions of places rooted at `parts` / `body` are the two "
    "folding writes (C12-R2), no &mut to them escapes to a callee, and the returned tuple moves those very locals; in sigv4_validate_request the "
    "returned parts/body are from_request_parts's outputs, which receive request.into_parts() / body.into_request_bytes(), with no intervening "
    "mutable use; the three built-in body conversions are identities; From<GetSigningKeyResponse> moves principal -> principal and session_data -> "
    "session_data of the provider's own response.",
    ["http::request::Parts move semantics; Bytes::from(Vec<u8>) preserves the bytes (documented)"],
)

FRP = "canonical::CanonicalRequest::from_request_parts"
ENTRY = "signature::sigv4_validate_request"


@M.rule("C15-R1", "parts and body are not modified outside the folding writes; no &mut escapes")
def r1(ctx):
    b = ctx.fn(FRP)
    parts, body = param_by_name(b, "parts"), param_by_name(b, "body")
    ctx.count(2)
    pts = b.pointees()
    bad = []
    for l, nm in ((parts, "parts"), (body, "body")):
        for d in b.defs().get(l, []):
            if d["kind"] == "mutcall":
                bad.append((nm, d["term"]["callee"], d["block"]))
        # &mut borrows of parts/body (or their fields) at all
        for bi, i, s in b.stmts():
            if s["k"] == "assign" and s["rv"]["k"] == "ref" and s["rv"]["mut"] and s["rv"]["place"]["local"] == l:
                bad.append((nm, "&mut borrow", bi))
    if bad:
        for nm, c, blk in bad:
            yield VIOL("C15-R1", "from_request_parts/mutable-use:%s:%s" % (nm, c.split("::")[-1]), "`%s` is handed out mutably (`%s`): it may be altered before being returned" % (nm, c), where=b.span_of_block(blk))
    else:
        yield PASS("C15-R1", "from_request_parts/no-mutable-use", "no &mut borrow of parts/body and no mutating call on them", [])
    # direct assignments: exactly parts.uri and body, both under the folding guard (delegated to C12-R2)
    for r in c12.r2(ctx):
        r.rule = "C15-R1"
        yield r


@M.rule("C15-R2", "the caller gets back the parts and body it submitted")
def r2(ctx):
    for r in c12.r3(ctx):
        if "returned" in r.key or r.status != "PASS":
            r.rule = "C15-R2"
            yield r
    e = ctx.co(ENTRY)
    oks = result_aggs(e, "Ok")
    ok = one(oks, "Ok((parts, body, response)) in the entry point")
    tup = e.origin_def(ok[2]["rv"]["ops"][0])
    ctx.count(3)
    if not (tup and tup[0] == "def" and tup[1]["kind"] == "assign" and tup[1]["stmt"]["rv"].get("tuple") and len(tup[1]["stmt"]["rv"]["ops"]) == 3):
        yield VIOL("C15-R2", "entry/returned-tuple", "the success value is not a 3-tuple built in place", where=e.span_of_block(ok[0]))
        return
    ops = tup[1]["stmt"]["rv"]["ops"]
    frp = one(e.calls(r"CanonicalRequest::from_request_parts$"), "from_request_parts call")
    names = ["parts", "body", "response"]
    idx_of = {0: "1", 1: "2"}
    for k in (0, 1):
        l = root_local(e, ops[k])
        sl = e.slice([l])
        # derives from from_request_parts' output tuple field k+1 and nothing mutates it afterwards
        fr = [fs for ll, fs in sl.fieldreads if fs and fs[-1] == idx_of[k]]
        muts = [d for d in e.defs().get(l, []) if d["kind"] == "mutcall"]
        borrows = [s for bi, i, s in e.stmts() if s["k"] == "assign" and s["rv"]["k"] == "ref" and s["rv"]["mut"] and s["rv"]["place"]["local"] == l]
        ndefs = [d for d in e.defs().get(l, []) if d["kind"] in ("assign", "call")]
        if not sl.has_call(r"CanonicalRequest::from_request_parts$") or not fr or muts or borrows or len(ndefs) != 1:
            yield VIOL("C15-R2", "entry/returned-" + names[k], "the returned %s is not exactly from_request_parts's output .%s (mutating uses: %d, definitions: %d)" % (names[k], idx_of[k], len(muts) + len(borrows), len(ndefs)), where=e.span_of_block(ok[0]))
        else:
            yield PASS("C15-R2", "entry/returned-" + names[k], "returned %s = from_request_parts(..)?.%s, never borrowed mutably" % (names[k], idx_of[k]), [site(e, ok[0], "Ok")])
    # inputs of from_request_parts: request.into_parts().0 and into_request_bytes(into_parts().1)
    a0, a1 = e.slice_op(frp[1]["args"][0]), e.slice_op(frp[1]["args"][1])
    if not (a0.has_call(r"Request::<T>::into_parts$") and not a0.has_call(r"into_request_bytes$")):
        yield VIOL("C15-R2", "entry/parts-source", "from_request_parts is not given request.into_parts().0", where=e.span_of_block(frp[0]))
    elif not (a1.has_call(r"IntoRequestBytes::into_request_bytes$") and a1.has_call(r"Request::<T>::into_parts$")):
        yield VIOL("C15-R2", "entry/body-source", "from_request_parts is not given the request body converted by into_request_bytes", where=e.span_of_block(frp[0]))
    elif [c_ for c_ in a1.callee_names() if not re.search(r"Request::<T>::into_parts$|IntoRequestBytes::into_request_bytes$|IntoFuture::into_future$|Future::poll$|future::get_context$|Pin::<Ptr>::new_unchecked$|ops::Try::branch$|FromResidual::from_residual$", c_)] or [c_ for c_ in a0.callee_names() if not re.search(r"Request::<T>::into_parts$", c_)]:
        extra_ = sorted({c_.split("::")[-1] for c_ in a1.callee_names() + a0.callee_names() if not re.search(r"Request::<T>::into_parts$|IntoRequestBytes::into_request_bytes$|IntoFuture::into_future$|Future::poll$|future::get_context$|Pin::<Ptr>::new_unchecked$|ops::Try::branch$|FromResidual::from_residual$", c_)})
        yield VIOL("C15-R2", "entry/body-source", "what from_request_parts receives is not always the submitted parts / the converted body: on some path it comes from %s (a request whose body is dropped or replaced before it is hashed and returned)" % extra_, where=e.span_of_block(frp[0]))
    else:
        # no mutation of the parts between into_parts and from_request_parts
        pl = root_local(e, frp[1]["args"][0])
        muts = [d for d in e.defs().get(pl, []) if d["kind"] == "mutcall"] + [s for bi, i, s in e.stmts() if s["k"] == "assign" and s["rv"]["k"] == "ref" and s["rv"]["mut"] and s["rv"]["place"]["local"] == pl]
        if muts:
            yield VIOL("C15-R2", "entry/parts-mutated", "the request parts are modified before canonicalisation", where=loc(e.j["span"]))
        else:
            yield PASS("C15-R2", "entry/inputs", "from_request_parts(request.into_parts().0, into_parts().1.into_request_bytes().await?, options)", [site(e, frp[0], "from_request_parts")])
    # the third component is validate_signature's result
    rs = e.slice_op(ops[2])
    if not rs.has_call(r"SigV4Authenticator::validate_signature$"):
        yield VIOL("C15-R2", "entry/returned-response", "the returned identity is not validate_signature's result", where=e.span_of_block(ok[0]))
    else:
        yield PASS("C15-R2", "entry/returned-response", "returned response <= validate_signature(..).await?", [])


@M.rule("C15-R3", "built-in body conversions are identities")
def r3(ctx):
    want = {
        "()": lambda sl, b: sl.has_call(r"bytes::Bytes::new$") and not sl.params,
        "std::vec::Vec<u8>": lambda sl, b: sl.has_call(r"convert::From::from$|convert::Into::into$") and len(sl.callee_names()) == 1,
        "bytes::Bytes": lambda sl, b: not sl.calls,
    }
    n = 0
    for ty, pred in want.items():
        cands = ctx.facts.find_bodies(r"^<%s as signature::IntoRequestBytes>::into_request_bytes::\{closure#0\}$" % re.escape(ty))
        if len(cands) != 1:
            yield MISSING("C15-R3", "into_request_bytes/" + ty, "async body of IntoRequestBytes for %s not found (%d)" % (ty, len(cands)))
            continue
        b = cands[0]
        ctx.functions.add(b.path)
        n += 1
        oks = result_aggs(b, "Ok", own_return=False)
        if len(oks) != 1 or result_aggs(b, "Err", own_return=False):
            yield VIOL("C15-R3", "into_request_bytes/%s/shape" % ty, "conversion for %s is not a single Ok(..)" % ty, where=loc(b.j["span"]))
            continue
        sl = b.slice_op(oks[0][2]["rv"]["ops"][0])
        # the value must be (derived only from) the captured self: upvar _1.0
        self_ok = ty == "()" or any(l == 1 for l, fs in sl.fieldreads)
        if not pred(sl, b) or not self_ok:
            yield VIOL("C15-R3", "into_request_bytes/%s/identity" % ty, "conversion for %s is not the identity on the bytes (calls: %s)" % (ty, sl.callee_names()), where=loc(b.j["span"]))
        else:
            yield PASS("C15-R3", "into_request_bytes/%s/identity" % ty, "Ok(%s)" % ("Bytes::new()" if ty == "()" else "Bytes::from(self)" if "Vec" in ty else "self"), [loc(b.j["span"])])
    ctx.count(n)
    # every *other* body conversion the crate offers (a new `impl IntoRequestBytes for VecDeque<u8>` / `Chain<..>` / ..)
    # is a second way for a body to come in: it must hand over the whole value by whole-value conversions only. A view of
    # a part (`Buf::chunk()` = the first contiguous piece, `as_slices().0`, an index, `take`) hashes a prefix.
    WHOLE = r"bytes::Bytes::(new|from|from_owner|copy_from_slice|from_static)$|convert::(From::from|Into::into)$|BytesMut::freeze$|Buf::copy_to_bytes$|Buf::remaining$|Vec::<T, A>::(into_boxed_slice|as_slice|from)$|String::(into_bytes|into_boxed_str)$|Cursor::<T>::into_inner$|VecDeque::<T, A>::(make_contiguous|into)$|Deref::deref$|AsRef::as_ref$|Borrow::borrow$|slice::<impl \[T\]>::to_vec$|Box::<T>::new$|pin::Pin::<\w+>::new\w*$|Box::<T, A>::pin$"
    for b in ctx.facts.find_bodies(r" as signature::IntoRequestBytes>::into_request_bytes::\{closure#0\}$"):
        ty = re.match(r"^<(.*) as signature::IntoRequestBytes>", b.path).group(1)
        if ty in want:
            continue
        ctx.functions.add(b.path)
        ctx.count()
        odd = sorted({t["callee"] for _, t in b.calls() if not re.search(WHOLE, t["callee"]) and not re.search(r"^core::future::|^std::future::|ops::Try::branch$|FromResidual::from_residual$|^std::task::|get_context$", t["callee"])})
        # helpers of the crate are followed one level
        for _, t in list(b.calls()):
            if t.get("resolved_local") and t.get("resolved") and not re.search(WHOLE, t["callee"]):
                hb = ctx.facts.find_bodies("^" + re.escape(t["resolved"]) + "$", include_absorbed=True)
                for h in hb:
                    odd += [c_ for c_ in sorted({t2["callee"] for _, t2 in h.calls()}) if not re.search(WHOLE, c_)]
                    odd = [c_ for c_ in odd if c_ != t["callee"]]
        if odd:
            yield VIOL("C15-R3", "into_request_bytes/%s/whole-value" % ty, "the body conversion for `%s` goes through %s: not (only) whole-value conversions - part of the body may be dropped before it is hashed and handed back" % (ty, [c_.split("::")[-1] for c_ in odd][:4]), where=loc(b.j["span"]))
        else:
            yield PASS("C15-R3", "into_request_bytes/%s/whole-value" % ty, "whole-value conversions only", [loc(b.j["span"])])


@M.rule("C15-R4", "principal and session data returned are the provider's")
def r4(ctx):
    f = ctx.fn("<auth::SigV4AuthenticatorResponse as std::convert::From<signing_key::GetSigningKeyResponse>>::from")
    ags = f.aggregates(adt=r"auth::SigV4AuthenticatorResponse$")
    ctx.count()
    if len(ags) != 1:
        yield VIOL("C15-R4", "from-response/shape", "conversion does not construct the response directly (%d struct literals): a builder or default may drop a field" % len(ags), where=loc(f.j["span"]))
        return
    rv = ags[0][2]["rv"]
    okk = True
    for fname, opnd in zip(rv["fields"], rv["ops"]):
        sl = f.slice_op(opnd)
        frs = {fs for l, fs in sl.fieldreads if l == 1}
        if frs != {(fname,)} or sl.calls:
            okk = False
            yield VIOL("C15-R4", "from-response/field/" + fname, "field `%s` of the success value is fed from %s of the provider's response (calls: %s)" % (fname, sorted(frs), sl.callee_names()), where=loc(ags[0][2]["span"]))
    want = {"principal", "session_data"}
    if set(rv["fields"]) != want:
        okk = False
        yield VIOL("C15-R4", "from-response/fields", "SigV4AuthenticatorResponse has fields %s (reviewed: principal, session_data)" % rv["fields"], where=loc(ags[0][2]["span"]))
    # it returns that aggregate
    if okk:
        yield PASS("C15-R4", "from-response/field-mapping", "SigV4AuthenticatorResponse { principal: r.principal, session_data: r.session_data } by move", [loc(f.j["span"])])
    # public accessors return the like-named field
    for ty in ("auth::SigV4AuthenticatorResponse", "signing_key::GetSigningKeyResponse"):
        for m in ("principal", "session_data"):
            a = ctx.fn("%s::%s" % (ty, m))
            pr_ = accessor_problems(a, m)
            if pr_:
                yield VIOL("C15-R4", "accessor/%s::%s" % (ty, m), "accessor does not hand back self.%s as stored: %s" % (m, "; ".join(pr_)), where=loc(a.j["span"]))
            else:
                yield PASS("C15-R4", "accessor/%s::%s" % (ty, m), "returns self.%s" % m, [loc(a.j["span"])])


@M.rule("C15-R5", "folded requests: the returned URI/body are the authenticated ones")
def r5(ctx):
    for r in c12.r4(ctx):
        r.rule = "C15-R5"
        yield r


GSK = "auth::SigV4Authenticator::get_signing_key"
VS = "auth::SigV4Authenticator::validate_signature"


@M.rule("C15-R6", "the provider's response travels from the provider to the success value without being edited")
def r6(ctx):
    """C15-R4 pins the conversion; this rule pins the way there: get_signing_key's Ok payload is the value the awaited
    provider future produced, moved; validate_signature's Ok payload is `.into()` of the value its awaited
    get_signing_key produced, moved (shared borrows - `response.signing_key()` - are not edits; a `session_data.clear()`,
    a rebuilt response or a principal swapped under some condition is)."""
    for fn, what in ((GSK, "the provider's response"), (VS, "get_signing_key's response")):
        b = ctx.co(fn)
        oks = result_aggs(b, "Ok")
        ctx.count(max(1, len(oks)))
        bad = []
        for ob, i, s_ in oks:
            ok, why = result_handed_on(b, s_["rv"]["ops"][0], r"future::Future::poll$")
            if not ok:
                bad.append((ob, why))
        key = "response-path/" + fn.split("::")[-1]
        if bad or not oks:
            yield VIOL("C15-R6", key, "the success value of %s is not %s as it was produced: %s" % (fn.split("::")[-1], what, bad[0][1] if bad else "no Ok result"), where=b.span_of_block(bad[0][0]) if bad else loc(b.j["span"]))
        else:
            yield PASS("C15-R6", key, "Ok payload = the awaited result's Ok value, moved%s" % (" through .into()" if fn == VS else ""), [site(b, oks[0][0], "Ok")])
