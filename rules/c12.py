"""C12 Form folding merges URL and body parameters losslessly, else hashes the body as is."""
from lib import *
from registry import Module

M = Module(
    "C12",
    "Form folding",
    "Control-dependence confinement and multimap rules over CanonicalRequest::from_request_parts: every write to query_parameters after its "
    "initial definition, the assignment to parts.uri and the re-assignment of body are control-dependent on options.url_encode_form == true and "
    "content_type == \"application/x-www-form-urlencoded\" (full equality with the constant); body parameters are merged per name by appending the "
    "body's whole value list to the URL's list (entry(name).or_default().extend(values)) - replacing, filtering or reordering a list is a "
    "violation; the payload hash is computed from the same `body` local that is returned, after its last definition; the rebuilt URI derives "
    "from the canonical path and canonicalize_query_to_string of the very map stored in the CanonicalRequest; unknown charset and strict decode "
    "failure construct InvalidBodyEncoding, the decoder is called with DecoderTrap::Strict; the charset parameter name is matched case-insensitively.",
    ["encoding crate's label table and decoders behave as documented", "content-type spelling tolerance beyond what the code does is not decided (observation O8)"],
)

FRP = "canonical::CanonicalRequest::from_request_parts"
CTC = "canonical::get_content_type_and_charset"


def folding_guards(b, blk):
    """(option guard, content-type guard): blk is unreachable from the entry once the TRUE edge of the
    `options.url_encode_form` test (resp. of `content_type == "application/x-www-form-urlencoded"`) is cut - i.e. the
    condition holds on EVERY way into blk (an `a || b` would leave another way in)."""
    opt = ct = False

    def implied_by_true(l, depth=0):
        """(opt, ct) known to hold whenever bool local l is true: l is `a && b` computed into a variable (e.g. the result of
        a predicate closure): every definition that can make it true is an equality with the form content type / a read
        of the option, and sits under the other condition."""
        if depth > 4:
            return (False, False)
        acc = None
        for d in b.defs().get(l, []):
            r = None
            if d["kind"] == "assign" and d["stmt"]["rv"]["k"] == "use":
                o = d["stmt"]["rv"]["op"]
                k = op_const(o)
                if k is not None:
                    if const_value(k) in (0, False):
                        continue  # cannot make it true
                    return (False, False)
                p_ = op_place(o)
                if p_ is not None and "url_encode_form" in place_fields(p_):
                    g = folding_guards(b, d["block"])
                    r = (True, g[1])
                elif p_ is not None and not p_["proj"]:
                    r = implied_by_true(p_["local"], depth + 1)
                    g = folding_guards(b, d["block"])
                    r = (r[0] or g[0], r[1] or g[1])
                else:
                    return (False, False)
            elif d["kind"] == "call" and re.search(r"PartialEq::eq$", d["term"]["callee"]):
                t = d["term"]
                s0, s1 = b.slice_op(t["args"][0]), b.slice_op(t["args"][1])
                isct = "application/x-www-form-urlencoded" in (s0.const_values() + s1.const_values()) and (s0.has_field("content_type") or s1.has_field("content_type"))
                g = folding_guards(b, d["block"])
                r = (g[0], g[1] or isct)
            else:
                return (False, False)
            acc = r if acc is None else (acc[0] and r[0], acc[1] and r[1])
        return acc or (False, False)

    for a in sorted(b.live_blocks()):
        c = b.cond_of_switch(a)
        if not c:
            continue
        if c["kind"] == "local" and b.local_ty(c["local"]) == "bool" and not getattr(b, "_fg_busy", False):
            for s in b.succ(a):
                tr = b.truth_of_edge(a, s)
                if tr is not None and c.get("neg"):
                    tr = not tr
                if tr is True and blk not in b.reachable_avoiding_edge(0, a, s):
                    b._fg_busy = True
                    try:
                        io, ic = implied_by_true(c["local"])
                    finally:
                        b._fg_busy = False
                    opt, ct = opt or io, ct or ic
        is_opt = (c["kind"] == "place" and "url_encode_form" in place_fields(c["place"])) or (c["kind"] == "local" and b.slice([c["local"]]).has_field("url_encode_form") and not b.slice([c["local"]]).calls)
        is_ct = False
        ne = False
        if c["kind"] == "call" and re.search(r"PartialEq::(eq|ne)$", c["callee"]):
            ne = c["callee"].endswith("::ne")
            t = c["term"]
            s0, s1 = b.slice_op(t["args"][0]), b.slice_op(t["args"][1])
            vals = s0.const_values() + s1.const_values()
            is_ct = "application/x-www-form-urlencoded" in vals and (s0.has_field("content_type") or s1.has_field("content_type"))
        if not (is_opt or is_ct):
            continue
        for s in b.succ(a):
            tr = b.truth_of_edge(a, s)
            if tr is not None and c.get("neg"):
                tr = not tr
            if tr is not None and is_ct and ne:
                tr = not tr  # `a != b` holds on the edge where the comparison is false
            if tr is True and blk not in b.reachable_avoiding_edge(0, a, s):
                if is_opt:
                    opt = True
                if is_ct:
                    ct = True
    return opt, ct


@M.rule("C12-R1", "lossless merge: body value lists are appended to the URL's lists per name")
def r1(ctx):
    b = ctx.fn(FRP)
    # the map stored in the CanonicalRequest
    ag = one(b.aggregates(adt=r"canonical::CanonicalRequest$"), "CanonicalRequest construction")
    fields = dict(zip(ag[2]["rv"]["fields"], ag[2]["rv"]["ops"]))
    qp = root_local(b, fields["query_parameters"])
    # initial definition: from query_string_to_normalized_map(parts.uri.query())
    qdefs = b.defs().get(qp, [])
    muts = [d for d in qdefs if d["kind"] == "mutcall"]
    ctx.count(len(muts))
    ok = True
    seen_entry = False
    # sibling idiom B: `match qp.get_mut(&name) { Some(list) => list.extend(values), None => { qp.insert(name, values); } }`
    idiom_b = None
    gms = [d for d in muts if re.search(r"HashMap::<K, V, S, A>::get_mut$", d["term"]["callee"])]
    inss = [d for d in muts if re.search(r"HashMap::<K, V, S, A>::insert$", d["term"]["callee"])]
    if len(gms) == 1 and len(inss) == 1 and not [d for d in muts if re.search(r"HashMap::<K, V, S, A>::entry$", d["term"]["callee"])]:
        gm, ins_ = gms[0], inss[0]
        st_ = b.term(gm["term"]["target"]) if gm["term"].get("target") is not None else None
        # the switch on the lookup's result (possibly one goto away)
        sw_ = None
        for cand in sorted(b.live_blocks()):
            t_ = b.term(cand)
            if t_["k"] == "switch":
                c_ = b.cond_of_switch(cand)
                if c_ and c_["kind"] == "discr" and c_["place"]["local"] == gm["term"]["dest"]["local"]:
                    sw_ = cand
        if sw_ is not None:
            tg = b.term(sw_)["targets"]
            some_e = [bb for v, bb in tg if v == 1]
            none_e = [bb for v, bb in tg if v == 0] or [bb for v, bb in tg if v is None]
            ik_ = root_local(b, ins_["term"]["args"][1])
            same_key = ik_ is not None and (ik_ == root_local(b, gm["term"]["args"][1]) or ik_ in b.slice_op(gm["term"]["args"][1], stop_at_calls=lambda t_: True).locals)
            vsl = b.slice_op(ins_["term"]["args"][2])
            if some_e and none_e and same_key and b.dominates(none_e[0], ins_["block"]) and not b.dominates(some_e[0], ins_["block"]) and vsl.has_call(r"canonical::query_string_to_normalized_map$"):
                idiom_b = {"gm": gm, "ins": ins_, "some": some_e[0], "none": none_e[0], "sw": sw_}
    for d in muts:
        c = d["term"]["callee"]
        if idiom_b and d is idiom_b["ins"]:
            seen_entry = True
            continue
        if re.search(r"HashMap::<K, V, S, A>::entry$", c):
            seen_entry = True
            continue
        if re.search(r"HashMap::<K, V, S, A>::(get_mut)$", c):
            continue
        if re.search(r"Extend::extend$|Vec::<T, A>::(push|extend_from_slice|append)$", c):
            continue  # growth of a value list reached through the map (checked below)
        if re.search(r"Entry::<'a, K, V(, A)?>::(or_default|or_insert_with|or_insert)$", c):
            continue
        ok = False
        yield VIOL("C12-R1", "from_request_parts/map-op:" + c.split("::")[-1], "the merged parameter map is modified by `%s`: an existing value list can be replaced, shrunk or reordered (parameters dropped)" % c, where=b.span_of_block(d["block"]))
    # direct (non-&mut-call) re-definitions of the map other than the initial one
    assigns = [d for d in qdefs if d["kind"] in ("assign", "call") and not d.get("partial")]
    init = [d for d in assigns if b.slice([qp], stop_locals=[]).has_call(r"canonical::query_string_to_normalized_map$")]
    nondecl = [d for d in assigns if not (d["kind"] == "assign" and b.slice_op(d["stmt"]["rv"].get("op", {})).has_call(r"Uri::query$"))]
    if len(assigns) != 1:
        ok = False
        yield VIOL("C12-R1", "from_request_parts/map-redefined", "query_parameters is (re)assigned %d times: the URL's parameters can be replaced wholesale" % len(assigns), where=loc(b.j["span"]))
    if not seen_entry:
        ok = False
        yield VIOL("C12-R1", "from_request_parts/no-per-name-merge", "no per-name merge (entry(name)) of the body parameters into the URL parameters", where=loc(b.j["span"]))
    # the merge appends the body's whole list to the entry of the same name
    ext = [(bi, t) for bi, t in b.calls(r"Extend::extend$") if "std::vec::Vec<std::string::String>" in t.get("resolved_full", "")]
    if len(ext) != 1:
        ok = False
        yield VIOL("C12-R1", "from_request_parts/merge-extend", "expected exactly one `value_list.extend(body_values)`, found %d" % len(ext), where=loc(b.j["span"]))
    else:
        eb, et = ext[0]
        recv = b.slice_op(et["args"][0])
        src = b.slice_op(et["args"][1])
        ent = recv.find_calls(r"HashMap::<K, V, S, A>::entry$")
        body_it = src.find_calls(r"Iterator::next$")
        probs = []
        if idiom_b:
            if not any(cb_ == idiom_b["gm"]["block"] for cb_, _ in recv.calls) or not b.dominates(idiom_b["some"], eb):
                probs.append("the receiving list is not the one found by query_parameters.get_mut(name)")
            ent = [(idiom_b["gm"]["block"], idiom_b["gm"]["term"])]
        elif not ent or qp not in b.slice_op(ent[0][1]["args"][0]).locals:
            probs.append("the receiving list is not query_parameters.entry(name)")
        if not idiom_b and not recv.has_call(r"Entry::<'a, K, V(, A)?>::or_default$|or_insert_with$"):
            probs.append("entry is not completed with or_default()")
        if not (src.has_call(r"canonical::query_string_to_normalized_map$") and not src.has_call(r"Uri::query$")):
            probs.append("the appended values are not the body map's")
        if src.has_call(r"Iterator::(filter|dedup\w*|take|skip|rev)$|Vec::<T, A>::(dedup\w*|retain|truncate|reverse)$|slice::<impl \[T\]>::(reverse|sort\w*)$"):
            probs.append("the body values are filtered/reordered before being appended")
        # key of the entry = key of the same body pair
        if ent:
            ks = b.slice_op(ent[0][1]["args"][1])
            if not ks.has_call(r"canonical::query_string_to_normalized_map$"):
                probs.append("entry key is not the body pair's name")
        # unconditional inside the loop: post-dominates the Some edge of the body iteration
        nx = [x for x in b.calls(r"Iterator::next$") if "hash_map::IntoIter" in x[1].get("resolved_full", "") or "hash_map::Iter" in x[1].get("resolved_full", "") or "hash_map::Drain" in x[1].get("resolved_full", "")]
        if nx:
            st = b.term(nx[0][1]["target"])
            some = [bb for v, bb in st["targets"] if v == 1] if st["k"] == "switch" else []
            if idiom_b:
                if not some or not b.postdominates(idiom_b["sw"], some[0]) or not b.postdominates(eb, idiom_b["some"]) or not b.postdominates(idiom_b["ins"]["block"], idiom_b["none"]):
                    probs.append("the append / insert is conditional (some body pairs are not merged)")
            elif not some or not b.postdominates(eb, some[0]):
                probs.append("the append is conditional (some body pairs are not merged)")
        else:
            probs.append("iteration over the body map not found")
        if probs:
            ok = False
            yield VIOL("C12-R1", "from_request_parts/merge-shape", "; ".join(probs), where=b.span_of_block(eb))
    # forbidden wholesale operations
    for bi, t in b.calls(r"Extend::extend$"):
        if re.search(r"^<std::collections::HashMap<", t.get("resolved_full", "")):
            ok = False
            yield VIOL("C12-R1", "from_request_parts/map-extend", "HashMap::extend replaces the URL's value list for every name that also occurs in the body", where=b.span_of_block(bi))
    # URL map is the base (URL values first, body values appended): the entry() receiver is the URL-derived map
    if ok:
        yield PASS("C12-R1", "from_request_parts/lossless-merge", "for (name, values) in body_map { query_parameters.entry(name).or_default().extend(values) }: unconditional, per name, URL list first", [site(b, ext[0][0], "extend")])


@M.rule("C12-R2", "folding is confined to url_encode_form && content-type == application/x-www-form-urlencoded")
def r2(ctx):
    b = ctx.fn(FRP)
    parts, body = param_by_name(b, "parts"), param_by_name(b, "body")
    ag = one(b.aggregates(adt=r"canonical::CanonicalRequest$"), "CanonicalRequest construction")
    fields = dict(zip(ag[2]["rv"]["fields"], ag[2]["rv"]["ops"]))
    qp = root_local(b, fields["query_parameters"])
    writes = []
    for d in b.defs().get(qp, []):
        if d["kind"] == "mutcall":
            writes.append(("query_parameters." + d["term"]["callee"].split("::")[-1], d["block"]))
    for l, nm in ((parts, "parts"), (body, "body")):
        for d in b.defs().get(l, []):
            if d["kind"] == "assign":
                writes.append((nm + "." + ".".join(place_fields(d["stmt"]["place"])) if place_fields(d["stmt"]["place"]) else nm, d["block"]))
            elif d["kind"] in ("call", "mutcall"):
                writes.append((nm + "<-" + d["term"]["callee"].split("::")[-1], d["block"]))
    ctx.count(len(writes))
    if len(writes) < 3:
        yield MISSING("C12-R2", "from_request_parts/folding-writes-floor", "expected >= 3 folding writes (query merge, parts.uri, body), found %s" % writes)
        return
    bad = []
    for nm, blk in writes:
        opt, ct = folding_guards(b, blk)
        if not (opt and ct):
            bad.append((nm, blk, opt, ct))
    for nm, blk, opt, ct in bad:
        yield VIOL("C12-R2", "from_request_parts/unguarded-write:" + nm, "`%s` is written outside the folding guard (option guard: %s, content-type guard: %s)" % (nm, opt, ct), where=b.span_of_block(blk))
    if not bad:
        yield PASS("C12-R2", "from_request_parts/folding-confined", "%d writes to query_parameters / parts / body, all control-dependent on url_encode_form && content_type == const" % len(writes), ["%s %s" % (b.span_of_block(blk), nm) for nm, blk in writes])
    # failures of the folding machinery (unknown charset, undecodable body) can only happen where folding happens: with
    # folding disabled, or for any other content type, the body is hashed verbatim and nothing about it is refused
    for eb, i_, s_ in err_sites(b, "InvalidBodyEncoding"):
        o_, c_ = folding_guards(b, eb)
        if not (o_ and c_):
            yield VIOL("C12-R2", "from_request_parts/unguarded-refusal", "an InvalidBodyEncoding refusal is reachable outside the folding guard (option guard: %s, content-type guard: %s): a request that is not folded can be refused for its charset/body" % (o_, c_), where=b.span_of_block(eb))
    # whether a form body is folded is decided by the option and the content type ALONE: every branch on the way to the
    # form decoding whose other side can still reach success (i.e. "do not fold, carry on") reads nothing but
    # options.url_encode_form and what get_content_type_and_charset made of the headers - not the method, the URI, the
    # body or its length ("for every request": a PUT or GET with a form body is folded like a POST)
    dec = b.calls(r"encoding::Encoding::decode$")
    oks = [ob for ob, _, _ in result_aggs(b, "Ok")]
    opts = param_by_name(b, "options")
    if len(dec) == 1 and oks:
        D = dec[0][0]
        extra = []
        ndec = 0
        for (a, sx) in sorted(b.guards(D)):
            alts = [x for x in b.succ(a) if x != sx]
            if not any(ob in b._reachable_from(alt, avoid={D}) for alt in alts for ob in oks):
                continue  # the other side never succeeds without decoding: a refusal, not a folding decision
            ndec += 1
            c = b.cond_of_switch(a)
            if c is None:
                extra.append((a, "a condition of unrecognised shape"))
                continue
            ops = []
            if c["kind"] == "call":
                ops = list(c["term"]["args"])
            elif c["kind"] == "binop":
                ops = [c["l"], c["r"]]
            elif c["kind"] in ("place", "discr"):
                ops = [{"copy": c["place"]}]
            elif c["kind"] == "local":
                ops = [{"copy": {"local": c["local"], "proj": []}}]
            foreign = set()
            for o in ops:
                if op_const(o) is not None:
                    continue
                sl_ = b.slice_op(o)
                for l_, fs in sl_.fieldreads:
                    if l_ == parts and fs[:1] != ("headers",):
                        foreign.add("parts." + ".".join(fs) if fs else "parts")
                    if l_ == opts and fs[:1] != ("url_encode_form",):
                        foreign.add("options." + ".".join(fs) if fs else "options")
                if body in sl_.locals:
                    foreign.add("body")
                for p_ in sl_.params:
                    if p_ not in (parts, opts, body):
                        foreign.add("parameter _%d" % p_)
                if parts in sl_.locals and not [1 for l_, fs in sl_.fieldreads if l_ == parts]:
                    foreign.add("parts")
            if foreign:
                extra.append((a, ", ".join(sorted(foreign))))
        for a, what in extra:
            yield VIOL("C12-R2", "from_request_parts/extra-folding-condition", "whether the form body is folded also depends on %s: with the option set and a form content type the body must be folded for every request" % what, where=b.span_of_block(a))
        if not extra and ndec >= 2:
            yield PASS("C12-R2", "from_request_parts/folding-conditions", "%d fold / do-not-fold decisions before the form decoding, reading only options.url_encode_form and the parsed Content-Type" % ndec, [])
        elif not extra:
            yield MISSING("C12-R2", "from_request_parts/folding-conditions", "only %d fold / do-not-fold decisions found before the form decoding (>= 2 expected: option, content type)" % ndec)
    else:
        yield MISSING("C12-R2", "from_request_parts/folding-conditions", "form decoding call / Ok result not found")
    # parts fields written: only uri
    pw = {nm for nm, _ in writes if nm.startswith("parts")}
    if pw - {"parts.uri"}:
        yield VIOL("C12-R2", "from_request_parts/parts-fields", "parts is modified beyond `uri`: %s" % sorted(pw), where=loc(b.j["span"]))
    # the content type constant compared and the emptied body
    bd = [d for d in b.defs().get(body, []) if d["kind"] == "assign"]
    if len(bd) == 1:
        sl = b.slice_op(bd[0]["stmt"]["rv"]["op"])
        empty = sl.has_const_value("") or sl.has_const_value(b"") or sl.has_call(r"bytes::Bytes::new$|Default::default$")
        if not (empty and not sl.params and len([c for c in sl.calls if not re.search(r"From::from$|Bytes::new$|Into::into$|Bytes::from_static$|Default::default$", c[1]["callee"])]) == 0):
            yield VIOL("C12-R2", "from_request_parts/folded-body", "the folded body is not the empty constant", where=loc(bd[0]["stmt"]["span"]))
        else:
            yield PASS("C12-R2", "from_request_parts/folded-body", "body = Bytes::from(\"\") when folded", [loc(bd[0]["stmt"]["span"])])


@M.rule("C12-R3", "the payload hash is over the body that is returned")
def r3(ctx):
    b = ctx.fn(FRP)
    body = param_by_name(b, "body")
    sh = one(b.calls(r"crypto::sha256_hex$"), "sha256_hex call")
    sl = b.slice_op(sh[1]["args"][0])
    ctx.count()
    direct = b.slice_op(sh[1]["args"][0], stop_locals=[body])
    extra = [c for c in direct.callee_names() if not re.search(r"AsRef::as_ref$|Deref::deref$", c)]
    if body not in sl.locals or extra:
        yield VIOL("C12-R3", "from_request_parts/hash-source", "the payload hash is not computed from the `body` local (extra: %s)" % extra, where=b.span_of_block(sh[0]))
        return
    late = [d for d in b.defs().get(body, []) if b.reachable(sh[0], d["block"]) and d["block"] != sh[0]]
    if late:
        yield VIOL("C12-R3", "from_request_parts/hash-before-emptying", "`body` is redefined after its hash was taken: the hash does not cover the body that is returned", where=b.span_of_block(late[0]["block"]))
        return
    # the returned tuple moves that same local
    oks = result_aggs(b, "Ok")
    ok = one(oks, "Ok((canonical_request, parts, body))")
    tup = b.origin_def(ok[2]["rv"]["ops"][0])
    good = False
    if tup and tup[0] == "def" and tup[1]["kind"] == "assign" and tup[1]["stmt"]["rv"].get("tuple"):
        ops = tup[1]["stmt"]["rv"]["ops"]
        good = len(ops) == 3 and root_local(b, ops[2]) == body and root_local(b, ops[1]) == param_by_name(b, "parts")
    if not good:
        yield VIOL("C12-R3", "from_request_parts/returned-body", "the returned tuple is not (canonical_request, parts, body) of the same locals", where=b.span_of_block(ok[0]))
    else:
        yield PASS("C12-R3", "from_request_parts/hash-covers-returned-body", "body_sha256 = sha256_hex(body) after body's last definition; the same local is returned", [site(b, sh[0], "sha256_hex")])
    # the body is hashed on every path (no path constructs the CanonicalRequest with another hash)
    ag = one(b.aggregates(adt=r"canonical::CanonicalRequest$"), "CanonicalRequest construction")
    fields = dict(zip(ag[2]["rv"]["fields"], ag[2]["rv"]["ops"]))
    hs = b.slice_op(fields["body_sha256"])
    srcs = [c for c in hs.callee_names() if re.search(r"sha256|HeaderMap|HashMap|get$", c)]
    if srcs != ["crypto::sha256_hex"] or not b.dominates(sh[0], ag[0]):
        yield VIOL("C12-R3", "from_request_parts/hash-alternatives", "body_sha256 may come from something other than sha256_hex(body): %s" % srcs, where=loc(ag[2]["span"]))
    else:
        yield PASS("C12-R3", "from_request_parts/hash-only-source", "body_sha256's only source is sha256_hex(body), which dominates the construction", [])


@M.rule("C12-R4", "the rebuilt URI is exactly what was authenticated")
def r4(ctx):
    b = ctx.fn(FRP)
    parts = param_by_name(b, "parts")
    ua = [d for d in b.defs().get(parts, []) if d["kind"] == "assign" and place_fields(d["stmt"]["place"]) == ["uri"]]
    u = one(ua, "assignment to parts.uri")
    sl = b.slice_op(u["stmt"]["rv"]["op"])
    ag = one(b.aggregates(adt=r"canonical::CanonicalRequest$"), "CanonicalRequest construction")
    fields = dict(zip(ag[2]["rv"]["fields"], ag[2]["rv"]["ops"]))
    qp = root_local(b, fields["query_parameters"])
    cp = root_local(b, fields["canonical_path"])
    cq = sl.find_calls(r"canonical::canonicalize_query_to_string$")
    ctx.count()
    probs = []
    if not cq or qp not in b.slice_op(cq[0][1]["args"][0]).locals:
        probs.append("query part is not canonicalize_query_to_string(&query_parameters) of the stored map")
    if cp not in sl.locals and not sl.has_call(r"canonical::canonicalize_uri_path$"):
        probs.append("path part is not the canonical path")
    if not sl.has_call(r"http::uri::Builder::path_and_query$") or not sl.has_call(r"http::uri::Builder::build$"):
        probs.append("URI not built with Uri::builder().path_and_query(..).build()")
    # the merge happens before the query is rendered
    ext = [bi for bi, t in b.calls(r"Extend::extend$") if "std::vec::Vec<std::string::String>" in t.get("resolved_full", "")]
    if cq and ext and any(b.reachable(cq[0][0], e) for e in ext):
        probs.append("the URI's query is rendered before the merge is complete")
    # between the canonical query / path and Uri::builder nothing but concatenation: the query the caller gets back is
    # the authenticated one byte for byte (un-escaping `%2B` to `+` "because RFC 3986 allows it" hands back a space)
    # (forward from the rendered query: every call it, or something derived from it, is handed to before the URI is built)
    OKC = r"String::(push|push_str|with_capacity|new|len|is_empty|as_str|reserve|clone)$|str>::(len|is_empty)$|Clone::clone$|ToString::to_string$|to_owned$|ToOwned::to_owned$|Deref::deref$|AsRef::as_ref$|Borrow::borrow$|convert::(From|Into|TryFrom|TryInto)::\w+$|http::uri::Builder::\w+$|Result::<T, E>::map_err$|ops::Try::branch$|FromResidual::from_residual$|fmt::|format$|Arguments|must_use$|ops::Add::add$|ops::AddAssign::add_assign$|log::|mem::drop$|drop_in_place"
    alt = []
    if cq:
        tainted = forward_taint(b, seed_locals=[cq[0][1]["dest"]["local"]], int_barrier=True)
        for kind_, bi_, det_ in tainted_uses(b, tainted):
            if kind_ != "call":
                continue
            t_, idx_ = det_
            if t_ is cq[0][1] or not b.reachable(cq[0][0], bi_) or not (b.reachable(bi_, u["block"]) or bi_ == u["block"]):
                continue
            if re.search(OKC, t_.get("callee", "")) or in_macro(b, bi_, ("log!", "trace!", "debug!", "format!", "format_args!")):
                continue
            alt.append(t_["callee"].split("::")[-1])
        alt = sorted(set(alt))
    if alt and not probs:
        probs.append("the canonical query / path is transformed again before it becomes the returned URI (through %s)" % alt)
    if probs:
        yield VIOL("C12-R4", "from_request_parts/rebuilt-uri", "; ".join(probs), where=loc(u["stmt"]["span"]))
    else:
        yield PASS("C12-R4", "from_request_parts/rebuilt-uri", "parts.uri <= canonical_path [+ '?' + canonicalize_query_to_string(&query_parameters)] of the very map stored in the CanonicalRequest", [loc(u["stmt"]["span"])])
    # failure to rebuild must be an error, never a silent skip: the uri assignment post-dominates the folding region entry,
    # or every path that skips it returns Err
    bdefs = [d for d in b.defs().get(param_by_name(b, "body"), []) if d["kind"] == "assign"]
    if bdefs and not b.dominates(u["block"], bdefs[0]["block"]):
        yield VIOL("C12-R4", "from_request_parts/body-emptied-without-uri", "the body can be emptied on a path where parts.uri was not rebuilt (parameters authenticated, then lost)", where=loc(bdefs[0]["stmt"]["span"]))
    elif bdefs:
        yield PASS("C12-R4", "from_request_parts/uri-before-emptying", "parts.uri assignment dominates the emptying of the body", [])
    # once the body was decoded as a form (its fields are going to be merged into the authenticated parameters), success is
    # only reachable through the rebuilt URI *and* the emptied body: no Ok with the fields authenticated but the request
    # handed back as received (hash of a non-empty body next to the folded parameters; fields counted twice downstream)
    dec = b.calls(r"encoding::Encoding::decode$")
    oks = [ob for ob, _, _ in result_aggs(b, "Ok")]
    if len(dec) == 1 and oks and bdefs:
        skip_uri = [ob for ob in oks if ob in b._reachable_from(dec[0][0], avoid={u["block"]})]
        skip_body = [ob for ob in oks if ob in b._reachable_from(dec[0][0], avoid={d["block"] for d in bdefs})]
        if skip_uri or skip_body:
            yield VIOL("C12-R4", "from_request_parts/folded-without-%s" % ("uri" if skip_uri else "emptying"), "after the form body was decoded, the success exit can be reached without %s: the fields are authenticated as query parameters while the request is returned as received" % " and without ".join((["rebuilding parts.uri"] if skip_uri else []) + (["emptying the body"] if skip_body else [])), where=b.span_of_block(dec[0][0]))
        else:
            yield PASS("C12-R4", "from_request_parts/folded-implies-rebuilt", "every path from the form decoding to Ok passes the parts.uri assignment and the emptying of the body", [])
    else:
        yield MISSING("C12-R4", "from_request_parts/folded-implies-rebuilt", "form decoding call / Ok result / body emptying not found (%d, %d, %d)" % (len(dec), len(oks), len(bdefs)))


@M.rule("C12-R5", "undecodable bodies and unknown charsets are InvalidBodyEncoding; strict decoding; charset parameter matched case-insensitively")
def r5(ctx):
    b = ctx.fn(FRP)
    ctx.count(3)
    dec = one(b.calls(r"encoding::Encoding::decode$"), "Encoding::decode call")
    trap = b.origin_def(dec[1]["args"][2])
    tv = None
    if trap and trap[0] == "def" and trap[1]["kind"] == "assign" and trap[1]["stmt"]["rv"].get("adt", "").endswith("DecoderTrap"):
        tv = trap[1]["stmt"]["rv"]["variant"]
    if tv != "Strict":
        yield VIOL("C12-R5", "from_request_parts/decoder-trap", "body is decoded with DecoderTrap::%s (lossy): undecodable bytes are not refused" % tv, where=b.span_of_block(dec[0]))
    else:
        yield PASS("C12-R5", "from_request_parts/decoder-trap", "decode(&body, DecoderTrap::Strict)", [site(b, dec[0], "decode")])
    ds = b.slice_op(dec[1]["args"][1])
    if param_by_name(b, "body") not in ds.locals:
        yield VIOL("C12-R5", "from_request_parts/decoder-input", "the decoder is not applied to the request body", where=b.span_of_block(dec[0]))
    else:
        from c02 import PARTIAL
        part = [c_ for c_ in ds.callee_names() if re.search(PARTIAL, c_)] + [t_["callee"] for _, t_ in ds.calls if re.search(r"ops::Index(Mut)?::index(_mut)?$", t_["callee"]) and "Range" in t_.get("resolved_full", "")]
        if part:
            yield VIOL("C12-R5", "from_request_parts/decoder-input-whole", "the decoder is applied to a part of the body only (through %s): bytes of the last/first parameter are dropped before folding" % sorted(set(part)), where=b.span_of_block(dec[0]))
        else:
            yield PASS("C12-R5", "from_request_parts/decoder-input-whole", "decode(&body as a whole)", [site(b, dec[0], "decode")])
    # ... and what the decoder returns is parsed as it is: nothing trims, cuts or replaces the decoded text before it is
    # split into parameters (`Marker=abc\n` is the value `abc%0A`, like in a URL)
    qs_ = [x for x in b.calls(r"canonical::query_string_to_normalized_map$") if b.dominates(dec[0], x[0]) and b.slice_op(x[1]["args"][0]).has_call(r"encoding::Encoding::decode$")]
    if len(qs_) == 1:
        from c02 import PARTIAL
        direct_ = b.slice_op(qs_[0][1]["args"][0], stop_at_calls=lambda t_: bool(re.search(r"encoding::Encoding::decode$", t_.get("callee", ""))))
        part_ = [c_ for c_ in direct_.callee_names() if re.search(PARTIAL, c_) or re.search(r"unescape_uri_encoding$|percent_decode\w*$|lines$|concat$|join$", c_)] + [t_["callee"] for _, t_ in direct_.calls if re.search(r"ops::Index(Mut)?::index(_mut)?$", t_["callee"]) and "Range" in t_.get("resolved_full", "")]
        if part_:
            yield VIOL("C12-R5", "from_request_parts/parse-input-whole", "the decoded form body is altered before it is split into parameters (through %s): body bytes are dropped from, or changed in, the folded query" % sorted(set(x.split("::")[-1] for x in part_)), where=b.span_of_block(qs_[0][0]))
        else:
            yield PASS("C12-R5", "from_request_parts/parse-input-whole", "query_string_to_normalized_map(decoded body as a whole)", [site(b, qs_[0][0], "query_string_to_normalized_map")])
    else:
        yield MISSING("C12-R5", "from_request_parts/parse-input-whole", "parse of the decoded form body not found (%d candidates)" % len(qs_))
    # Err edge of decode -> InvalidBodyEncoding ; None of encoding_from_whatwg_label -> InvalidBodyEncoding
    kinds = {}
    for eb, i, s in err_sites(b):
        direct = {a_ for a_, s_ in b.control_deps().get(eb, ())}
        for pl, vals, other, a in discr_guard_variants(b, eb):
            if a not in direct:
                continue
            sl = b.slice([pl["local"]])
            if sl.has_call(r"encoding::Encoding::decode$") and not sl.has_call(r"query_string_to_normalized_map$"):
                kinds.setdefault("decode", set()).add(s["rv"]["variant"])
            elif sl.has_call(r"encoding_from_whatwg_label$") and not sl.has_call(r"encoding::Encoding::decode$"):
                kinds.setdefault("label", set()).add(s["rv"]["variant"])
    for k in ("decode", "label"):
        if kinds.get(k) != {"InvalidBodyEncoding"}:
            yield VIOL("C12-R5", "from_request_parts/%s-failure-kind" % k, "%s failure constructs %s (must be InvalidBodyEncoding)" % (k, sorted(kinds.get(k, []))), where=loc(b.j["span"]))
        else:
            yield PASS("C12-R5", "from_request_parts/%s-failure-kind" % k, "%s failure => Err(InvalidBodyEncoding)" % k, [])
    # the encoding used is the one named by the charset, else UTF-8
    es = b.slice_op(dec[1]["args"][0])
    labels = es.find_calls(r"encoding_from_whatwg_label$")
    bodyp = param_by_name(b, "body")
    from_body = bodyp in es.locals or any(bodyp in b.slice_op(t_["args"][0]).locals for _, t_ in labels)
    if not (es.has_call(r"encoding_from_whatwg_label$") and es.has_field("charset") and es.has_const_def(r"encoding::all::UTF_8$")):
        yield VIOL("C12-R5", "from_request_parts/encoding-choice", "decoder is not encoding_from_whatwg_label(charset) with UTF-8 fallback", where=b.span_of_block(dec[0]))
    elif len({bi_ for bi_, _ in labels}) != 1 or from_body:
        yield VIOL("C12-R5", "from_request_parts/encoding-choice", "the decoder is chosen from more than the Content-Type's charset parameter (%d label look-ups%s): without a charset parameter the body must be read as UTF-8, and an unknown label must be refused, whatever the body says about itself" % (len({bi_ for bi_, _ in labels}), ", one fed from the body" if from_body else ""), where=b.span_of_block(dec[0]))
    else:
        yield PASS("C12-R5", "from_request_parts/encoding-choice", "encoding_from_whatwg_label(content_type.charset) or UTF_8", [])
    # content-type parsing: header `content-type`, option name compared lower-cased with "charset"
    c = ctx.fn(CTC)
    g = one(c.calls(r"HeaderMap::<T>::get$"), "headers.get(CONTENT_TYPE)")
    kv, _ = const_str_of(c, g[1]["args"][1])
    if kv != "content-type":
        yield VIOL("C12-R5", "content-type/header-name", "content type read from header %r" % kv, where=c.span_of_block(g[0]))
    eqs = []
    for cc in [c] + ctx.facts.find_bodies("^" + re.escape(CTC) + r"::\{closure#\d+\}"):
        eqs += [(cc, bi, t) for bi, t in cmp_calls(cc, r"PartialEq::(eq|ne)$|eq_ignore_ascii_case$") if "charset" in (cc.slice_op(t["args"][0]).const_values() + cc.slice_op(t["args"][1]).const_values())
                or b"charset" in (cc.slice_op(t["args"][0]).const_values() + cc.slice_op(t["args"][1]).const_values())]
    if len(eqs) != 1:
        yield VIOL("C12-R5", "content-type/charset-compare", "expected one comparison with \"charset\", found %d" % len(eqs), where=loc(c.j["span"]))
    else:
        c, bi, t = eqs[0]
        sls = c.slice_op(t["args"][0]), c.slice_op(t["args"][1])
        if not (any(s.has_call(r"str>::to_lowercase$|to_ascii_lowercase$|eq_ignore_ascii_case$") for s in sls) or t["callee"].endswith("eq_ignore_ascii_case")):
            yield VIOL("C12-R5", "content-type/charset-case", "the charset parameter name is compared case-sensitively (`Charset=` would be ignored and the body decoded as UTF-8)", where=c.span_of_block(bi))
        else:
            yield PASS("C12-R5", "content-type/charset-case", "parameter name lower-cased before comparison with \"charset\"", [site(c, bi, "eq")])


@M.rule("C12-R6", "Content-Type parsing: only an absent header gives None; the media type is the trimmed first ';' part widened from Latin-1; any header bytes are accepted")
def r6(ctx):
    c = ctx.fn(CTC)
    g = one(c.calls(r"HeaderMap::<T>::get$"), "headers.get(CONTENT_TYPE)")
    ctx.count(3)
    bodies = [c] + ctx.facts.find_bodies("^" + re.escape(CTC) + r"::\{closure#\d+\}")
    # (a) "no Content-Type" is reported only when the header is absent: every None / `?`-residual written to the
    # return place is controlled by the discriminant of the get() result itself and by nothing else
    nones = [bi for bi, i, s in c.aggregates(adt=r"^std::option::Option$", variant="None") if s["place"]["local"] == 0 and not s["place"]["proj"]]
    nones += [bi for bi, t in c.calls(r"FromResidual::from_residual$") if t["dest"]["local"] == 0]
    bad = []
    for nb in nones:
        okn = False
        for a, s_, cnd, truth in guard_conditions(c, nb):
            if cnd["kind"] == "discr":
                od = c.origin_def({"copy": {"local": cnd["place"]["local"], "proj": []}})
                if od and od[0] == "def" and od[1]["kind"] == "call" and re.search(r"ops::Try::branch$", od[1]["term"]["callee"]):
                    od = c.origin_def(od[1]["term"]["args"][0])  # `headers.get(CONTENT_TYPE)?`
                if od and od[0] == "def" and od[1]["kind"] == "call" and od[1]["block"] == g[0]:
                    okn = True
                    continue
            bad.append((nb, cnd))
        if not okn:
            bad.append((nb, None))
    if bad:
        yield VIOL("C12-R6", "content-type/none-only-when-absent", "get_content_type_and_charset can report \"no Content-Type\" for a request that has one (a None return depends on more than the header's absence): the form body would not be folded and an unknown charset not refused", where=c.span_of_block(bad[0][0]))
    else:
        yield PASS("C12-R6", "content-type/none-only-when-absent", "%d None return(s), each on the None edge of headers.get(\"content-type\") only" % len(nones), [site(c, x, "None") for x in nones])
    # (b) no fallible / lossy text conversion of the header bytes
    conv = [(b_, bi, t) for b_ in bodies for bi, t in b_.calls(r"HeaderValue::to_str$|str::from_utf8(_unchecked|_mut)?$|String::from_utf8(_lossy|_unchecked)?$|str::converts::from_utf8\w*$")]
    if conv:
        yield VIOL("C12-R6", "content-type/bytes-not-text", "the Content-Type value is converted with `%s`, which fails or alters bytes >= 0x80 (header values are arbitrary bytes; the parser works on Latin-1)" % conv[0][2]["callee"], where=conv[0][0].span_of_block(conv[0][1]))
    else:
        yield PASS("C12-R6", "content-type/bytes-not-text", "no UTF-8/ASCII-only conversion of the header value", [])
    # (c) the media type: first element of split(';') of the header bytes, trimmed, widened by latin1_to_string
    aggs = c.aggregates(adt=r"canonical::ContentTypeCharset$")
    if not aggs:
        raise AnchorMissing("ContentTypeCharset construction in get_content_type_and_charset")
    probs = []
    for bi, i, s in aggs:
        rv = s["rv"]
        if "content_type" not in rv.get("fields", []):
            probs.append("content_type field not set")
            continue
        sl = c.slice_op(rv["ops"][rv["fields"].index("content_type")])
        trimmed = sl.has_call(r"trim_ascii$|str>::trim$|str>::trim_matches$") or any(re.search(r"trim_ascii$", x.get("fn", "") or "") for x in sl.consts)
        if not trimmed:
            probs.append("the media type is not trimmed (`application/x-www-form-urlencoded ;charset=..` would not be recognised as a form)")
        recased = [c_ for c_ in sl.callee_names() if re.search(r"to_(ascii_)?(lower|upper)case$|make_ascii_(lower|upper)case$|replace\w*$", c_)]
        if recased:
            probs.append("the media type is re-cased / rewritten (%s) before it is reported: from_request_parts compares it byte for byte, so `Application/X-WWW-Form-Urlencoded` would now be folded" % [c_.split("::")[-1] for c_ in recased])
        if not sl.has_call(r"HeaderMap::<T>::get$"):
            probs.append("the media type does not derive from the header value")
        if not (sl.has_call(r"slice::<impl \[T\]>::split$|str>::split$|slice::<impl \[T\]>::splitn$|str>::splitn$|split_once$|Iterator::position$|str>::find$") ):
            probs.append("the media type is not cut at the first ';'")
    if probs:
        yield VIOL("C12-R6", "content-type/media-type", "; ".join(sorted(set(probs))), where=c.span_of_block(aggs[0][0]))
    else:
        yield PASS("C12-R6", "content-type/media-type", "content_type <= trim_ascii(first ';'-separated part of the header bytes)", [site(c, aggs[0][0], "ContentTypeCharset")])


@M.rule("C12-R7", "Content-Type options: each ';' part is trimmed on both sides and cut at its first '=' only")
def r7(ctx):
    """`text/x; charset=utf-8` / `;charset = ..`: the option name is compared after trimming ASCII whitespace on both
    sides; the value is everything after the option's FIRST '=' (splitn(2) / split_once), not a piece of it."""
    c = ctx.fn(CTC)
    bodies = [c] + ctx.facts.find_bodies("^" + re.escape(CTC) + r"::\{closure#\d+\}")
    ctx.count(2)
    def full_trim(sl):
        return bool(sl.has_call(r"canonical::trim_ascii$|slice::(ascii::)?<impl \[u8\]>::trim_ascii$|str>::trim$") or any(re.search(r"trim_ascii$", x.get("fn", "") or "") for x in sl.consts))

    probs = []
    names = []
    for bi, t in cmp_calls(c, r"PartialEq::(eq|ne)$"):
        sides = [c.slice_op(x) for x in t["args"]]
        if any("charset" in sl_.const_values() for sl_ in sides):
            names += [sl_ for sl_ in sides if "charset" not in sl_.const_values()]
    for bi, t in c.calls(r"eq_ignore_ascii_case$"):
        sides = [c.slice_op(x) for x in t["args"]]
        if any("charset" in sl_.const_values() or b"charset" in sl_.const_values() for sl_ in sides):
            names += [sl_ for sl_ in sides if not ("charset" in sl_.const_values() or b"charset" in sl_.const_values())]
    if not names:
        probs.append("comparison of an option name with \"charset\" not found")
    elif not all(full_trim(sl_) for sl_ in names):
        probs.append("the option name compared with \"charset\" is not trimmed on both sides (` charset=..` is no longer recognised)")
    for bi, i, s_ in c.aggregates(adt=r"canonical::ContentTypeCharset$"):
        rv = s_["rv"]
        if "charset" in rv.get("fields", []):
            o_ = rv["ops"][rv["fields"].index("charset")]
            sl_ = c.slice_op(o_)
            if sl_.has_call(r"HeaderMap::<T>::get$") and not full_trim(sl_):
                probs.append("the charset value is not cut from a part trimmed on both sides")
    if probs:
        yield VIOL("C12-R7", "content-type/option-trim", "; ".join(probs), where=loc(c.j["span"]))
    else:
        yield PASS("C12-R7", "content-type/option-trim", "option name and value come from parts trimmed with trim_ascii (both sides)", [])
    bad = []
    for b_ in bodies:
        for bi, t in b_.calls(r"slice::<impl \[T\]>::splitn$|str>::splitn$"):
            n_ = const_value(op_const(b_.resolve_copy(t["args"][1])) or {})
            if n_ != 2:
                bad.append((b_, bi, n_))
        for bi, t in b_.calls(r"slice::<impl \[T\]>::(rsplitn|rsplit|rsplit_once)$|str>::(rsplitn|rsplit|rsplit_once)$"):
            bad.append((b_, bi, t["callee"].split("::")[-1]))
    if bad:
        yield VIOL("C12-R7", "content-type/option-split", "an option is not cut at its first '=' into name and value (%s): `charset=utf-8=x` would select utf-8" % bad[0][2], where=bad[0][0].span_of_block(bad[0][1]))
    else:
        yield PASS("C12-R7", "content-type/option-split", "options cut with splitn(2, '=') / split_once", [])


@M.rule("C12-R8", "form folding is decided by the caller's own options (shared hand-off with C09-R7)")
def r8(ctx):
    import c09

    for r in handoff_results(ctx, "C12-R8", c09.OPT_HANDOFF, VIOL, PASS, site, "whether a form body is folded into the query is decided by options the caller did not give"):
        yield r
    for r in c09.preset_results(ctx, "C12-R8"):
        yield r
