"""C11 Header canonicalisation: signed headers bound, unsigned ones without influence (structural clauses)."""
from lib import *
from registry import Module

M = Module(
    "C11",
    "Header canonicalisation",
    "R1: canonical_request reads self.headers only by keyed lookup of an element of the signed-header parameter, in that parameter's order (no "
    "iteration over the header map, no re-sorting). R2: on both carriers the signed-header vector handed on in AuthParams is sorted after its "
    "last mutation. R3: normalize_headers stores to_lowercase(name) -> push(normalize_header_value(value bytes)) through entry().or_default(), "
    "and no crate code reorders / removes elements of a header or query value list. R4: every consultation of a header map in the crate is in a "
    "reviewed inventory (5 constant names, requirement-derived names, signed-list names; 3 whole-map iterations) - so a header that is neither "
    "signed, required nor one of those five cannot influence the outcome. R5: shape of normalize_header_value (bytes only pushed one by one: the "
    "byte itself when it is not a space, a single space when the previous kept byte was not a space; trailing-space pop loop; single exit).",
    ["http::HeaderMap iterates values of one name in arrival order (documented)", "exact trimming semantics over all strings is not decided beyond the shape in R5"],
)

CR = "canonical::CanonicalRequest::canonical_request"
NH = "canonical::normalize_headers"
NHV = "canonical::normalize_header_value"
HDR_MAP_TY = "std::collections::HashMap<std::string::String, std::vec::Vec<std::vec::Vec<u8>>>"
MAP_ITER = r"HashMap::<K, V, S, A>::(iter|iter_mut|keys|values|values_mut|into_keys|into_values|drain|retain)$"
CONST_KEYS_ALLOWED = {"authorization", "x-amz-date", "date", "x-amz-security-token", "content-type"}


def is_header_map_call(t):
    r = t.get("resolved_full", "")
    return "HashMap::<std::string::String, std::vec::Vec<std::vec::Vec<u8>>>" in r or (t.get("arg_tys") and HDR_MAP_TY in t["arg_tys"][0]) or "http::HeaderMap" in r


@M.rule("C11-R1", "only headers named in the signed list are emitted, in the list's order")
def r1(ctx):
    b = ctx.fn(CR)
    sh = param_by_name(b, "signed_headers")
    reads = [(bi, t) for bi, t in b.calls() if is_header_map_call(t) and t["args"] and b.slice_op(t["args"][0]).reads_field("headers")]
    ctx.count(len(reads))
    bad = False
    for bi, t in reads:
        c = t["callee"]
        if re.search(r"HashMap::<K, V, S, A>::get$", c):
            ks = b.slice_op(t["args"][1])
            if sh not in ks.locals or ks.consts:
                bad = True
                yield VIOL("C11-R1", "canonical_request/lookup-key", "a header is looked up by a key that is not an element of the signed-header list", where=b.span_of_block(bi))
        else:
            bad = True
            yield VIOL("C11-R1", "canonical_request/header-map-op:" + c.split("::")[-1], "the header map is consulted through `%s` (unsigned headers could be emitted / influence the canonical request)" % c, where=b.span_of_block(bi))
    if not reads:
        bad = True
        yield VIOL("C11-R1", "canonical_request/no-header-lookup", "canonical_request never looks a signed header up in self.headers", where=loc(b.j["span"]))
    srt = b.calls(r"slice::<impl \[T\]>::(sort\w*|reverse)$|Vec::<T, A>::(dedup\w*|retain|swap|insert|remove)$|Iterator::rev$|BTreeMap|BinaryHeap")
    if srt:
        bad = True
        yield VIOL("C11-R1", "canonical_request/reordering:" + srt[0][1]["callee"].split("::")[-1], "canonical_request re-orders/filters what it emits (`%s`): the header block must follow the (already sorted) signed-header list" % srt[0][1]["callee"], where=b.span_of_block(srt[0][0]))
    if not bad:
        yield PASS("C11-R1", "canonical_request/signed-only", "self.headers is read only by get(h) for h in signed_headers, emitted in that order", [site(b, reads[0][0], "get")])


@M.rule("C11-R2", "the signed-header list is sorted before use on both carriers")
def r2(ctx):
    for fn in ("canonical::CanonicalRequest::get_auth_parameters_from_auth_header", "canonical::CanonicalRequest::get_auth_parameters_from_query_parameters"):
        b = ctx.fn(fn)
        ag = one(b.aggregates(adt=r"canonical::AuthParams$"), "AuthParams construction")
        fields = dict(zip(ag[2]["rv"]["fields"], ag[2]["rv"]["ops"]))
        v = root_local(b, fields["signed_headers"])
        muts = [d for d in b.defs().get(v, []) if d["kind"] == "mutcall"]
        sorts = [d for d in muts if re.search(r"slice::<impl \[T\]>::sort(_unstable)?$", d["term"]["callee"])]
        others = [d for d in muts if d not in sorts and not re.search(r"DerefMut::deref_mut$", d["term"]["callee"])]
        ctx.count()
        good = [d for d in sorts if b.dominates(d["block"], ag[0]) and not any(b.reachable(d["block"], o["block"]) for o in others) and all(b.dominates(dd["block"], d["block"]) or not b.reachable(d["block"], dd["block"]) for dd in b.defs().get(v, []) if dd["kind"] in ("assign", "call"))]
        if not good:
            yield VIOL("C11-R2", fn.split("::")[-1] + "/signed-headers-unsorted", "the signed-header vector placed in AuthParams is not sorted (natural order) after its last mutation", where=loc(ag[2]["span"]))
        else:
            yield PASS("C11-R2", fn.split("::")[-1] + "/signed-headers-sorted", "signed_headers.sort() dominates the AuthParams construction and follows every definition/mutation", [site(b, good[0]["block"], "sort")])
    # that list (not a copy made earlier) is what canonical_request_sha256 and the requirement checks receive: C01-R6


@M.rule("C11-R3", "names lower-cased, values normalised, arrival order kept; value lists only grow")
def r3(ctx):
    b = ctx.fn(NH)
    ctx.count(3)
    LOWER = r"str>::to_lowercase$|to_ascii_lowercase$"
    VLIST = "std::vec::Vec<std::vec::Vec<u8>>"
    ents = b.calls(r"HashMap::<K, V, S, A>::entry$")
    ps = [x for x in b.calls(r"Vec::<T, A>::push$") if VLIST in x[1].get("resolved_full", "") or "Vec::<std::vec::Vec<u8>>" in x[1].get("resolved_full", "")]
    ins = b.calls(r"HashMap::<K, V, S, A>::insert$")
    lks = b.calls(r"HashMap::<K, V, S, A>::(get_mut|contains_key|get)$")

    def is_norm(o):
        """operand is normalize_header_value(<value>.as_bytes()) itself (through moves)"""
        od = b.origin_def(o)
        if mutated_in_place(b, moved_chain(b, o)):
            return False  # `let mut v = normalize_header_value(..); edit(&mut v); push(v)`
        return bool(od and od[0] == "def" and od[1]["kind"] == "call" and re.search(r"canonical::normalize_header_value$", od[1]["term"]["callee"])
                    and b.slice_op(od[1]["term"]["args"][0]).has_call(r"HeaderValue::as_bytes$")
                    and not [c for c in b.slice_op(od[1]["term"]["args"][0]).callee_names() if not re.search(r"HeaderValue::as_bytes$|Iterator::next$|IntoIterator::into_iter$|HeaderMap::<T>::iter$|Deref::deref$|AsRef::as_ref$|HeaderMap::<T>::get_all$|header::GetAll::<'a, T>::iter$|HeaderMap::<T>::keys$|Iterator::map$", c)])

    if len(ents) == 1 and not ins:
        # idiom 1: result.entry(key).or_default().push(value)
        ent = ents[0]
        ks = b.slice_op(ent[1]["args"][1])
        kalt = transforms(b, ent[1]["args"][1], allow=LOWER)
        if not (ks.has_call(LOWER) and ks.has_call(r"HeaderName::as_str$")):
            yield VIOL("C11-R3", "normalize_headers/key", "map key is not the lower-cased header name", where=b.span_of_block(ent[0]))
        elif kalt or len([d for d in b.defs().get(root_local(b, ent[1]["args"][1]) or -1, []) if d["kind"] != "mutcall"]) > 1:
            yield VIOL("C11-R3", "normalize_headers/key", "the map key is not the header's own lower-cased name as it is (through %s / several sources): a header is filed under another name, so the presence and prefix tests of the requirement rules no longer see it" % [c_.split("::")[-1] for c_ in kalt], where=b.span_of_block(ent[0]))
        else:
            yield PASS("C11-R3", "normalize_headers/key", "key = name.as_str().to_lowercase()", [site(b, ent[0], "entry")])
        p = one(ps, "value push in normalize_headers")
        vs = b.slice_op(p[1]["args"][1])
        rs = b.slice_op(p[1]["args"][0])
        if not (vs.has_call(r"canonical::normalize_header_value$") and vs.has_call(r"HeaderValue::as_bytes$")):
            yield VIOL("C11-R3", "normalize_headers/value", "stored value is not normalize_header_value(value.as_bytes())", where=b.span_of_block(p[0]))
        elif not is_norm(p[1]["args"][1]):
            yield VIOL("C11-R3", "normalize_headers/value", "the stored value is not the result of normalize_header_value(value.as_bytes()) as it is: it is modified, re-derived or built from something else as well before it is stored", where=b.span_of_block(p[0]))
        elif not (rs.has_call(r"Entry::<'a, K, V(, A)?>::or_default$") and rs.has_call(r"HashMap::<K, V, S, A>::entry$")):
            yield VIOL("C11-R3", "normalize_headers/store", "value is not appended through entry(key).or_default().push(value)", where=b.span_of_block(p[0]))
        else:
            yield PASS("C11-R3", "normalize_headers/value", "entry(key).or_default().push(normalize_header_value(value.as_bytes()))", [site(b, p[0], "push")])
        stores = {p[0]}
    elif not ents and len(ins) == 1 and len(lks) == 1 and len(ps) == 1:
        # idiom 2 (the one query_string_to_normalized_map uses): if let Some(list) = result.get_mut(name) { list.push(v) }
        # else { result.insert(name, vec![v]) }
        lk, p, i_ = lks[0], ps[0], ins[0]
        kl, ki = b.slice_op(lk[1]["args"][1]), b.slice_op(i_[1]["args"][1])
        if not (kl.has_call(r"HeaderName::as_str$") and ki.has_call(r"HeaderName::as_str$") and ki.has_call(LOWER)):
            yield VIOL("C11-R3", "normalize_headers/key", "map key is not the lower-cased header name (lookup by the HeaderName's own spelling, insert of its lower-cased copy)", where=b.span_of_block(i_[0]))
        else:
            yield PASS("C11-R3", "normalize_headers/key", "lookup by name.as_str() (HeaderName is lower-case by construction), insert under name.as_str().to_lowercase()", [site(b, i_[0], "insert")])
        probs = []
        if not is_norm(p[1]["args"][1]):
            probs.append("the value appended to an existing list is not normalize_header_value(value.as_bytes())")
        # the inserted list is vec![normalised value]: every byte-vector reaching it is the normaliser's result
        isl = b.slice_op(i_[1]["args"][2])
        elems = [t_ for _, t_ in isl.find_calls(r"canonical::normalize_header_value$")]
        raw = [c for c in isl.callee_names() if re.search(r"to_vec$|to_owned$|Clone::clone$|extend_from_slice$|Vec::<T, A>::push$|From::from$|Into::into$", c)]
        if len(elems) != 1 or raw or not isl.has_call(r"HeaderValue::as_bytes$"):
            probs.append("the list inserted for a new name is not vec![normalize_header_value(value.as_bytes())]")
        if probs:
            yield VIOL("C11-R3", "normalize_headers/value", "; ".join(probs), where=b.span_of_block(p[0]))
        else:
            okp = lk[0] in {x[0] for x in b.slice_op(p[1]["args"][0]).find_calls(r"HashMap::<K, V, S, A>::get_mut$")} if hasattr(b.slice_op(p[1]["args"][0]), "find_calls") else False
            okg = False
            for pl, vals, other, ga in discr_guard_variants(b, i_[0]):
                if b.slice([pl["local"]]).find_calls(r"HashMap::<K, V, S, A>::(get_mut|get|contains_key)$") and 1 not in vals:
                    okg = True
            for a_, sx, c, truth in guard_conditions(b, i_[0]):
                if c["kind"] == "call" and re.search(r"contains_key$", c["callee"]) and truth is False:
                    okg = True
            if not okp or not okg:
                yield VIOL("C11-R3", "normalize_headers/store", "the push does not go to the list found by the lookup, or the insert is not guarded by the lookup having failed (an earlier list would be replaced)", where=b.span_of_block(i_[0]))
            else:
                yield PASS("C11-R3", "normalize_headers/value", "get_mut(name) => push(normalised value), else insert(lower-cased name, vec![normalised value])", [site(b, p[0], "push"), site(b, i_[0], "insert")])
        stores = {p[0], i_[0]}
    elif not ents and not ins and not ps and len(b.calls(r"HeaderMap::<T>::keys$")) == 1 and len(b.calls(r"HeaderMap::<T>::get_all$")) == 1:
        # idiom 3: headers.keys().map(|name| (name.as_str().to_lowercase(),
        #              headers.get_all(name).iter().map(|v| normalize_header_value(v.as_bytes())).collect())).collect()
        # keys() yields every distinct name once, get_all(name) every value of that name in arrival order; distinct
        # HeaderNames are distinct lower-case strings, so collecting into the map overwrites nothing.
        hp = param_by_name(b, "headers")
        kc, ga = b.calls(r"HeaderMap::<T>::keys$")[0], b.calls(r"HeaderMap::<T>::get_all$")[0]
        outer = [x for x in b.calls(r"Iterator::collect$") if "std::collections::HashMap<std::string::String, std::vec::Vec<std::vec::Vec<u8>>" in x[1].get("resolved_full", "")]
        inner = [x for x in b.calls(r"Iterator::collect$") if re.search(r"collect::<std::vec::Vec<std::vec::Vec<u8>>>$", x[1].get("resolved_full", ""))]
        probs = []
        tup = None
        if len(outer) != 1 or len(inner) != 1:
            probs.append("expected one collect into the map and one into a value list, found %d / %d" % (len(outer), len(inner)))
        else:
            so, sto = pipeline_of(b, outer[0][1]["args"][0])
            sto = [x for x in sto if x[0] != "into_iter"]
            if not (so and so[0] == "def" and so[1]["kind"] == "call" and so[1]["term"] is kc[1]) or [x[0] for x in sto] != ["map"] or "summary_operand" not in sto[0][2]:
                probs.append("the map is not collected from headers.keys().map(closure) alone (a filter / take / dedup stage would drop names)")
            else:
                td = b.origin_def(sto[0][2]["args"][sto[0][2]["summary_operand"]])
                if td and td[0] == "def" and td[1]["kind"] == "assign" and td[1]["stmt"]["rv"].get("tuple") and len(td[1]["stmt"]["rv"]["ops"]) == 2:
                    tup = td[1]["stmt"]["rv"]["ops"]
                else:
                    probs.append("the outer closure does not build a (name, values) pair")
            if b.origin_def(kc[1]["args"][0]) != ("param", hp) or b.origin_def(ga[1]["args"][0]) != ("param", hp):
                probs.append("keys() / get_all() are not called on the `headers` parameter")
            si, sti = pipeline_of(b, inner[0][1]["args"][0])
            sti = [x for x in sti if x[0] != "into_iter"]
            gi = si[1]["term"] if si and si[0] == "def" and si[1]["kind"] == "call" else None
            if not (gi and re.search(r"header::GetAll::<'a, T>::iter$", gi["callee"]) and b.origin_def(gi["args"][0]) and b.origin_def(gi["args"][0])[0] == "def" and b.origin_def(gi["args"][0])[1].get("term") is ga[1]):
                probs.append("the value list is not collected from headers.get_all(name).iter()")
            if [x[0] for x in sti] != ["map"] or "summary_operand" not in (sti[0][2] if sti else {}):
                probs.append("the values pass through stages %s (expected exactly .map(closure): a filter / take / rev would drop or reorder values)" % [x[0] for x in sti])
            elif not is_norm(sti[0][2]["args"][sti[0][2]["summary_operand"]]):
                probs.append("a stored value is not normalize_header_value(value.as_bytes()) itself")
        if tup is not None:
            ks = b.slice_op(tup[0])
            if not (ks.has_call(LOWER) and ks.has_call(r"HeaderName::as_str$")):
                probs.append("map key is not the lower-cased header name")
            vd = b.origin_def(tup[1])
            if not (vd and vd[0] == "def" and vd[1].get("term") is inner[0][1]) or mutated_in_place(b, moved_chain(b, tup[1])):
                probs.append("the pair's second component is not the collected value list as it is")
            # the same name is used for the key and for get_all
            kn = {l for l in ks.locals} & {l for l in b.slice_op(ga[1]["args"][1]).locals}
            if not kn:
                probs.append("get_all is not asked for the name that becomes the key")
        if probs:
            yield VIOL("C11-R3", "normalize_headers/value", "keys()/get_all() formulation deviates: " + "; ".join(probs), where=loc(b.j["span"]))
        else:
            yield PASS("C11-R3", "normalize_headers/key", "key = name.as_str().to_lowercase() for every name of headers.keys()", [site(b, kc[0], "keys")])
            yield PASS("C11-R3", "normalize_headers/value", "values = headers.get_all(name).iter().map(normalize_header_value(v.as_bytes())).collect(): every value, arrival order", [site(b, ga[0], "get_all")])
            yield PASS("C11-R3", "normalize_headers/all-headers", "every name (keys()) and every value of it (get_all) is stored", [])
        stores = None
    else:
        raise AnchorMissing("result.entry(key) (or the get_mut / insert idiom) in normalize_headers: %d entry, %d insert, %d lookup, %d push" % (len(ents), len(ins), len(lks), len(ps)))
    # the map is written by the idiom's own store(s) and by nothing else: a later `get_mut(name)` / `values_mut()` /
    # `remove` pass that re-joins, merges or drops the values of some name changes that header's canonical line
    MUT = r"HashMap::<K, V, S, A>::(get_mut|get_many_mut|iter_mut|values_mut|retain|remove\w*|drain|entry|insert|extend|clear|extract_if|raw_entry_mut|into_iter|into_values)$|IndexMut::index_mut$|Extend::extend$|IntoIterator::into_iter$"
    mcalls = [(bi_, t_) for bi_, t_ in b.calls(MUT) if "std::collections::HashMap<std::string::String, std::vec::Vec<std::vec::Vec<u8>>" in " ".join(t_.get("arg_tys", [])[:1])]
    allowed = {"entry": 1} if (len(ents) == 1 and not ins) else {"get_mut": 1, "insert": 1} if (not ents and len(ins) == 1) else {}
    seen = {}
    for bi_, t_ in mcalls:
        nm_ = t_["callee"].split("::")[-1]
        seen[nm_] = seen.get(nm_, 0) + 1
    over = {k_: v_ for k_, v_ in seen.items() if v_ > allowed.get(k_, 0)}
    ctx.count(max(1, len(mcalls)))
    if over:
        fb_ = [bi_ for bi_, t_ in mcalls if t_["callee"].split("::")[-1] in over]
        yield VIOL("C11-R3", "normalize_headers/map-rewritten", "the header map is also written through %s besides the store of each (name, value): the value list of some name is re-joined, merged or dropped after collection" % sorted(over), where=b.span_of_block(fb_[-1]))
    else:
        yield PASS("C11-R3", "normalize_headers/map-written-once", "mutable access to the map: %s only" % (sorted(seen) or ["collect"]), [])
    # every header is stored: every way from the iteration's Some edge back to the loop head passes a store;
    # iteration is over the whole HeaderMap
    its = b.calls(r"HeaderMap::<T>::iter$") + [x for x in b.calls(r"IntoIterator::into_iter$") if re.match(r"^<&http::HeaderMap(<[^>]*>)? as std::iter::IntoIterator>::into_iter$", x[1].get("resolved_full", ""))]
    it = one(its, "headers.iter()") if stores is not None else None  # `headers.iter()` or `for .. in headers` on the &HeaderMap: the same iteration
    nx = [x for x in b.calls(r"Iterator::next$") if "http::header::map::Iter<" in x[1].get("resolved_full", "")] or [x for x in b.calls(r"Iterator::next$")]
    st = b.term(nx[0][1]["target"]) if nx else None
    some = [bb for v, bb in st["targets"] if v == 1] if st and st["k"] == "switch" else []
    if stores is None:
        pass  # idiom 3 reported its own all-headers result
    elif not some or nx[0][0] in b._reachable_from(some[0], avoid=stores) or any(r_ in b._reachable_from(some[0], avoid=stores) for r_ in b.return_blocks()) or param_by_name(b, "headers") not in b.slice_op(it[1]["args"][0]).locals:
        yield VIOL("C11-R3", "normalize_headers/all-headers", "not every header of the request is stored", where=b.span_of_block(sorted(stores)[0]))
    else:
        yield PASS("C11-R3", "normalize_headers/all-headers", "every (name, value) of the HeaderMap is stored, in iteration (arrival) order", [])
    # crate-wide: no reordering / removal on value lists (Vec<Vec<u8>>; Vec<String> reached through a map)
    n = 0
    bad = 0
    for body in ctx.facts.all_bodies():
        for bi, t in body.calls(r"Vec::<T, A>::(insert|remove|swap_remove|retain\w*|dedup\w*|truncate|clear|pop|drain|split_off|swap)$|slice::<impl \[T\]>::(reverse|sort\w*|swap|rotate_\w+)$"):
            r = t.get("resolved_full", "")
            aty = t["arg_tys"][0] if t.get("arg_tys") else ""
            n += 1
            is_hdr = "std::vec::Vec<std::vec::Vec<u8>>" in aty or "[std::vec::Vec<u8>]" in aty
            is_qv = ("std::vec::Vec<std::string::String>" in aty or "[std::string::String]" in aty) and body.slice_op(t["args"][0], stop_at_calls=lambda tt: bool(re.search(r"ops::Index::index$", tt.get("callee", "")))).has_call(r"HashMap::<K, V, S, A>::(get_mut|get|entry)$|Entry::<'a, K, V(, A)?>::\w+$", r"std::string::String, std::vec::Vec<std::string::String>")
            if is_hdr or is_qv:
                bad += 1
                yield VIOL("C11-R3", "value-list-op/%s:%s" % (body.path, t["callee"].split("::")[-1]), "a header/query value list is reordered or shrunk by `%s` (arrival order / multiplicity no longer preserved)" % t["callee"], where=body.span_of_block(bi))
    if not bad:
        yield PASS("C11-R3", "value-lists/grow-only", "%d reordering/removal calls in the crate, none on a header or query value list" % n, [])


@M.rule("C11-R4", "header-consultation inventory")
def r4(ctx):
    lookups, iters = [], []
    for body in ctx.facts.all_bodies():
        if ctx.facts.new_and_unreachable(body):
            continue  # new code that validation never executes cannot consult a header on its behalf
        for bi, t in body.calls():
            if not t["args"] or not is_header_map_call(t):
                continue
            c = t["callee"]
            if re.search(r"(HashMap::<K, V, S, A>|HeaderMap::<T>)::(get|contains_key|get_all|get_mut|remove|entry)$", c):
                if body.path == NH:
                    continue  # building the map itself
                lookups.append((body, bi, t))
            elif re.search(MAP_ITER, c) or re.search(r"HeaderMap::<T>::(iter|keys|values|drain|into_iter)$", c) or (re.search(r"IntoIterator::into_iter$", c) and ("HashMap<" in t.get("resolved_full", "") or "HeaderMap" in t.get("resolved_full", ""))):
                iters.append((body, bi, t))
    ctx.count(len(lookups) + len(iters))
    kinds = {"const": set(), "requirement": 0, "signed-list": 0}
    for body, bi, t in lookups:
        kv, c = const_str_of(body, t["args"][1])
        if isinstance(kv, str):
            kinds["const"].add(kv)
            if kv not in CONST_KEYS_ALLOWED:
                yield VIOL("C11-R4", "header-lookup/const:" + kv, "header `%s` is consulted by the library: it is not one of the reviewed authentication inputs, so an unsigned header influences the outcome" % kv, where=body.span_of_block(bi))
            continue
        ks = body.slice_op(t["args"][1])
        if ks.has_call(r"SignedHeaderRequirements::\w+$"):
            kinds["requirement"] += 1
        elif body.path == CR and param_by_name(body, "signed_headers") in ks.locals:
            kinds["signed-list"] += 1
        else:
            yield VIOL("C11-R4", "header-lookup/unreviewed-key/" + body.path, "a header is looked up by a key of unreviewed provenance", where=body.span_of_block(bi))
    allowed_iter_fns = {NH, "canonical::CanonicalRequest::get_auth_parameters", "canonical::debug_headers"}
    for body, bi, t in iters:
        if body.path not in allowed_iter_fns:
            yield VIOL("C11-R4", "header-iteration/" + body.path, "whole-header-map iteration at an unreviewed site (`%s`)" % t["callee"], where=body.span_of_block(bi))
    nconst = len(kinds["const"])
    if nconst < 5 or kinds["requirement"] < 1 or kinds["signed-list"] < 1 or len(iters) < 3:
        yield MISSING("C11-R4", "header-inventory/floor", "inventory below the hand-confirmed floor: const keys %s, requirement-derived %d, signed-list %d, iterations %d" % (sorted(kinds["const"]), kinds["requirement"], kinds["signed-list"], len(iters)))
    else:
        yield PASS("C11-R4", "header-inventory", "%d keyed lookups (%d constant names %s, %d requirement-derived, %d signed-list-derived) and %d whole-map iterations, all reviewed" % (len(lookups), nconst, sorted(kinds["const"]), kinds["requirement"], kinds["signed-list"], len(iters)), [])
    ctx.extra["header_lookups"] = len(lookups)


def split_join_form(b):
    """Sibling formulation of normalize_header_value: `value.split(|&c| c == b' ').filter(|w| !w.is_empty())
    .collect::<Vec<&[u8]>>().join(&b' ')` - the words between spaces, re-joined by one space: leading / trailing / repeated
    spaces produce empty words, which are dropped. Returns None if the body is not of this form, else the list of
    deviations (empty = exactly this)."""
    jn = b.calls(r"slice::<impl \[T\]>::join$")
    sp = b.calls(r"slice::<impl \[T\]>::split$")
    if len(jn) != 1 or len(sp) != 1:
        return None
    pr = []
    value = 1
    # the result is the join, nothing else
    od0 = b.origin_def({"move": {"local": 0, "proj": []}})
    if not (od0 and od0[0] == "def" and od0[1]["kind"] == "call" and od0[1]["term"] is jn[0][1]):
        pr.append("the result is not the join itself")
    # join(&b' ') / join(&[b' '][..]) / join(b" ")
    sep = b.slice_op(jn[0][1]["args"][1])
    sepv = [const_value(k) for k in sep.consts]
    if not (sepv in ([32], [b" "], [" "]) and not sep.params and not sep.callee_names()):
        pr.append("the separator is not the single space constant (%s)" % sepv)
    # joined list = collect of split(value).filter(non-empty)
    lst = b.origin_def(jn[0][1]["args"][0])
    hops = 0
    while lst and lst[0] == "def" and lst[1]["kind"] == "call" and re.search(r"Deref::deref$|as_slice$|AsRef::as_ref$", lst[1]["term"]["callee"]) and hops < 4:
        lst = b.origin_def(lst[1]["term"]["args"][0])
        hops += 1
    if not (lst and lst[0] == "def" and lst[1]["kind"] == "call" and re.search(r"Iterator::collect$", lst[1]["term"]["callee"])):
        return pr + ["the joined list is not a collect() of the word pipeline"]
    if mutated_in_place(b, [lst[1]["term"]["dest"]["local"]]):
        pr.append("the word list is modified between collect() and join()")
    src, stages = pipeline_of(b, lst[1]["term"]["args"][0])
    names = [x[0] for x in stages if x[0] != "into_iter"]
    if not (src and src[0] == "def" and src[1]["kind"] == "call" and src[1]["term"] is sp[0][1]):
        return pr + ["the word pipeline does not start at value.split(..)"]
    if names != ["filter"]:
        pr.append("pipeline stages %s: expected exactly one filter (non-empty words)" % names)
    else:
        ft = [x for x in stages if x[0] == "filter"][0][2]
        ok = False
        if "summary_operand" in ft:
            pod = b.origin_def(ft["args"][ft["summary_operand"]])
            if pod and pod[0] == "def" and pod[1]["kind"] == "assign" and pod[1]["stmt"]["rv"]["k"] == "unop" and pod[1]["stmt"]["rv"].get("op") == "Not":
                cod = b.origin_def(pod[1]["stmt"]["rv"]["x"])
                ok = bool(cod and cod[0] == "def" and cod[1]["kind"] == "call" and re.search(r"slice::<impl \[T\]>::is_empty$", cod[1]["term"]["callee"])
                          and not [c for c in b.slice_op(cod[1]["term"]["args"][0]).callee_names() if not re.search(r"Iterator::next$|IntoIterator::into_iter$|slice::<impl \[T\]>::split$", c)])
        if not ok:
            pr.append("the filter predicate is not `!word.is_empty()` on the whole word")
    # split subject = the parameter as it is; predicate = |c| *c == b' '
    if b.origin_def(sp[0][1]["args"][0]) != ("param", value) or b.slice_op(sp[0][1]["args"][0]).callee_names():
        pr.append("split is not applied to the whole value")
    cd = b.origin_def(sp[0][1]["args"][1])
    okp = False
    if cd and cd[0] == "def" and cd[1]["kind"] == "assign" and cd[1]["stmt"]["rv"].get("closure"):
        kb = b.facts.find_bodies("^" + re.escape(cd[1]["stmt"]["rv"]["closure"]) + "$", include_absorbed=True)
        if kb and not kb[0].calls() and not cd[1]["stmt"]["rv"]["ops"]:
            k = kb[0]
            bins = [st_ for _, _, st_ in k.stmts() if st_["k"] == "assign" and st_["rv"]["k"] == "binop"]
            if len(bins) == 1 and bins[0]["rv"]["op"] == "Eq" and len(k.live_blocks()) == 1:
                cs = [const_value(op_const(x)) for x in (bins[0]["rv"]["l"], bins[0]["rv"]["r"]) if op_const(x) is not None]
                okp = cs == [32] and bins[0]["place"]["local"] in k.slice([0]).locals | {0}
    if not okp:
        pr.append("the split predicate is not `byte == b' '`")
    return pr


@M.rule("C11-R5", "shape of normalize_header_value")
def r5(ctx):
    b = ctx.fn(NHV)
    sj = split_join_form(b)
    if sj is not None:
        ctx.count(4)
        if sj:
            yield VIOL("C11-R5", "normalize_header_value/split-join", "split / filter / join formulation deviates: " + "; ".join(sj), where=loc(b.j["span"]))
        else:
            yield PASS("C11-R5", "normalize_header_value/split-join", "value.split(b' ').filter(non-empty).collect().join(b' '): words re-joined by single spaces (trims, collapses runs, keeps every other byte)", [loc(b.j["span"])])
        return
    acc = returned_local(b)
    ctx.count(4)
    d0 = b.defs().get(0, [])
    if len(d0) != 1 or acc == 0:
        yield VIOL("C11-R5", "normalize_header_value/exits", "normalize_header_value has %d result definitions (early return bypassing the normalisation loop)" % len(d0), where=loc(b.j["span"]))
        return
    muts = [d for d in b.defs().get(acc, []) if d["kind"] == "mutcall"]
    names = sorted({d["term"]["callee"].split("::")[-1] for d in muts})
    bulk = b.calls(r"(to_vec|to_owned|extend_from_slice|Extend::extend|Clone::clone|copy_from_slice|concat|join|trim\w*|split\w*|replace\w*|Regex::\w+)$")
    if set(names) - {"push", "pop"} or bulk:
        yield VIOL("C11-R5", "normalize_header_value/bulk-copy", "result is produced by bulk operations (%s %s) instead of byte-wise push" % (names, [t["callee"].split("::")[-1] for _, t in bulk]), where=loc(b.j["span"]))
        return
    # exact finite-state decision (K6b): the loop body is tabulated over all 256 bytes x every value of its boolean
    # loop-carried locals and must be bisimilar to the specification transducer
    #   state S (true = "drop the next space", initially true):  ' ' -> emit nothing if S else one ' ', S' = true;  b != ' ' -> emit b, S' = false
    # and the code after the loop must remove the (at most one) trailing space.
    import microeval
    ok = True
    init = b.calls(r"Vec::<T(, A)?>::(new|with_capacity)$")
    if not any(t["dest"]["local"] == acc for _, t in init):
        ok = False
        yield VIOL("C11-R5", "normalize_header_value/acc-init", "the result vector does not start empty (Vec::new / with_capacity)", where=loc(b.j["span"]))
    loop = microeval.byte_filter_loop(b, acc)
    tail = False
    try:
        state, table = microeval.tabulate(b, acc, loop)
    except AnchorMissing as e_:
        if "reads the accumulator" not in str(e_):
            raise
        # the decision is derived from the output so far (`result.last()`) instead of a flag: the last output byte
        # becomes part of the tabulated state
        state, table = microeval.tabulate_with_tail(b, acc, loop)
        tail = True
    ctx.extra["nhv_transducer"] = {"state_locals": len(state), "entries": len(table), "reads_output_tail": tail}
    # initial values of the state locals: one constant definition outside the loop
    init_state = []
    for l in state:
        ds = [d for d in b.defs().get(l, []) if not b.in_cycle(d["block"])]
        cv = None
        if len(ds) == 1 and ds[0]["kind"] == "assign" and ds[0]["stmt"]["rv"]["k"] == "use" and op_const(ds[0]["stmt"]["rv"]["op"]):
            cv = const_value(op_const(ds[0]["stmt"]["rv"]["op"]))
        if not isinstance(cv, (bool, int)):
            raise AnchorMissing("constant initial value of loop-carried local _%d in normalize_header_value" % l)
        init_state.append(bool(cv))
    # product exploration: (spec state, implementation state, tail class of the output so far)
    start = (True, (tuple(init_state), None) if tail else tuple(init_state), "empty")
    seen = {start}
    work = [start]
    witness = None
    while work and witness is None:
        S, I, cls = work.pop()
        for byte in range(256):
            if tail:
                ev, F2, L2 = table[(byte, I[0], I[1])]
                I2 = (F2, L2)
            else:
                ev, I2 = table[(byte, I)]
            want = (() if S else (32,)) if byte == 32 else (byte,)
            S2 = byte == 32
            if ev != want:
                witness = (byte, S, I, ev, want)
                break
            cls2 = cls if not ev else ("space" if ev[-1] == 32 else "byte")
            nxt = (S2, I2, cls2)
            if nxt not in seen:
                seen.add(nxt)
                work.append(nxt)
    ctx.count(len(table))
    if witness:
        ok = False
        byte, S, I, ev, want = witness
        what = "leaves the loop early" if ev == "leaves-loop" else "appends %s" % (list(ev),)
        yield VIOL("C11-R5", "normalize_header_value/transducer", "for input byte 0x%02x %s a space (loop-carried flags %s) the loop %s; the rule (keep non-space bytes, one space per run, none leading) appends %s" % (byte, "right after" if S else "not after", list(I), what, list(want)), where=b.span_of_block(loop["some"]))
    else:
        yield PASS("C11-R5", "normalize_header_value/transducer", "loop body tabulated over 256 bytes x %d flag state(s): bisimilar to the specification transducer (%d product states)" % (1 << len(state), len(seen)), [site(b, loop["some"], "loop body")])
        # after the loop: trailing space removed, nothing else touched
        m = microeval.Micro(b, acc)
        rets = set(b.return_blocks())
        reps = {"empty": [[]], "byte": [[65], [65, 32, 66]], "space": [[65, 32], [32, 65, 32]]}
        bad = None
        for S, I, cls in sorted(seen, key=repr):
            if S != (cls in ("empty", "space")):
                continue
            reps_ = reps[cls]
            if tail:
                last_ = I[1]
                reps_ = [[]] if last_ is None else ([[last_], [65, 32, last_]] if last_ != 32 else [[65, 32], [32, 65, 32]])
            for rep in reps_:
                accv = list(rep)
                env = {l: v for l, v in zip(state, I[0] if tail else I)}
                env[loop["n_local"]] = ("opt", None)
                try:
                    m.run(loop["none"], env, accv, rets)
                except microeval.Left:
                    pass
                want = list(rep)
                while want and want[-1] == 32:
                    want.pop()
                if accv != want and bad is None:
                    bad = (rep, accv, want, I)
        if bad:
            ok = False
            yield VIOL("C11-R5", "normalize_header_value/trailing", "after the loop a result ending %s (flags %s) becomes %s, expected %s (trailing space removed, nothing else)" % (bad[0], list(bad[3]), bad[1], bad[2]), where=b.span_of_block(loop["none"]))
        else:
            yield PASS("C11-R5", "normalize_header_value/trailing", "code after the loop evaluated on every reachable (flags, tail class): removes the trailing space only", [site(b, loop["none"], "after loop")])
    if ok:
        yield PASS("C11-R5", "normalize_header_value/shape", "single exit; bytes pushed one by one (non-space byte | one space per run); trailing spaces popped", [loc(b.j["span"])])


@M.rule("C11-R6", "values of one name are joined by commas placed by position (shared with C01-R4)")
def r6(ctx):
    import c01

    n = 0
    for r in c01.r4(ctx):
        if "separator" in r.key or "header-values-all" in r.key or "ingredient" in r.key:
            r.rule = "C11-R6"
            n += 1
            yield r
    if not n:
        yield MISSING("C11-R6", "separators/no-instance", "no separator instance of C01-R4")


@M.rule("C11-R7", "header maps are never filled by replacing: no HeaderMap::insert in a loop anywhere in the crate")
def r7(ctx):
    """A second way in - `validate_raw_request(method, uri, header pairs, ..)` that assembles the http::Request itself -
    decides the multiplicity of every header by how it fills the map: `insert` keeps the last value of a repeated name,
    `append` keeps them all. The reviewed tree never writes a HeaderMap; any `insert` executed repeatedly (in a loop, a
    fold, an Extend impl of the crate) is reported, as is any removal."""
    n = 0
    bad = 0
    for body in ctx.facts.all_bodies():
        if body.kind not in ("Fn", "AssocFn", "Closure"):
            continue
        for bi, t in body.calls(r"HeaderMap::<T>::(insert|try_insert|remove|clear|drain|retain)$|header::map::(Occupied)?Entry::<'a, T>::(insert\w*|remove\w*)$"):
            n += 1
            nm = t["callee"].split("::")[-1]
            looped = body.in_cycle(bi) or (body.kind == "Closure" and not body.j.get("coroutine_kind"))
            if nm in ("insert", "try_insert") and not looped:
                continue  # a single header set once (e.g. on a response being built)
            bad += 1
            yield VIOL("C11-R7", "%s/header-map-%s" % (body.path, nm), "`HeaderMap::%s` %s: for a header name that occurs more than once only one value survives, so the multiplicity of a signed header is not what the client sent" % (nm, "runs once per header (loop / closure)" if nm in ("insert", "try_insert") else "drops header values"), where=body.span_of_block(bi))
    ctx.count(max(1, n))
    if not bad:
        yield PASS("C11-R7", "header-maps/never-replaced", "%d HeaderMap writes in the crate, none replacing or dropping values" % n, [])
