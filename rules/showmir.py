#!/usr/bin/env python3
"""Pretty-print bodies from a fact file (debugging aid for rule authors).
usage: showmir.py facts.json <substring-of-path> [...]"""
import json, sys


def P(p):
    s = "_%d" % p["local"]
    for e in p["proj"]:
        if e == "deref":
            s = "(*%s)" % s
        elif "field" in e:
            s += "." + e["field"]
        elif "index" in e:
            s += "[_%d]" % e["index"]
        elif "downcast" in e:
            s = "(%s as %s)" % (s, e["downcast"])
        elif "constindex" in e:
            s += "[#%d%s]" % (e["constindex"], "e" if e["from_end"] else "")
        elif "subslice" in e:
            s += "[%d..%s%d]" % (e["subslice"][0], "-" if e["from_end"] else "", e["subslice"][1])
        else:
            s += "?%r" % e
    return s


def O(o):
    if "copy" in o:
        return P(o["copy"])
    if "move" in o:
        return "move " + P(o["move"])
    if "const" in o:
        c = o["const"]
        if "fn" in c:
            return "fn:" + c["fn_full"]
        s = "const"
        if "def" in c:
            s += " " + c["def"]
        if "str" in c:
            s += " %r" % c["str"]
        elif "scalar" in c:
            s += " %d" % c["scalar"]
        elif "bytes" in c:
            s += " b%r" % bytes(c["bytes"][:40])
        elif "zst" in c:
            s += " zst"
        s += ":" + c["ty"]
        return s
    return repr(o)


def RV(r):
    k = r["k"]
    if k == "use":
        return O(r["op"])
    if k == "ref":
        return ("&mut " if r["mut"] else "&") + P(r["place"])
    if k == "rawptr":
        return "&raw " + P(r["place"])
    if k == "cast":
        return "%s as %s (%s)" % (O(r["op"]), r["ty"], r["kind"][:30])
    if k == "binop":
        return "%s(%s, %s)" % (r["op"], O(r["l"]), O(r["r"]))
    if k == "unop":
        return "%s(%s)" % (r["op"], O(r["x"]))
    if k == "discr":
        return "discr(%s)" % P(r["place"])
    if k == "aggregate":
        if "adt" in r:
            name = "%s::%s" % (r["adt"], r["variant"])
            return "%s{%s}" % (name, ", ".join("%s: %s" % (f, O(o)) for f, o in zip(r["fields"], r["ops"])))
        tag = "tuple" if r.get("tuple") else r.get("closure") or r.get("coroutine") or r.get("array") or "agg"
        return "%s(%s)" % (tag, ", ".join(O(o) for o in r["ops"]))
    if k == "repeat":
        return "[%s; %s]" % (O(r["op"]), r["n"])
    return r.get("dbg", repr(r))


def show(b):
    print("=" * 100)
    print("%s  [%s] %s:%d args=%d %s" % (b["path"], b["kind"], b["span"]["file"], b["span"]["line"], b["arg_count"], b.get("coroutine_kind", "")))
    for l in b["locals"]:
        if "name" in l or l["id"] <= b["arg_count"]:
            print("   let _%d: %s  // %s" % (l["id"], l["ty"], l.get("name", "")))
    import sys as _s
    _s.path.insert(0, __import__("os").path.dirname(__import__("os").path.abspath(__file__)))
    from engine import Body
    live = Body(b, None).live_blocks()
    for blk in b["blocks"]:
        if blk["id"] not in live and "--all" not in _s.argv:
            continue
        print(" bb%d%s:" % (blk["id"], " (cleanup)" if blk["cleanup"] else ""))
        for s in blk["stmts"]:
            if s["k"] == "assign":
                m = ",".join(s["span"].get("macros", []))
                print("    %s = %s    // L%d %s" % (P(s["place"]), RV(s["rv"]), s["span"]["line"], m))
            else:
                print("    %r" % s)
        t = blk["term"]
        k = t["k"]
        ln = "L%d %s" % (blk["tspan"]["line"], ",".join(blk["tspan"].get("macros", [])))
        if k == "call":
            print("    %s = CALL %s [%s] (%s) -> bb%s unw %s   // %s" % (P(t["dest"]), t["callee"], t.get("resolved_full", t.get("resolved", "")), ", ".join(O(a) for a in t["args"]), t["target"], t["unwind"], ln))
        elif k == "switch":
            print("    switch %s [%s] else bb%d   // %s" % (O(t["discr"]), ", ".join("%d->bb%d" % (v, bb) for v, bb in t["targets"]), t["otherwise"], ln))
        elif k == "assert":
            print("    assert(%s == %s) %s(%s) -> bb%d   // %s" % (O(t["cond"]), t["expected"], t["kind"], ", ".join(O(o) for o in t["ops"]), t["target"], ln))
        elif k == "goto":
            print("    goto bb%d" % t["target"])
        elif k == "drop":
            print("    drop(%s) -> bb%d" % (P(t["place"]), t["target"]))
        elif k == "yield":
            print("    yield %s -> bb%d (resume %s)" % (O(t["value"]), t["target"], P(t["resume_arg"])))
        else:
            print("    %s   // %s" % (k, ln))


if __name__ == "__main__":
    f = json.load(open(sys.argv[1]))
    for b in f["bodies"]:
        if any(pat in b["path"] for pat in sys.argv[2:] if pat != "--all"):
            show(b)
