"""C16 Timestamps: ISO-8601 accepted, value exact, compact UTC in string-to-sign (structural clauses)."""
from lib import *
from registry import Module
import regexhelp

M = Module(
    "C16",
    "Timestamp parsing (structural clauses)",
    "R1: static facts about the ISO-8601 regex literal (parsed with the regex-syntax version the library links; never matched): anchored at both "
    "ends; year/month/day/hour/minute/second/offset groups unconditional, frac optional; the finite languages of month, day, hour, minute, "
    "second and offset are enumerated and must equal 01-12, 01-31, 00-23, 00-59, a subset of 00-61, and sign+hh+[:]mm with mm <= 59 or Z. "
    "R2: parse_from_iso8601 builds the value only through chrono's checked *_opt constructors whose None / non-Single edges return Err, the "
    "fields are fed positionally from the like-named capture groups, the offset is sign*(hh*3600+mm*60) with the sign decided by a test of the "
    "sign character against '-'. R3: between the parse and the authenticator's request_timestamp there is exactly map_err / ? / "
    "with_timezone(&Utc); the string-to-sign and scope-date format strings are the compact UTC ones. The instant denoted (offset arithmetic, "
    "fraction truncation) is chrono's and is not decided.",
    ["regex crate implements the parsed pattern", "chrono *_opt constructors reject out-of-range fields and non-existent dates"],
)

PARSE = "<chrono::DateTime<chrono::FixedOffset> as chronoutil::ParseISO8601<chrono::DateTime<chrono::FixedOffset>>>::parse_from_iso8601"
GAFP = "canonical::CanonicalRequest::get_authenticator_from_auth_parameters"


def two(lo, hi):
    return {"%02d" % i for i in range(lo, hi + 1)}


def iso_pattern(ctx):
    lits = regexhelp.regex_literals(ctx.facts)
    for st, pat, b, bi in lits:
        if st.endswith("ISO_8601_REGEX"):
            return st, pat, b, bi, lits
    raise AnchorMissing("regex literal of chronoutil::ISO_8601_REGEX")


@M.rule("C16-R1", "pattern facts: anchored; per-field ranges; zone mandatory")
def r1(ctx):
    st, pat, b, bi, lits = iso_pattern(ctx)
    if pat is None:
        yield MISSING("C16-R1", "iso8601/pattern-not-literal", "the ISO-8601 pattern is not a string literal", where=b.span_of_block(bi))
        return
    f = regexhelp.facts_for_patterns([pat])[0]
    ctx.count(10)
    if not f["parse_ok"]:
        yield VIOL("C16-R1", "iso8601/pattern-invalid", "pattern does not parse: %s" % f.get("error"), where=b.span_of_block(bi))
        return
    if not (f["anchored_start"] and f["anchored_end"]):
        yield VIOL("C16-R1", "iso8601/anchors", "pattern is not anchored at both ends (start %s, end %s): surrounding garbage would be accepted" % (f["anchored_start"], f["anchored_end"]), where=b.span_of_block(bi))
    else:
        yield PASS("C16-R1", "iso8601/anchors", "^...$ : every accepted string is matched in full", [site(b, bi, "Regex::new")])
    gs = {g["name"]: g for g in f["groups"] if g["name"]}
    need = ["year", "month", "day", "hour", "minute", "second", "offset"]
    for n in need:
        if n not in gs:
            yield VIOL("C16-R1", "iso8601/group-missing/" + n, "named group `%s` missing" % n, where=b.span_of_block(bi))
        elif not gs[n]["unconditional"]:
            yield VIOL("C16-R1", "iso8601/group-optional/" + n, "group `%s` is optional (the zone/field may be omitted)" % n, where=b.span_of_block(bi))
    if any(n not in gs for n in need):
        return
    want = {"month": two(1, 12), "day": two(1, 31), "hour": two(0, 23), "minute": two(0, 59)}
    for n, lang in want.items():
        g = gs[n]
        got = set(g["language"] or [])
        if not g["finite"] or got != lang:
            extra = sorted(got - lang)[:6] if g["finite"] else "infinite"
            yield VIOL("C16-R1", "iso8601/field-range/" + n, "field `%s` admits %s beyond / lacks %s of its range" % (n, extra, sorted(lang - got)[:6]), where=b.span_of_block(bi))
        else:
            yield PASS("C16-R1", "iso8601/field-range/" + n, "language = %s..%s (%d strings)" % (min(lang), max(lang), len(lang)), [])
    sec = gs["second"]
    got = set(sec["language"] or [])
    if not sec["finite"] or not got <= two(0, 61) or not two(0, 59) <= got:
        yield VIOL("C16-R1", "iso8601/field-range/second", "field `second` language is not 00-59 (+ leap 60/61)", where=b.span_of_block(bi))
    else:
        yield PASS("C16-R1", "iso8601/field-range/second", "00..%s (60/61 are refused later by chrono's checked constructor)" % max(got), [])
    off = gs["offset"]
    ol = off["language"] or []
    bad = [s for s in ol if not (s == "Z" or (re.fullmatch(r"[-+]\d\d:?\d\d", s) and int(s[-2:]) <= 59))]
    if not off["finite"] or bad or "Z" not in ol or not any(s.startswith("-") for s in ol) or not any(":" in s for s in ol):
        yield VIOL("C16-R1", "iso8601/field-range/offset", "zone designator admits e.g. %s (must be Z or sign hh[:]mm with mm <= 59)" % (bad[:4] if off["finite"] else "an infinite language"), where=b.span_of_block(bi))
    else:
        hh = sorted({s[1:3] for s in ol if s != "Z"})
        yield PASS("C16-R1", "iso8601/field-range/offset", "%d strings: Z or [-+]hh[:]mm, mm 00-59, hh %s-%s" % (len(ol), hh[0], hh[-1]), [])
        if hh[-1] < "23":
            ctx.note("O2: the pattern admits offset hours only up to %s (ISO-8601 allows up to 23); completeness over all ISO-8601 strings is not decided" % hh[-1])
    # the reviewed zone language exactly: Z, or sign hh[:]mm with hh 00-19 (a wider hh up to 23 would repair observation O2
    # and is accepted; anything else - a narrower hour / minute range, another sign or designator character - is not)
    if off["finite"] and not bad:
        need_ = {"Z"} | {"%s%02d%s%02d" % (sg, h_, c_, m_) for sg in "+-" for h_ in range(20) for c_ in ("", ":") for m_ in range(60)}
        allow_ = {"Z"} | {"%s%02d%s%02d" % (sg, h_, c_, m_) for sg in "+-" for h_ in range(24) for c_ in ("", ":") for m_ in range(60)}
        lacks, beyond = sorted(need_ - set(ol)), sorted(set(ol) - allow_)
        if lacks or beyond:
            yield VIOL("C16-R1", "iso8601/offset-language", "the zone designator language lacks %d well-formed zones (e.g. %s) / admits %d others (e.g. %s)" % (len(lacks), lacks[:3], len(beyond), beyond[:3]), where=b.span_of_block(bi))
        else:
            yield PASS("C16-R1", "iso8601/offset-language", "exactly Z | [-+]hh[:]mm, hh 00-%s, mm 00-59 (%d strings)" % (max(s_[1:3] for s_ in ol if s_ != "Z"), len(ol)), [])
    # the skeleton between the fields: optional '-' twice, literal 'T', optional ':' twice, optional [.,]<frac>, then the zone
    sk = f.get("skeleton")
    want_sk = {"<year>%s<month>%s<day>T<hour>%s<minute>%s<second>%s<offset>" % (d1, d2, c1, c2, fr_) for d1 in ("", "-") for d2 in ("", "-") for c1 in ("", ":") for c2 in ("", ":") for fr_ in ("", ".<frac>", ",<frac>")}
    if sk is None or set(sk) != want_sk:
        diff = sorted(set(sk or []) ^ want_sk)[:3]
        yield VIOL("C16-R1", "iso8601/skeleton", "the separators between the fields are not exactly [-]? [-]? 'T' [:]? [:]? ([.,]frac)? zone (differs e.g. in %s)" % diff, where=b.span_of_block(bi))
    else:
        yield PASS("C16-R1", "iso8601/skeleton", "%d separator combinations, exactly the reviewed ones" % len(sk), [])
    y = gs["year"]
    if not (y.get("rep_min") == 4 and y.get("rep_max") == 4 and y["min_len"] == 4):
        yield VIOL("C16-R1", "iso8601/field-range/year", "year is not exactly four digits", where=b.span_of_block(bi))
    else:
        yield PASS("C16-R1", "iso8601/field-range/year", "four digits%s" % ("" if y["ascii_only"] else " (Unicode \\d: non-ASCII digits are discharged by the caller-domain argument of C08)"), [])
    fr = gs.get("frac")
    if fr is None or fr["unconditional"] or not fr["ascii_only"] or fr["min_len"] != 1:
        yield VIOL("C16-R1", "iso8601/frac", "fraction group is not an optional run of >= 1 ASCII digits", where=b.span_of_block(bi))
    else:
        yield PASS("C16-R1", "iso8601/frac", "optional [.,][0-9]+", [])
    ctx.extra["iso8601_groups"] = {n: {"finite": g["finite"], "size": len(g["language"] or []), "unconditional": g["unconditional"]} for n, g in gs.items()}


@M.rule("C16-R2", "calendar validity through checked constructors; fields fed from the like-named groups; sign from the sign character")
def r2(ctx):
    b = ctx.fn(PARSE)
    ctx.count(8)
    # only *_opt constructors
    ctor = b.calls(r"^chrono::(NaiveDate|NaiveTime|NaiveDateTime|FixedOffset|DateTime<Tz>|DateTime::<Tz>|Utc|TimeZone)::\w+$")
    names = sorted({t["callee"] for _, t in ctor})
    allowed = {"chrono::FixedOffset::east_opt", "chrono::NaiveDate::from_ymd_opt", "chrono::NaiveTime::from_hms_nano_opt", "chrono::NaiveDateTime::new", "chrono::TimeZone::from_local_datetime"}
    extra = [n for n in names if n not in allowed]
    if extra:
        yield VIOL("C16-R2", "parse/constructors:" + extra[0].split("::")[-1], "unchecked / unreviewed chrono constructor(s) %s" % extra, where=loc(b.j["span"]))
    missing = [n for n in allowed if n not in names]
    if missing:
        yield VIOL("C16-R2", "parse/constructors-missing", "expected checked constructors missing: %s" % missing, where=loc(b.j["span"]))
    if not extra and not missing:
        yield PASS("C16-R2", "parse/constructors", "east_opt, from_ymd_opt, from_hms_nano_opt, NaiveDateTime::new, from_local_datetime only", [site(b, bi, t["callee"].split("::")[-1]) for bi, t in ctor])
    # each Option/LocalResult is matched; the failing edge returns Err; no unwrap on them
    for bi, t in ctor:
        if t["callee"].endswith("_opt") or t["callee"].endswith("from_local_datetime"):
            d = t["dest"]["local"]
            # `.single()` is the checked projection of a LocalResult (None unless exactly one instant): its Option is
            # what must be matched
            for ub, ut in b.calls(r"LocalResult::<T>::single$"):
                if root_local(b, ut["args"][0]) == d or op_local(ut["args"][0]) == d:
                    d = ut["dest"]["local"]
            users = [(ub, ut) for ub, ut in b.calls(r"Option::<T>::(unwrap\w*|expect)$|LocalResult::<T>::(unwrap|earliest|latest)$") if op_local(ut["args"][0]) == d or d in b.slice_op(ut["args"][0]).locals and len(b.slice_op(ut["args"][0]).calls) <= 1]
            if users:
                yield VIOL("C16-R2", "parse/unchecked-use:" + t["callee"].split("::")[-1], "result of %s is unwrapped instead of matched" % t["callee"], where=b.span_of_block(users[0][0]))
                continue
            def tests_d(a):
                c_ = b.cond_of_switch(a) or {}
                if c_.get("kind") != "discr":
                    return False
                pl_ = c_["place"]
                if pl_["local"] == d or root_local(b, {"copy": {"local": pl_["local"], "proj": []}}) == d:
                    return True
                # `let (Some(a), Some(b)) = (f(), g()) else ..`: field k of a tuple built in place
                fs_ = [e for e in pl_["proj"] if isinstance(e, dict) and "field" in e]
                sd = b.single_def(pl_["local"])
                if fs_ and sd and sd["kind"] == "assign" and sd["stmt"]["rv"].get("tuple") and fs_[0]["idx"] < len(sd["stmt"]["rv"]["ops"]):
                    o_ = sd["stmt"]["rv"]["ops"][fs_[0]["idx"]]
                    return op_local(o_) == d or root_local(b, o_) == d
                return False
            sw = [a for a in b.live_blocks() if tests_d(a)]
            okm = False
            for a in sw:
                succs = b.succ(a)
                oks = [x[0] for x in result_aggs(b, "Ok")]
                fails = [s for s in succs if not any(b.reachable(s, o) for o in oks)]
                errs = [x[0] for x in result_aggs(b, "Err")]
                if fails and all(any(b.reachable(s, e) for e in errs) for s in fails):
                    okm = True
            if not okm:
                yield VIOL("C16-R2", "parse/unmatched:" + t["callee"].split("::")[-1], "the failing case of %s does not return Err" % t["callee"], where=b.span_of_block(bi))
    # positional feeding
    def group_of(o):
        sl = b.slice_op(o)
        names_ = set()
        for _, t in sl.find_calls(r"regex::Captures::<'h>::name$"):
            kv, _c = const_str_of(b, t["args"][1])
            names_.add(kv)
        return names_

    feed = {"chrono::NaiveDate::from_ymd_opt": ["year", "month", "day"], "chrono::NaiveTime::from_hms_nano_opt": ["hour", "minute", "second", "frac"]}
    okf = True
    for bi, t in ctor:
        exp = feed.get(t["callee"])
        if not exp:
            continue
        for k, nm in enumerate(exp):
            g = group_of(t["args"][k])
            if g != {nm}:
                okf = False
                yield VIOL("C16-R2", "parse/field-feed/%s.%d" % (t["callee"].split("::")[-1], k), "argument %d of %s is fed from capture group(s) %s (expected `%s`)" % (k, t["callee"].split("::")[-1], sorted(g, key=str), nm), where=b.span_of_block(bi))
    # no arithmetic on the parsed fields between the capture and the constructor (rounding / adjusting changes the instant)
    for bi, t in ctor:
        if t["callee"] in feed:
            for k, a in enumerate(t["args"]):
                sl = b.slice_op(a)
                ar = [d for d in sl.assigns if d["stmt"]["rv"]["k"] == "binop" and re.match(r"(Add|Sub|Mul|Div|Rem)", d["stmt"]["rv"]["op"])]
                if ar:
                    okf = False
                    yield VIOL("C16-R2", "parse/field-arith/%s.%d" % (t["callee"].split("::")[-1], k), "argument %d of %s is adjusted arithmetically (%s) after being parsed" % (k, t["callee"].split("::")[-1], ar[0]["stmt"]["rv"]["op"]), where=loc(ar[0]["stmt"]["span"]))
    if okf:
        yield PASS("C16-R2", "parse/field-feed", "from_ymd_opt(year, month, day); from_hms_nano_opt(hour, minute, second, frac) - each from its own capture group", [])
    # offset seconds
    eo = [x for x in ctor if x[1]["callee"].endswith("east_opt")]
    if eo:
        sl = b.slice_op(eo[0][1]["args"][0])
        consts = [v for v in sl.const_values() if isinstance(v, int)]
        g = group_of(eo[0][1]["args"][0])
        probs = []
        if g != {"offset"}:
            probs.append("offset seconds are fed from group(s) %s" % sorted(g, key=str))
        if 3600 not in consts or 60 not in consts:
            probs.append("hh*3600 + mm*60 not found (constants %s)" % sorted(set(consts))[:8])
        # sign: a value in {-1, 1} chosen under a test of the sign character against "-"
        sign_ok = False
        for a in sorted(b.live_blocks()):
            c = b.cond_of_switch(a)
            if not c or c["kind"] != "call":
                continue
            t = c["term"]
            cal = c["callee"]
            vals = b.slice_op(t["args"][0]).const_values() + (b.slice_op(t["args"][1]).const_values() if len(t["args"]) > 1 else [])
            is_sign_test = (re.search(r"PartialEq::(eq|ne)$|str>::starts_with$", cal) and ("-" in vals or ord("-") in vals or "+" in vals or ord("+") in vals))
            if is_sign_test and "offset" in (group_of(t["args"][0]) | (group_of(t["args"][1]) if len(t["args"]) > 1 else set())):
                # the sign local gets -1 on one edge and 1 on the other
                for l, dd in b.defs().items():
                    vs = sorted(const_value(op_const(d["stmt"]["rv"]["op"]) or {}) for d in dd if d["kind"] == "assign" and d["stmt"]["rv"]["k"] == "use" and op_const(d["stmt"]["rv"]["op"]) and isinstance(const_value(op_const(d["stmt"]["rv"]["op"])), int))
                    if vs == [-1, 1] and l in sl.locals and all(any(aa == a for aa, ss in b.guards(d["block"])) for d in dd if d["kind"] == "assign"):
                        sign_ok = True
        if not sign_ok:
            probs.append("the sign is not decided by a test of the sign character against '-' selecting -1 / +1 (a numeric test would lose the sign of -00:mm)")
        if probs:
            yield VIOL("C16-R2", "parse/offset-seconds", "; ".join(probs), where=b.span_of_block(eo[0][0]))
        else:
            yield PASS("C16-R2", "parse/offset-seconds", "east_opt(sign * (hh*3600 + mm*60)), sign = -1 iff the sign character is '-'", [site(b, eo[0][0], "east_opt")])
    # the fraction is brought to exactly 9 digits
    tr = b.calls(r"String::truncate$|Iterator::take$")
    if not tr or const_value(op_const(b.resolve_copy(tr[0][1]["args"][1])) or {}) != 9:
        yield VIOL("C16-R2", "parse/frac-nanos", "fraction is not padded/truncated to 9 digits (nanoseconds)", where=loc(b.j["span"]))
    else:
        yield PASS("C16-R2", "parse/frac-nanos", "fraction padded with '0' and truncated to 9 digits", [site(b, tr[0][0], "truncate(9)")])
    # an absent fraction means 0 ns: the only integer constant that can reach the nanosecond argument is 0
    for bi, t in ctor:
        if t["callee"].endswith("from_hms_nano_opt") and len(t["args"]) > 3:
            sl_ = b.slice_op(t["args"][3])
            direct = []
            work_, seen_ = [op_local(t["args"][3])], set()
            while work_:
                x_ = work_.pop()
                if x_ is None or x_ in seen_:
                    continue
                seen_.add(x_)
                for d_ in b.defs().get(x_, []):
                    if d_["kind"] == "assign" and d_["stmt"]["rv"]["k"] == "use":
                        k_ = op_const(d_["stmt"]["rv"]["op"])
                        if k_ is not None:
                            direct.append(const_value(k_))
                        else:
                            work_.append(op_local(d_["stmt"]["rv"]["op"]))
            nz = [v for v in direct if v != 0]
            if nz:
                yield VIOL("C16-R2", "parse/frac-absent", "without a fraction the nanosecond field is %s, not 0: the parsed instant is off" % nz, where=b.span_of_block(bi))
            else:
                yield PASS("C16-R2", "parse/frac-absent", "no fraction => 0 ns (constants reaching the nanosecond argument: %s)" % sorted(set(direct)), [])
    # which strings are refused is decided by the pattern and by chrono's checked constructors only: no condition on the way
    # to an Err looks at the raw input except through the capture groups (a length limit, a prefix test, a fast path with
    # its own idea of well-formed refuses timestamps the pattern accepts)
    raw_conds = []
    for eb, i_, s_ in result_aggs(b, "Err"):
        for a_, sx_, c_, tr_ in guard_conditions(b, eb):
            ops_ = list(c_["term"]["args"]) if c_["kind"] == "call" else [c_["l"], c_["r"]] if c_["kind"] == "binop" else [{"copy": {"local": c_["local"], "proj": []}}] if c_["kind"] == "local" else [{"copy": c_["place"]}] if c_["kind"] == "place" else []
            for o_ in ops_:
                if op_const(o_) is not None:
                    continue
                sl_ = b.slice_op(o_, int_barrier=False)
                if 1 in sl_.params and not sl_.has_call(r"regex::Regex::(captures|captures_at|is_match|find)$"):
                    raw_conds.append((a_, c_.get("callee", c_.get("op", "?")).split("::")[-1]))
    # ... and each Err sits directly on the failing edge of the pattern match or of one of chrono's checked constructors:
    # no further test on the parsed fields (a "strictness" check on the sign, the offset, the year ..) refuses a string the
    # reference parser accepts
    DECIDERS = r"regex::Regex::captures(_at)?$|chrono::FixedOffset::(east|west)_opt$|chrono::NaiveDate::from_ymd_opt$|chrono::NaiveTime::from_hms(_nano|_micro|_milli)?_opt$|chrono::TimeZone::from_local_datetime$|LocalResult::<T>::single$|chrono::NaiveDate::and_hms\w*_opt$|ops::Try::branch$|Option::<T>::ok_or(_else)?$"
    for eb, i_, s_ in result_aggs(b, "Err"):
        for a_ in sorted({a_ for a_, sx_ in b.control_deps().get(eb, ())}):
            c_ = b.cond_of_switch(a_)
            okd = False
            if c_ and c_["kind"] == "discr":
                od_ = b.origin_def({"copy": c_["place"]})  # (also a component of a tuple of results matched at once)
                if od_ and od_[0] == "place":
                    od_ = b.origin_def({"copy": {"local": od_[1]["local"], "proj": []}})
                hops_ = 0
                while od_ and od_[0] == "def" and od_[1]["kind"] == "call" and re.search(r"ops::Try::branch$|Option::<T>::ok_or(_else)?$|LocalResult::<T>::single$", od_[1]["term"]["callee"]) and hops_ < 4:
                    od_ = b.origin_def(od_[1]["term"]["args"][0])
                    hops_ += 1
                okd = bool(od_ and od_[0] == "def" and od_[1]["kind"] == "call" and re.search(DECIDERS, od_[1]["term"]["callee"]))
            if not okd:
                raw_conds.append((a_, "a test on parsed fields (%s)" % ((c_ or {}).get("callee") or (c_ or {}).get("op") or (c_ or {}).get("kind") or "?").split("::")[-1]))
    if raw_conds:
        yield VIOL("C16-R2", "parse/raw-input-condition", "a refusal is decided by something other than the pattern match / a checked constructor (%s): a string the pattern accepts can be rejected" % sorted({w for _, w in raw_conds}), where=b.span_of_block(raw_conds[0][0]))
    else:
        yield PASS("C16-R2", "parse/refusals-by-pattern", "every Err is decided by the pattern match or a checked constructor", [])
    # the regex used is ISO_8601_REGEX and the whole input is matched
    cap = one(b.calls(r"regex::Regex::(captures|captures_at)$"), "Regex::captures")
    rs = b.slice_op(cap[1]["args"][0])
    if not any("ISO_8601_REGEX" in (c.get("repr", "") + c.get("static", "")) for c in rs.consts) or 1 not in b.slice_op(cap[1]["args"][1]).locals or b.slice_op(cap[1]["args"][1]).calls:
        yield VIOL("C16-R2", "parse/regex-input", "captures() is not ISO_8601_REGEX applied to the unmodified input", where=b.span_of_block(cap[0]))
    else:
        yield PASS("C16-R2", "parse/regex-input", "ISO_8601_REGEX.captures(s) on the whole input", [site(b, cap[0], "captures")])


@M.rule("C16-R3", "parse failure => IncompleteSignature; only map_err / ? / with_timezone(&Utc) between parse and the stored timestamp; format strings")
def r3(ctx):
    b = ctx.fn(GAFP)
    st = one(b.calls(r"SigV4AuthenticatorBuilder::request_timestamp$"), "builder.request_timestamp")
    sl = b.slice_op(st[1]["args"][1], stop_at_calls=lambda t: bool(re.search(r"parse_from_iso8601$", t.get("callee", ""))))
    names = [c for c in sl.callee_names()]
    allowed = [r"parse_from_iso8601$", r"Result::<T, E>::map_err$", r"ops::Try::branch$", r"DateTime::<Tz>::with_timezone$"]
    extra = [c for c in names if not any(re.search(a, c) for a in allowed)]
    ctx.count(3)
    if extra or not sl.has_call(r"with_timezone$") or not sl.has_call(r"parse_from_iso8601$"):
        yield VIOL("C16-R3", "gafp/timestamp-chain", "between parse_from_iso8601 and builder.request_timestamp: %s (only map_err, ?, with_timezone(&Utc) are allowed: rounding or re-labelling changes the instant)" % (extra or names), where=b.span_of_block(st[0]))
    else:
        wt = sl.find_calls(r"with_timezone$")[0]
        if "chrono::Utc" not in wt[1].get("resolved_full", ""):
            yield VIOL("C16-R3", "gafp/timezone", "with_timezone target is not Utc", where=b.span_of_block(wt[0]))
        else:
            yield PASS("C16-R3", "gafp/timestamp-chain", "parse_from_iso8601(ts).map_err(..)?.with_timezone(&Utc) and nothing else", [site(b, st[0], "request_timestamp")])
    # parse input is auth_params.timestamp_str unmodified
    pc = one(b.calls(r"parse_from_iso8601$"), "parse call")
    ps = b.slice_op(pc[1]["args"][0])
    pextra = [c for c in ps.callee_names() if not re.search(r"String::as_str$|Deref::deref$|AsRef::as_ref$", c)]
    if not ps.has_field("timestamp_str") or pextra:
        yield VIOL("C16-R3", "gafp/parse-input", "the string parsed is not auth_params.timestamp_str as given (%s)" % pextra, where=b.span_of_block(pc[0]))
    else:
        yield PASS("C16-R3", "gafp/parse-input", "parses auth_params.timestamp_str unmodified", [])
    # error kind
    cl = [c for c in ctx.facts.closures_of(GAFP)]
    kinds = {s["rv"]["variant"] for c in cl for _, _, s in err_sites(c)} | {s["rv"]["variant"] for _, _, s in err_sites(b)}
    if kinds != {"IncompleteSignature"}:
        yield VIOL("C16-R3", "gafp/parse-error-kind", "a timestamp parse failure is reported as %s" % sorted(kinds), where=loc(b.j["span"]))
    else:
        yield PASS("C16-R3", "gafp/parse-error-kind", "parse failure => IncompleteSignature (400)", [])
    # format strings
    sts = ctx.fn("auth::SigV4Authenticator::get_string_to_sign")
    fm = [t for _, t in sts.calls(r"DateTime::<Tz>::format$")]
    v = const_str_of(sts, fm[0]["args"][1])[0] if fm else None
    if v != "%Y%m%dT%H%M%SZ" or (fm and "chrono::Utc" not in fm[0].get("resolved_full", "")):
        yield VIOL("C16-R3", "string-to-sign/timestamp-format", "timestamp line rendered with %r" % v, where=loc(sts.j["span"]))
    else:
        yield PASS("C16-R3", "string-to-sign/timestamp-format", "DateTime<Utc>::format(\"%Y%m%dT%H%M%SZ\")", [])
    # the authenticator stores a DateTime<Utc>
    adt = ctx.facts.adts.get("auth::SigV4Authenticator")
    fty = {f["name"]: f["ty"] for v_ in adt["variants"] for f in v_["fields"]} if adt else {}
    if fty.get("request_timestamp") != "chrono::DateTime<chrono::Utc>":
        yield VIOL("C16-R3", "authenticator/timestamp-type", "request_timestamp has type %s" % fty.get("request_timestamp"), where=None)
    else:
        yield PASS("C16-R3", "authenticator/timestamp-type", "SigV4Authenticator.request_timestamp: DateTime<Utc>", [])


@M.rule("C16-R4", "a malformed timestamp yields the format error, never a panic: every panic-capable construct of the parser is discharged (shared with C08-R1)")
def r4(ctx):
    import c08
    from registry import Ctx

    sub = Ctx(ctx.facts, None, ctx.tier, ctx.repo)
    res = [r for r in c08.r1(sub) if "parse_from_iso8601" in r.key or r.rule == "C08-R1" and r.status == "PASS"]
    n = 0
    for r in res:
        if r.status != "PASS" and "parse_from_iso8601" not in r.key:
            continue
        r.rule = "C16-R4"
        n += 1
        yield r


@M.rule("C16-R5", "the string handed to the parser is the carrier's whole timestamp value (decoded on the query carrier; the normalised header value as it is) - shared with C02-R1 / C02-R1h")
def r5(ctx):
    """Which strings are timestamps is decided by the pattern (R1) only if the pattern sees the whole value: a cut, trim or
    re-casing between the lookup and `parse_from_iso8601` changes the accepted language (`20150830T123600Z,junk`)."""
    import c02

    n = 0
    for r in list(c02.r1(ctx)) + list(c02.r1h(ctx)):
        if "timestamp" in r.key or r.status != "PASS":
            r.rule = "C16-R5"
            n += 1
            yield r
    if not n:
        yield MISSING("C16-R5", "timestamp/no-instance", "no timestamp instance of C02-R1 / C02-R1h")


@M.rule("C16-R6", "header-carrier text is the header's bytes widened one by one (shared with C02-R9)")
def r_latin1(ctx):
    import c02

    for r in c02.r9(ctx):
        r.rule = "C16-R6"
        yield r
