"""C01 Forgery resistance: success implies a correct signature over the request (structural necessary conditions)."""
from lib import *
from registry import Module

M = Module(
    "C01",
    "Forgery resistance",
    "Dominance + def-use facts over the MIR of validate_signature, get_string_to_sign, canonical_request, from_request_parts, "
    "get_authenticator_from_auth_parameters, sigv4_validate_request and the crypto wrappers: the only Ok is behind the ct_eq verdict, "
    "the compared operands are (presented signature, hex(HMAC(provider key, string-to-sign))) in the right argument positions, and every "
    "component the property lists flows into the string-to-sign / canonical request on every path. Holds for all inputs because it "
    "quantifies over CFG paths and def-use chains, not values.",
    ["hmac/sha2/hex/subtle implement their documented functions", "byte layout (separator bytes, line order) of the assembled strings is NOT decided",
     "rustc's MIR construction and trait resolution are correct"],
)

VS = "auth::SigV4Authenticator::validate_signature"
STS = "auth::SigV4Authenticator::get_string_to_sign"
CR = "canonical::CanonicalRequest::canonical_request"
FRP = "canonical::CanonicalRequest::from_request_parts"
GAFP = "canonical::CanonicalRequest::get_authenticator_from_auth_parameters"
ENTRY = "signature::sigv4_validate_request"


def verdict_guard(body):
    """Locate the ct_eq verdict: returns dict(ct_block, ct_term, into_block, switch_block, ok_block, ok_truth)."""
    oks = result_aggs(body, "Ok")
    if len(oks) != 1:
        return None, "expected exactly one `Ok(..)` construction in %s, found %d" % (body.path, len(oks))
    okb = oks[0][0]
    found = None
    for a, s, c, truth in guard_conditions(body, okb):
        if c["kind"] == "call" and resolved_is(c["term"], r"<subtle::Choice as std::convert::Into<bool>>::into|<bool as std::convert::From<subtle::Choice>>::from|impl std::convert::From<subtle::Choice> for bool>::from"):
            found = (a, s, c, truth)
    if not found:
        return None, "the Ok block bb%d is not control-dependent on a bool made from subtle::Choice" % okb
    a, s, c, truth = found
    od = body.origin_def(c["term"]["args"][0])
    if not (od and od[0] == "def" and od[1]["kind"] == "call" and resolved_is(od[1]["term"], r"<\[u8\] as subtle::ConstantTimeEq>::ct_eq")):
        return None, "the Choice converted to bool does not come from <[u8] as ConstantTimeEq>::ct_eq"
    return {"ok_block": okb, "ok_stmt": oks[0][2], "switch": a, "truth": truth, "into": c, "ct_block": od[1]["block"], "ct": od[1]["term"]}, None


@M.rule("C01-R1", "the only Ok of validate_signature is behind ct_eq(presented, hex(hmac(provider key, string-to-sign)))")
def r1(ctx):
    b = ctx.co(VS)
    v, why = verdict_guard(b)
    if v is None:
        yield VIOL("C01-R1", "validate_signature/ok-not-behind-ct_eq", why, where=loc(b.j["span"]))
        return
    ctx.count(3)
    if v["truth"] is not True:
        yield VIOL("C01-R1", "validate_signature/ok-on-mismatch-edge", "Ok is constructed on the edge where the constant-time comparison is %s" % v["truth"], where=b.span_of_block(v["ok_block"]))
    else:
        yield PASS("C01-R1", "validate_signature/ok-guard", "single Ok, on the TRUE edge of bool::from(Choice) of <[u8]>::ct_eq", [site(b, v["ok_block"], "Ok"), site(b, v["ct_block"], "ct_eq")])
    # no Err->Ok conversion elsewhere: every write to _0 other than that Ok is Err or from_residual
    for d in b.defs().get(0, []):
        if d["kind"] == "assign":
            rv = d["stmt"]["rv"]
            if not (rv["k"] == "aggregate" and rv.get("adt") == "std::result::Result"):
                yield VIOL("C01-R1", "validate_signature/return-not-result-aggregate", "return place written by something other than Ok/Err construction", where=loc(d["stmt"]["span"]))
        elif d["kind"] == "call" and not callee_is(d["term"], r"FromResidual::from_residual$"):
            yield VIOL("C01-R1", "validate_signature/return-from-call:" + d["term"].get("callee", "?"), "return value produced by a call other than `?` propagation", where=b.span_of_block(d["block"]))
    # operands
    ct = v["ct"]
    sa, sb = b.slice_op(ct["args"][0]), b.slice_op(ct["args"][1])
    pres, exp = None, None
    for nm, sl in (("arg0", sa), ("arg1", sb)):
        if sl.has_call(r"SigV4Authenticator::signature$") and not sl.has_call(r"crypto::hmac_sha256$"):
            pres = (nm, sl)
        if sl.has_call(r"crypto::hmac_sha256$") and not sl.has_call(r"SigV4Authenticator::signature$"):
            exp = (nm, sl)
    if not pres or not exp or pres[0] == exp[0]:
        yield VIOL("C01-R1", "validate_signature/ct_eq-operands", "ct_eq operands are not (presented signature from self.signature(), expected from hmac_sha256): arg0 calls=%s arg1 calls=%s" % (
            [c for c in sa.callee_names() if "auth::" in c or "crypto::" in c], [c for c in sb.callee_names() if "auth::" in c or "crypto::" in c]), where=b.span_of_block(v["ct_block"]))
        return
    yield PASS("C01-R1", "validate_signature/ct_eq-operands", "one operand derives only from self.signature(), the other from hmac_sha256", [site(b, v["ct_block"], "ct_eq")])
    # both operands are compared whole and untransformed: no truncation / slicing / case folding / zipping on either chain
    LOSSY = r"(ops::Index::index|slice::<impl \[T\]>::(get|first|last|split_at|split_first|split_last|chunks\w*|iter|windows|starts_with|ends_with)|str>::(get|split_at|trim\w*|to_\w*case|to_ascii_\w+|chars|bytes|split\w*|strip_\w+|replace\w*|parse)|String::(truncate|pop|remove|drain)|Iterator::\w+|Vec::<T, A>::(truncate|pop|drain|split_off)|to_ascii_(lower|upper)case|hex::decode)$"
    stop = lambda t: bool(re.search(r"SigV4Authenticator::(get_string_to_sign|get_signing_key)$|GetSigningKeyResponse::signing_key$", t.get("callee", "")))
    for nm, o in (("presented", ct["args"][0] if pres[0] == "arg0" else ct["args"][1]), ("expected", ct["args"][1] if pres[0] == "arg0" else ct["args"][0])):
        sl = b.slice_op(o, stop_at_calls=stop)
        bad = [c for c in sl.callee_names() if re.search(LOSSY, c)]
        if bad:
            yield VIOL("C01-R1", "validate_signature/%s-transformed:%s" % (nm, bad[0].split("::")[-1]), "the %s signature is transformed/truncated by `%s` before the comparison: strings that differ from the HMAC can be accepted" % (nm, bad[0]), where=b.span_of_block(v["ct_block"]))
        else:
            yield PASS("C01-R1", "validate_signature/%s-untransformed" % nm, "%s signature reaches ct_eq whole (chain: %s)" % (nm, [c.split("::")[-1] for c in sl.callee_names() if "future" not in c and "pin" not in c.lower()][:8]), [])
    # the presented operand must derive from `self` only (no constants other than via accessor)
    self_l = param_by_name(b, "self")
    if self_l not in pres[1].locals:
        yield VIOL("C01-R1", "validate_signature/presented-not-from-self", "presented signature operand does not derive from self", where=b.span_of_block(v["ct_block"]))
    # expected = hex::encode(hmac_sha256(key, msg))
    if not exp[1].has_call(r"^hex::encode$"):
        yield VIOL("C01-R1", "validate_signature/expected-not-hex", "expected signature is not hex::encode of the HMAC", where=b.span_of_block(v["ct_block"]))
    hm = exp[1].find_calls(r"crypto::hmac_sha256$")
    if len(hm) != 1:
        yield VIOL("C01-R1", "validate_signature/hmac-count", "expected exactly one hmac_sha256 feeding the comparison, found %d" % len(hm), where=b.span_of_block(v["ct_block"]))
        return
    hb, ht = hm[0]
    ks, ms = b.slice_op(ht["args"][0]), b.slice_op(ht["args"][1])
    ctx.count(2)
    key_ok = ks.has_call(r"GetSigningKeyResponse::signing_key$") and ks.has_call(r"SigV4Authenticator::get_signing_key$") and not ks.has_call(r"get_string_to_sign$")
    msg_ok = ms.has_call(r"SigV4Authenticator::get_string_to_sign$") and not ms.has_call(r"GetSigningKeyResponse::signing_key$")
    if not key_ok:
        yield VIOL("C01-R1", "validate_signature/hmac-key-arg", "argument 0 (key) of hmac_sha256 does not derive from response.signing_key() of the awaited get_signing_key (calls: %s)" % ks.callee_names()[:8], where=b.span_of_block(hb))
    else:
        yield PASS("C01-R1", "validate_signature/hmac-key-arg", "hmac_sha256 arg0 <= GetSigningKeyResponse::signing_key(<= get_signing_key(..).await?)", [site(b, hb, "hmac_sha256")])
    if not msg_ok:
        yield VIOL("C01-R1", "validate_signature/hmac-msg-arg", "argument 1 (message) of hmac_sha256 does not derive from self.get_string_to_sign()", where=b.span_of_block(hb))
    else:
        yield PASS("C01-R1", "validate_signature/hmac-msg-arg", "hmac_sha256 arg1 <= self.get_string_to_sign()", [site(b, hb, "hmac_sha256")])
    # the key-bearing response must come through the Ok/Continue edge of `?` on the awaited call
    gsk = one(b.calls(r"SigV4Authenticator::get_signing_key$"), "call of get_signing_key in validate_signature")
    if not b.dominates(gsk[0], hb):
        yield VIOL("C01-R1", "validate_signature/key-before-provider", "hmac is not dominated by the provider call", where=b.span_of_block(hb))
    # Ok payload <= Into::into(response) where response is the provider's
    okrv = v["ok_stmt"]["rv"]
    osl = b.slice_op(okrv["ops"][0])
    conv = osl.find_calls(r"convert::Into::into$|convert::From::from$", r"GetSigningKeyResponse")
    if not conv or not osl.has_call(r"SigV4Authenticator::get_signing_key$"):
        yield VIOL("C01-R1", "validate_signature/ok-payload", "Ok payload is not the conversion of the provider's response", where=b.span_of_block(v["ok_block"]))
    else:
        yield PASS("C01-R1", "validate_signature/ok-payload", "Ok payload <= <GetSigningKeyResponse as Into<SigV4AuthenticatorResponse>>::into(provider response)", [site(b, v["ok_block"], "Ok")])


@M.rule("C01-R2", "crypto wrappers: key is argument 0 of the MAC constructor, data goes to update, result is finalize; real HMAC-SHA256 / SHA-256 instances")
def r2(ctx):
    b = ctx.fn("crypto::hmac_sha256")
    new = one(b.calls(r"hmac::Mac::new_from_slice$|KeyInit::new_from_slice$"), "Mac::new_from_slice in hmac_sha256")
    ctx.count(4)
    if "hmac::HmacCore" not in new[1].get("resolved_full", "") or "Sha256VarCore" not in new[1].get("resolved_full", ""):
        yield VIOL("C01-R2", "hmac_sha256/instance", "MAC instance is not Hmac<Sha256>: %s" % new[1].get("resolved_full", "")[:120], where=b.span_of_block(new[0]))
    ks = b.slice_op(new[1]["args"][0])
    if ks.params != {1}:
        yield VIOL("C01-R2", "hmac_sha256/key-param", "MAC key does not derive from parameter 0 (`key`) only: params %s" % sorted(ks.params), where=b.span_of_block(new[0]))
    else:
        yield PASS("C01-R2", "hmac_sha256/key-param", "new_from_slice(key) <= parameter 0 only", [site(b, new[0], "new_from_slice")])
    ups = b.calls(r"Mac::update$|Update::update$|Mac::chain_update$|Update::chain\w*$")
    if not ups:
        yield VIOL("C01-R2", "hmac_sha256/no-update", "no update() call", where=loc(b.j["span"]))
    for ub, ut in ups:
        us = b.slice_op(ut["args"][1])
        if us.params != {2}:
            yield VIOL("C01-R2", "hmac_sha256/update-param", "update() data does not derive from parameter 1 (`value`) only: params %s" % sorted(us.params), where=b.span_of_block(ub))
        else:
            yield PASS("C01-R2", "hmac_sha256/update-param", "update(value) <= parameter 1 only", [site(b, ub, "update")])
    rs = b.slice([0])
    if not rs.has_call(r"Mac::finalize$|FixedOutput::finalize_fixed$") or not all(b.dominates(u[0], r) for u in ups for r in b.return_blocks()):
        yield VIOL("C01-R2", "hmac_sha256/result", "result does not derive from finalize() after update()", where=loc(b.j["span"]))
    else:
        yield PASS("C01-R2", "hmac_sha256/result", "result <= finalize() and update dominates return", [site(b, ups[0][0], "update")])
    # sha256: Sha256::new(); update(value); finalize()  -- or the one-shot Sha256::digest(value)
    s = ctx.fn("crypto::sha256")
    one_shot = s.calls(r"Digest::digest$")
    if one_shot:
        ob, ot = one_shot[0]
        rs = s.slice([0])
        if "Sha256VarCore" not in ot.get("resolved_full", "") or s.slice_op(ot["args"][0]).params != {1} or not any(cb == ob for cb, _ in rs.calls):
            yield VIOL("C01-R2", "sha256/dataflow", "sha256 is not Sha256::digest(param)", where=loc(s.j["span"]))
        else:
            yield PASS("C01-R2", "sha256/dataflow", "Sha256::digest(param0)", [site(s, ob, "digest")])
    else:
        new = one(s.calls(r"Digest::new$"), "Digest::new in sha256")
        if "Sha256VarCore" not in new[1].get("resolved_full", ""):
            yield VIOL("C01-R2", "sha256/instance", "hasher is not Sha256", where=s.span_of_block(new[0]))
        ups = s.calls(r"Digest::update$|Update::update$|Digest::chain_update$")
        ok = bool(ups)
        for ub, ut in ups:
            if s.slice_op(ut["args"][1]).params != {1}:
                ok = False
        rs = s.slice([0])
        if not ok or not rs.has_call(r"Digest::finalize$") or not all(s.dominates(u[0], r) for u in ups for r in s.return_blocks()):
            yield VIOL("C01-R2", "sha256/dataflow", "sha256 does not hash exactly its parameter", where=loc(s.j["span"]))
        else:
            yield PASS("C01-R2", "sha256/dataflow", "Sha256::new(); update(param0); finalize()", [site(s, ups[0][0], "update")])
    nref = (ctx.facts.j.get("refolded") or {}).get("crypto::sha256_hex", 0)
    if nref and not ctx.facts.find_bodies(r"^crypto::sha256_hex$"):
        # the wrapper was written out at its call site(s) (`hex::encode(sha256(x))`); the normaliser folded those back
        yield PASS("C01-R2", "sha256_hex/dataflow", "sha256_hex is written out as hex::encode(sha256(x)) at its %d call site(s)" % nref, [])
        return
    h = ctx.fn("crypto::sha256_hex")
    hs = h.slice([0])
    if not (hs.has_call(r"crypto::sha256$") and hs.has_call(r"^hex::encode$") and hs.params == {1}):
        yield VIOL("C01-R2", "sha256_hex/dataflow", "sha256_hex is not hex::encode(sha256(param))", where=loc(h.j["span"]))
    else:
        yield PASS("C01-R2", "sha256_hex/dataflow", "hex::encode(sha256(param0))", [loc(h.j["span"])])


def _sts_ingredients():
    return [
        ("algorithm", lambda sl, t: sl.has_const_value("AWS4-HMAC-SHA256")),
        ("timestamp", lambda sl, t: sl.has_call(r"SigV4Authenticator::request_timestamp$") and sl.has_call(r"DateTime::<Tz>::format$") and sl.has_const_value("%Y%m%dT%H%M%SZ")),
        ("scope", lambda sl, t: sl.has_call(r"SigV4Authenticator::credential$") and sl.has_call(r"str>::split_once$")),
        ("canonical-request-hash", lambda sl, t: sl.has_call(r"SigV4Authenticator::canonical_request_sha256$") and sl.has_call(r"^hex::encode$")),
    ]


@M.rule("C01-R3", "string-to-sign includes algorithm, compact UTC timestamp, credential scope and hex canonical-request hash on every path")
def r3(ctx):
    b = ctx.fn(STS)
    acc = returned_local(b)
    for name, pred in _sts_ingredients():
        must, anyh = must_contrib(b, acc, pred)
        ctx.count()
        if must:
            yield PASS("C01-R3", "get_string_to_sign/" + name, "appended to the returned buffer on every path", [site(b, must[0], name)])
        else:
            yield VIOL("C01-R3", "get_string_to_sign/" + name, "the returned buffer does not include the %s on every path (%d conditional appends)" % (name, len(anyh)), where=loc(b.j["span"]))
    # scope = part after the FIRST slash: split_once('/') then .1
    so = b.calls(r"str>::split_once$")
    if so:
        cv = const_value(op_const(so[0][1]["args"][1]) or {})
        second = False
        must, anyh = must_contrib(b, acc, lambda sl, t: sl.has_call(r"str>::split_once$"))
        for cb, t, ai, sl in acc_contribs(b, acc):
            if not sl.has_call(r"str>::split_once$"):
                continue
            for d in sl.assigns:
                rv = d["stmt"]["rv"]
                if rv["k"] == "use":
                    p = op_place(rv["op"])
                    if p and [e.get("idx") for e in p["proj"] if isinstance(e, dict) and "field" in e][-1:] == [1] and b.slice([p["local"]]).has_call(r"str>::split_once$"):
                        firsts = [e.get("idx") for e in p["proj"] if isinstance(e, dict) and "field" in e]
                        second = True
        if cv != ord("/") or not second:
            yield VIOL("C01-R3", "get_string_to_sign/scope-split", "credential scope is not the remainder after the first '/' (separator %r, takes .1: %s)" % (cv, second), where=b.span_of_block(so[0][0]))
        else:
            yield PASS("C01-R3", "get_string_to_sign/scope-split", "scope = credential.split_once('/').1", [site(b, so[0][0], "split_once")])


@M.rule("C01-R3b", "what is appended to the string-to-sign / the canonical request is the ingredient itself; the digest wrappers do nothing but digest")
def r3b(ctx):
    """The ingredient rules (R3, R4) ask that each ingredient *reaches* the hashed text; this one asks that it arrives
    unaltered: no trimming, re-casing, replacing, cutting (other than the credential's access key at the first '/')."""
    n = 0
    for fn, allow in ((STS, r"str>::split_once$|Iterator::map$"), (CR, r"slice::<impl \[T\]>::join$|Iterator::(map|enumerate|filter_map)$|slice::<impl \[T\]>::split_first$")):
        b = ctx.fn(fn)
        for bi, t in b.calls(r"Extend::extend$|Vec::<T, A>::(extend_from_slice|push)$|String::(push_str|push)$"):
            if len(t["args"]) < 2 or op_const(t["args"][1]) is not None:
                continue
            n += 1
            alt = transforms(b, t["args"][1], allow=allow)
            if alt:
                yield VIOL("C01-R3b", "%s/append-as-is" % fn.split("::")[-1], "a value appended to the %s is altered first (through %s): what is hashed is not the request's own method / path / query / header name / scope / hash" % ("string to sign" if fn == STS else "canonical request", [c.split("::")[-1] for c in alt]), where=b.span_of_block(bi))
    CLOSED = {
        "crypto::sha256_hex": r"^crypto::sha256$|^hex::encode$|AsRef::as_ref$|Deref::deref$|Borrow::borrow$",
        "crypto::sha256": r"Digest::(new|update|chain_update|finalize|digest|new_with_prefix)$|Sha256|convert::(Into|From)::\w+$|AsRef::as_ref$|Deref::deref$",
        "crypto::hmac_sha256": r"(Mac|KeyInit)::new_from_slice$|Mac::(update|chain_update|finalize)$|CtOutput::<T>::into_bytes$|Result::<T, E>::(expect|unwrap)$|convert::(Into|From)::\w+$|AsRef::as_ref$|Deref::deref$",
    }
    for fn, ok in CLOSED.items():
        if (ctx.facts.j.get("refolded") or {}).get(fn) and not ctx.facts.find_bodies("^" + re.escape(fn) + "$"):
            n += 1  # written out at its call sites as exactly the two calls (that is what was folded back)
            continue
        b = ctx.fn(fn)
        n += 1
        extra = [t["callee"] for bi, t in b.calls() if not re.search(ok, t["callee"])]
        if extra:
            yield VIOL("C01-R3b", "%s/closed-call-set" % fn.split("::")[-1], "`%s` calls %s besides the digest itself: its input or output is altered" % (fn, [c.split("::")[-1] for c in extra]), where=loc(b.j["span"]))
    ctx.count(n)
    if n < 8:
        yield MISSING("C01-R3b", "append-as-is/floor", "only %d appends / wrappers examined" % n)
    else:
        yield PASS("C01-R3b", "append-as-is", "%d appends and digest wrappers: ingredients arrive unaltered" % n, [])


@M.rule("C01-R4", "canonical request includes method, path, query, signed headers (name+values by lookup), signed-header list and body hash")
def r4(ctx):
    b = ctx.fn(CR)
    acc = returned_local(b)
    def only_field(sl, f):
        """reads self.<f> (directly or through the accessor) and no other field of self"""
        return sl.reads_field(f) and not [fs for l_, fs in sl.fieldreads if l_ == 1 and fs and fs[0] != f]

    must_ingredients = [
        ("method", lambda sl, t: only_field(sl, "request_method")),
        ("path", lambda sl, t: only_field(sl, "canonical_path")),
        ("query", lambda sl, t: sl.has_call(r"CanonicalRequest::canonical_query_string$") or (sl.has_call(r"canonical::canonicalize_query_to_string$") and only_field(sl, "query_parameters"))),
        ("signed-header-list", lambda sl, t: sl.has_call(r"slice::<impl \[T\]>::join$") and 2 in sl.params),
        ("body-hash", lambda sl, t: only_field(sl, "body_sha256")),
    ]

    def list_loop_contrib():
        """sibling of `signed_headers.join(";")`: `for (i, h) in signed_headers.iter().enumerate() { if i > 0 { push(b';') }
        extend(h) }` - every element of the parameter is appended (the append post-dominates the Some edge of a loop over the
        whole list that is not the header-block loop: it does not depend on a header lookup), the loop dominates the returns"""
        rets_ = b.return_blocks()
        for cb_, t_, ai_, sl_ in acc_contribs(b, acc):
            if not (2 in sl_.params and not sl_.has_call(r"HashMap::<K, V, S, A>::get$") and b.in_cycle(cb_)):
                continue
            if any(c_["kind"] == "discr" and b.slice([c_["place"]["local"]]).has_call(r"HashMap::<K, V, S, A>::get$") for _, _, c_, _ in guard_conditions(b, cb_)):
                continue
            nx_ = [(nb, nt) for nb, nt in sl_.find_calls(r"Iterator::next$") if b.in_cycle(nb) and b.dominates(nb, cb_)]
            if len(nx_) != 1:
                continue
            its_ = b.slice_op(nx_[0][1]["args"][0])
            if its_.has_call(r"Iterator::(filter|filter_map|skip|take|step_by|skip_while|take_while|rev|chain|zip)$|slice::<impl \[T\]>::(split\w*|chunks\w*|windows|get|first|last)$|HashMap") or 2 not in its_.params:
                continue
            st_ = b.term(nx_[0][1]["target"])
            some_ = [bb for v, bb in st_["targets"] if v == 1] if st_["k"] == "switch" else []
            if some_ and b.postdominates(cb_, some_[0]) and all(b.dominates(nx_[0][0], r_) for r_ in rets_):
                return [cb_]
        return []

    for name, pred in must_ingredients:
        must, anyh = must_contrib(b, acc, pred)
        if not must and name == "signed-header-list":
            must = list_loop_contrib()
        ctx.count()
        if must:
            yield PASS("C01-R4", "canonical_request/" + name, "appended on every path", [site(b, must[0], name)])
        else:
            yield VIOL("C01-R4", "canonical_request/" + name, "canonical request does not include the %s on every path (%d conditional appends)" % (name, len(anyh)), where=loc(b.j["span"]))
    # header block: name from the signed list, values from self.headers.get(name)
    def is_name(sl, t):
        return 2 in sl.params and not sl.has_call(r"HashMap::<K, V, S, A>::get$") and not sl.has_call(r"join$")

    def is_value(sl, t):
        g = sl.find_calls(r"HashMap::<K, V, S, A>::get$")
        return bool(g) and sl.reads_field("headers") and 2 in sl.params

    _, names = must_contrib(b, acc, is_name)
    if not names:
        # the (name, values) pair travels through an iterator pipeline: judge the name component on its own
        for cb_, t_, ai_, sl_ in acc_contribs(b, acc):
            for i_, a_ in enumerate(t_["args"]):
                if i_ == ai_:
                    continue
                cs_ = element_component(b, a_)
                if cs_ is not None and is_name(cs_, t_):
                    names.append(cb_)
    _, values = must_contrib(b, acc, is_value)
    if not names:
        yield VIOL("C01-R4", "canonical_request/header-names", "no append of a signed header's name", where=loc(b.j["span"]))
    else:
        yield PASS("C01-R4", "canonical_request/header-names", "header name (element of parameter signed_headers) appended in the loop", [site(b, names[0], "name")])
    if not values:
        yield VIOL("C01-R4", "canonical_request/header-values", "no append of the values looked up in self.headers for a signed header", where=loc(b.j["span"]))
    else:
        yield PASS("C01-R4", "canonical_request/header-values", "values <= self.headers.get(signed header) appended in the loop", [site(b, values[0], "value")])
        # every value yielded by the inner iteration is appended: the append post-dominates the Some-edge of the
        # innermost Iterator::next that produces the value
        def value_iter_some(vb_):
            """Some-edge block of the innermost value iteration feeding the append at vb_ (None if it is not fed by one)."""
            vsl_ = b.slice_op(b.term(vb_)["args"][1])
            nexts = [(nb, nt) for nb, nt in vsl_.find_calls(r"Iterator::next$") if re.search(r"Iter<'_, std::vec::Vec<u8>>", nt.get("resolved_full", ""))]
            inner = [x for x in nexts if all(b.dominates(o[0], x[0]) for o in nexts)]
            if not inner:
                return None, vsl_
            st = b.term(inner[0][1]["target"])
            some = [bb for v, bb in st["targets"] if v == 1] if st["k"] == "switch" else []
            return (some[0] if some else None), vsl_

        def sf_parts(sl_):
            return {int(fs[1]) for l_, fs in sl_.fieldreads if len(fs) >= 2 and fs[0] == "0" and fs[1] in ("0", "1") and b.slice([l_]).has_call(r"slice::<impl \[T\]>::split_first$")}

        loops = []
        firsts = []
        for vb_ in values:
            some, vsl_ = value_iter_some(vb_)
            if some is not None:
                loops.append((vb_, some, vsl_))
            else:
                firsts.append((vb_, vsl_))
        okv = False
        vb = values[0]
        VAL_ITEM = r"Iter<'_, std::vec::Vec<u8>>"

        def value_chain(vb_):
            """the part of the append's slice that concerns the VALUE list: back to the header lookup / to the outer
            (header-name) iteration, not beyond - adaptors on the list of header names do not filter values"""
            stop = lambda t_: bool(re.search(r"HashMap::<K, V, S, A>::get$", t_.get("callee", ""))) or (bool(re.search(r"Iterator::next$", t_.get("callee", ""))) and not re.search(VAL_ITEM, t_.get("resolved_full", "")))
            return b.slice_op(b.term(vb_)["args"][1], stop_at_calls=stop)

        # sibling idiom: all values rendered at once by `values.join(sep)` / `concat()`
        for vb_, vsl_ in firsts:
            ch = value_chain(vb_)
            if ch.has_call(r"slice::<impl \[T\]>::(join|concat)$") and not ch.has_call(r"Iterator::(skip|take|step_by|skip_while|take_while|filter|filter_map)$|slice::<impl \[T\]>::(first|last|get|split_\w+)$|ops::Index::index$"):
                okv, vb = True, vb_
        for vb_, some, vsl_ in loops:
            if not b.postdominates(vb_, some):
                continue
            vsl_ = value_chain(vb_)
            if not vsl_.has_call(r"split_first$|split_at$|split_last$|Iterator::(skip|take|step_by|skip_while|take_while|filter|filter_map)$|slice::<impl \[T\]>::(first|last|get)$"):
                okv, vb = True, vb_  # the loop runs over the whole value list
            elif sf_parts(vsl_) == {1} and not vsl_.has_call(r"Iterator::(skip|take|step_by|skip_while|take_while|filter|filter_map)$"):
                # sibling idiom `if let Some((first, rest)) = values.split_first()`: first appended on the Some edge, rest in the loop
                sfc = vsl_.find_calls(r"slice::<impl \[T\]>::split_first$")
                st = b.term(sfc[0][1]["target"]) if sfc else None
                sm = [bb for v, bb in st["targets"] if v == 1] if st and st["k"] == "switch" else []
                if sm and any(sf_parts(fsl) == {0} and b.postdominates(fb, sm[0]) for fb, fsl in firsts):
                    okv, vb = True, vb_
        # the bytes appended are the stored (normalised) value bytes themselves: no text conversion on the way
        # (latin1_to_string / from_utf8_lossy re-encode bytes >= 0x80; a case or trim call changes the signed value)
        conv = []
        for vb_ in values:
            ch_ = value_chain(vb_)
            conv += [c_ for c_ in ch_.callee_names() if re.search(r"latin1_to_string$|from_utf8\w*$|to_(ascii_)?(lower|upper)case$|trim\w*$|replace\w*$|escape\w*$|chars$|char_indices$|to_string$|String::from$|normalize_header_value$|encode\w*$|decode\w*$", c_)]
        if conv:
            yield VIOL("C01-R4", "canonical_request/header-value-bytes", "a signed header's stored value is converted (%s) before it enters the canonical request: the bytes hashed are not the (normalised) bytes of the header" % sorted({c_.split("::")[-1] for c_ in conv}), where=b.span_of_block(values[0]))
        else:
            yield PASS("C01-R4", "canonical_request/header-value-bytes", "value bytes appended as stored", [])
        if not okv:
            yield VIOL("C01-R4", "canonical_request/header-values-all", "not every value of a signed header is appended (the append does not post-dominate the iteration's Some edge)", where=b.span_of_block(vb))
        else:
            yield PASS("C01-R4", "canonical_request/header-values-all", "value append post-dominates the Some edge of the value iterator: every value is signed", [site(b, vb, "extend(value)")])
    # separators (':' after the name, ',' between values, '\n' after a header / a section) are placed by POSITION: the
    # conditions under which such a byte is appended look at the iteration (index / first-flag / how many values), never at
    # what has been written so far or at a value's content (`if !result.ends_with(b":")`: a value ending in ':' eats the comma)
    SEP = {ord(":"): "':'", ord(","): "','", ord("\n"): "newline", ord(";"): "';'"}
    POS_OK = r"Iterator::(enumerate|next|peekable|peek|zip|skip|map|filter_map|flat_map|filter)$|ops::Try::branch$|FromResidual::from_residual$|IntoIterator::into_iter$|slice::<impl \[T\]>::(iter|split_first|split_last|first)$|Vec::<T, A>::iter$|HashMap::<K, V, S, A>::get$|Deref::deref$|Option::<T>::is_(some|none)$|CanonicalRequest::headers$"
    badsep = []
    nsep = 0
    for bi_, t_ in b.calls(r"Vec::<T, A>::push$|String::push$"):
        k_ = const_value(op_const(t_["args"][1]) or {}) if len(t_["args"]) > 1 else None
        if k_ not in SEP:
            continue
        nsep += 1
        for a_, s_, c_, tr_ in guard_conditions(b, bi_):
            if c_["kind"] == "discr":
                continue
            ops_ = list(c_["term"]["args"]) if c_["kind"] == "call" else [c_["l"], c_["r"]] if c_["kind"] == "binop" else [{"copy": {"local": c_["local"], "proj": []}}] if c_["kind"] == "local" else [{"copy": c_["place"]}] if c_["kind"] == "place" else []
            content = []
            if c_["kind"] == "call" and not re.search(POS_OK + r"|Vec::<T, A>::(len|is_empty)$|slice::<impl \[T\]>::(len|is_empty)$", c_["callee"]):
                content.append(c_["callee"].split("::")[-1])
            for o_ in ops_:
                if op_const(o_) is not None:
                    continue
                sl_ = b.slice_op(o_)
                for cb_, ct_ in sl_.calls:
                    cal = ct_["callee"]
                    if re.search(POS_OK, cal):
                        continue
                    if re.search(r"Vec::<T, A>::(len|is_empty)$|slice::<impl \[T\]>::(len|is_empty)$", cal) and re.search(r"Vec<std::vec::Vec<u8>>|\[std::vec::Vec<u8>\]", " ".join(ct_.get("arg_tys", []))):
                        continue  # how many values the header has
                    content.append(cal.split("::")[-1])
                if acc in sl_.locals:
                    content = ["the bytes written so far"]
                    break
            if content:
                badsep.append((bi_, SEP[k_], sorted(set(content))))
    for bi_, nm_, what_ in badsep:
        yield VIOL("C01-R4", "canonical_request/separator-by-content:" + nm_.strip("'"), "whether %s is appended depends on %s, not on the position in the iteration: some header value / earlier output changes the structure of the canonical request" % (nm_, ", ".join(what_)), where=b.span_of_block(bi_))
    if not badsep and nsep:
        yield PASS("C01-R4", "canonical_request/separators-by-position", "%d separator pushes, each conditional on iteration structure only" % nsep, [])
    # closed ingredient set: every append to the canonical request is one of the ingredients above, a signed header's name
    # or looked-up value, or a separator byte - a line made up for a header that is absent (`expect:100-continue`), a
    # constant, or any other value changes what a signature covers
    extra = []
    ncon = 0
    for cb_, t_, ai_, sl_ in acc_contribs(b, acc):
        if re.search(r"Vec::<T, A>::(with_capacity|reserve\w*|shrink_to\w*|capacity|len|is_empty|as_slice|as_mut_slice)$|Deref(Mut)?::deref(_mut)?$|Clone::clone$|fmt::|from_utf8_lossy$", t_["callee"]):
            continue
        ncon += 1
        ks_ = [const_value(op_const(a_) or {}) for i_, a_ in enumerate(t_["args"]) if i_ != ai_]
        if any(k_ in SEP for k_ in ks_):
            continue
        if any(pred(sl_, t_) for _, pred in must_ingredients) or is_name(sl_, t_) or is_value(sl_, t_):
            continue
        comp_ = [element_component(b, a_) for i_, a_ in enumerate(t_["args"]) if i_ != ai_]
        if any(c_ is not None and (is_name(c_, t_) or is_value(c_, t_)) for c_ in comp_):
            continue
        extra.append((cb_, t_, ai_))
    ctx.count(max(1, ncon))
    if extra:
        cv_ = [v for _, t_, ai_ in extra for i_, a_ in enumerate(t_["args"]) if i_ != ai_ for v in b.slice_op(a_).const_values()][:2]
        yield VIOL("C01-R4", "canonical_request/extra-ingredient", "%d append(s) to the canonical request are neither a listed ingredient, a signed header's name / looked-up value, nor a separator (constants %s): text that is not in the request is signed, or a line exists for a header that is absent" % (len(extra), cv_), where=b.span_of_block(extra[0][0]))
    else:
        yield PASS("C01-R4", "canonical_request/closed-ingredient-set", "%d appends: ingredients, header names / values and separators only" % ncon, [])
    # canonical_query_string covers query_parameters
    q = ctx.fn("canonical::CanonicalRequest::canonical_query_string")
    qs = q.slice([0])
    if not (qs.has_call(r"canonical::canonicalize_query_to_string$") and (qs.has_field("query_parameters") or qs.has_call(r"CanonicalRequest::query_parameters$"))):
        yield VIOL("C01-R4", "canonical_query_string/source", "canonical_query_string is not canonicalize_query_to_string(&self.query_parameters)", where=loc(q.j["span"]))
    else:
        yield PASS("C01-R4", "canonical_query_string/source", "= canonicalize_query_to_string(&self.query_parameters)", [loc(q.j["span"])])
    # accessors return the like-named field
    for acc_name in ("request_method", "canonical_path", "body_sha256", "headers", "query_parameters"):
        a = ctx.fn("canonical::CanonicalRequest::" + acc_name)
        pr_ = accessor_problems(a, acc_name)
        if pr_:
            yield VIOL("C01-R4", "accessor/" + acc_name, "accessor %s does not hand back self.%s as stored: %s" % (acc_name, acc_name, "; ".join(pr_)), where=loc(a.j["span"]))
        else:
            yield PASS("C01-R4", "accessor/" + acc_name, "returns self.%s" % acc_name, [loc(a.j["span"])])


@M.rule("C01-R5", "CanonicalRequest components are computed from the request parts/body received")
def r5(ctx):
    b = ctx.fn(FRP)
    aggs = b.aggregates(adt=r"canonical::CanonicalRequest$")
    ag = one(aggs, "construction of CanonicalRequest in from_request_parts")
    rv = ag[2]["rv"]
    fields = dict(zip(rv["fields"], rv["ops"]))
    parts = param_by_name(b, "parts")
    body_p = param_by_name(b, "body")
    want = {
        "request_method": lambda sl: sl.has_field("method") and parts in sl.locals,
        "canonical_path": lambda sl: sl.has_call(r"canonical::canonicalize_uri_path$") and sl.has_call(r"Uri::path$") and parts in sl.locals,
        "query_parameters": lambda sl: sl.has_call(r"canonical::query_string_to_normalized_map$") and sl.has_call(r"Uri::query$") and parts in sl.locals,
        "headers": lambda sl: sl.has_call(r"canonical::normalize_headers$") and sl.reads_field("headers") and parts in sl.locals,
        "body_sha256": lambda sl: sl.has_call(r"crypto::sha256_hex$") and body_p in sl.locals,
    }
    for f, pred in want.items():
        ctx.count()
        if f not in fields:
            yield MISSING("C01-R5", "from_request_parts/field/" + f, "CanonicalRequest has no field `%s`" % f)
            continue
        sl = b.slice_op(fields[f])
        if pred(sl):
            yield PASS("C01-R5", "from_request_parts/" + f, "derives from the received request as required", [site(b, ag[0], f)])
        else:
            yield VIOL("C01-R5", "from_request_parts/" + f, "field `%s` does not derive from the corresponding part of the received request (calls: %s)" % (f, [c for c in sl.callee_names() if c.startswith(("canonical::", "crypto::", "http::"))][:8]), where=loc(ag[2]["span"]))
    # the method line is the request's method token as it is (`http::Method` is case-sensitive: `delete` and `DELETE` are
    # different methods and must have different canonical requests); path / query / headers are handed to their
    # canonicalisers as they are
    if "request_method" in fields:
        # walk the conversion chain from the field's operand back to `<parts>.method` (not a slice: `parts` may be
        # re-bound by the folding code later in the function)
        CONV = r"ToString::to_string$|Method::as_str$|to_owned$|ToOwned::to_owned$|String::from$|convert::From::from$|convert::Into::into$|AsRef::as_ref$|Deref::deref$|Clone::clone$"
        alt = []
        o_ = fields["request_method"]
        for _ in range(8):
            od_ = b.origin_def(o_)
            if od_ and od_[0] == "def" and od_[1]["kind"] == "call":
                if not re.search(CONV, od_[1]["term"]["callee"]):
                    alt.append(od_[1]["term"]["callee"])
                    break
                o_ = od_[1]["term"]["args"][0]
                continue
            if od_ and od_[0] == "place" and "method" in place_fields(od_[1]):
                break
            if od_ and od_[0] in ("param",):
                break
            alt.append("a value that is not <parts>.method")
            break
        if alt:
            yield VIOL("C01-R5", "from_request_parts/request_method/as-is", "the method line is not the request's method token as it is (through %s)" % sorted({c.split("::")[-1] for c in alt}), where=loc(ag[2]["span"]))
        else:
            yield PASS("C01-R5", "from_request_parts/request_method/as-is", "request_method = parts.method.to_string()", [])
    for fn_, acc_ in ((r"canonical::canonicalize_uri_path$", r"Uri::path$"), (r"canonical::query_string_to_normalized_map$", r"Uri::query$")):
        # the call that handles the URL is the first one in dominance order (the other one parses the decoded form body);
        # chain walk, not a slice: `parts` is re-bound by the folding code later in the function
        cands_ = b.calls(fn_)
        cs_ = [x for x in cands_ if all(x is y or b.dominates(x[0], y[0]) for y in cands_)]
        for bi_, t_ in cs_[:1]:
            o_ = t_["args"][0]
            why_ = None
            for _ in range(10):
                od_ = b.origin_def(o_)
                if od_ and od_[0] == "def" and od_[1]["kind"] == "call":
                    cal_ = od_[1]["term"]["callee"]
                    if re.search(acc_, cal_):
                        break
                    if re.search(r"Option::<T>::unwrap_or(_default)?$|Deref::deref$|AsRef::as_ref$|Borrow::borrow$|String::as_str$", cal_):
                        if re.search(r"unwrap_or$", cal_) and const_str_of(b, od_[1]["term"]["args"][1])[0] != "":
                            why_ = "a missing query is replaced by something other than the empty string"
                            break
                        o_ = od_[1]["term"]["args"][0]
                        continue
                    why_ = "through `%s`" % cal_.split("::")[-1]
                    break
                if od_ and od_[0] == "multi":
                    # the desugared `query().unwrap_or("")`: the Some payload of the accessor's result, or ""
                    srcs_ = [d_ for d_ in b.defs().get(od_[1], []) if d_["kind"] != "mutcall"]
                    okm_ = bool(srcs_) and "query" in acc_
                    for d_ in srcs_:
                        if d_["kind"] != "assign" or d_["stmt"]["rv"]["k"] != "use":
                            okm_ = False
                            break
                        so_ = d_["stmt"]["rv"]["op"]
                        if const_str_of(b, so_)[0] == "":
                            continue
                        pl_ = op_place(so_)
                        fs_ = [e for e in (pl_ or {}).get("proj", []) if isinstance(e, dict)]
                        sd_ = b.origin_def({"copy": {"local": pl_["local"], "proj": []}}) if pl_ else None
                        if not (pl_ and len(fs_) == 2 and fs_[0].get("downcast") == "Some" and sd_ and sd_[0] == "def" and sd_[1]["kind"] == "call" and re.search(acc_, sd_[1]["term"]["callee"])):
                            okm_ = False
                            break
                    if okm_:
                        break
                why_ = "the value has several sources or is not the accessor's result"
                break
            else:
                why_ = "conversion chain too long"
            what_ = "path" if "path" in acc_ else "query string"
            if why_:
                yield VIOL("C01-R5", "from_request_parts/%s/as-is" % fn_.split("::")[-1].strip("$"), "the request's %s is altered before it is canonicalised (%s)" % (what_, why_), where=b.span_of_block(bi_))
            else:
                yield PASS("C01-R5", "from_request_parts/%s/as-is" % fn_.split("::")[-1].strip("$"), "the request's %s is handed over as the accessor returned it" % what_, [site(b, bi_, fn_.split("::")[-1].strip("$"))])
    # canonicalize_uri_path(parts.uri.path(), options.s3)
    cp = one(b.calls(r"canonical::canonicalize_uri_path$"), "call of canonicalize_uri_path")
    s3 = b.slice_op(cp[1]["args"][1])
    if not s3.has_field("s3"):
        yield VIOL("C01-R5", "from_request_parts/s3-flag", "canonicalize_uri_path's mode flag is not options.s3", where=b.span_of_block(cp[0]))
    else:
        yield PASS("C01-R5", "from_request_parts/s3-flag", "mode flag <= options.s3", [site(b, cp[0], "canonicalize_uri_path")])


@M.rule("C01-R6", "the hash of exactly that canonical request (over the request's own signed-header list) and its parsed timestamp reach the authenticator")
def r6(ctx):
    b = ctx.fn(GAFP)
    ap = param_by_name(b, "auth_params")
    set_hash = one(b.calls(r"SigV4AuthenticatorBuilder::canonical_request_sha256$"), "builder.canonical_request_sha256(..) call")
    sl = b.slice_op(set_hash[1]["args"][1])
    h = sl.find_calls(r"CanonicalRequest::canonical_request_sha256$")
    ctx.count(3)
    if not h:
        yield VIOL("C01-R6", "gafp/hash-source", "builder.canonical_request_sha256 is not fed by self.canonical_request_sha256(..)", where=b.span_of_block(set_hash[0]))
    else:
        hs = b.slice_op(h[0][1]["args"][1])
        if not (hs.has_field("signed_headers") and ap in hs.locals):
            yield VIOL("C01-R6", "gafp/hash-signed-headers", "canonical request is not hashed over auth_params.signed_headers", where=b.span_of_block(h[0][0]))
        else:
            yield PASS("C01-R6", "gafp/hash-source", "builder.canonical_request_sha256(self.canonical_request_sha256(&auth_params.signed_headers))", [site(b, set_hash[0], "setter")])
    set_ts = one(b.calls(r"SigV4AuthenticatorBuilder::request_timestamp$"), "builder.request_timestamp(..) call")
    ts = b.slice_op(set_ts[1]["args"][1])
    if not (ts.has_call(r"ParseISO8601.*parse_from_iso8601$|parse_from_iso8601$") and ts.has_field("timestamp_str") and ts.has_call(r"with_timezone$")):
        yield VIOL("C01-R6", "gafp/timestamp-source", "request_timestamp is not parse_from_iso8601(auth_params.timestamp_str).with_timezone(Utc)", where=b.span_of_block(set_ts[0]))
    else:
        yield PASS("C01-R6", "gafp/timestamp-source", "request_timestamp <= parse_from_iso8601(auth_params.timestamp_str).with_timezone(&Utc)", [site(b, set_ts[0], "setter")])
    # the builder that is built is auth_params.builder after both setters
    bd = one(b.calls(r"SigV4AuthenticatorBuilder::build$"), "builder.build() call")
    bs = b.slice_op(bd[1]["args"][0])
    if not (bs.has_field("builder") and b.dominates(set_hash[0], bd[0]) and b.dominates(set_ts[0], bd[0])):
        yield VIOL("C01-R6", "gafp/build", "build() is not on auth_params.builder after both setters", where=b.span_of_block(bd[0]))
    else:
        yield PASS("C01-R6", "gafp/build", "auth_params.builder: request_timestamp, canonical_request_sha256 setters dominate build()", [site(b, bd[0], "build")])
    # canonical_request_sha256 = sha256(self.canonical_request(signed_headers))
    c = ctx.fn("canonical::CanonicalRequest::canonical_request_sha256")
    cs = c.slice([0])
    cr = cs.find_calls(r"CanonicalRequest::canonical_request$")
    if not (cr and cs.has_call(r"crypto::sha256$") and c.slice_op(cr[0][1]["args"][1]).params == {2}):
        yield VIOL("C01-R6", "canonical_request_sha256/dataflow", "not sha256(self.canonical_request(signed_headers))", where=loc(c.j["span"]))
    else:
        yield PASS("C01-R6", "canonical_request_sha256/dataflow", "sha256(self.canonical_request(signed_headers))", [loc(c.j["span"])])
        # the bytes hashed are the canonical request's bytes as they are: only re-borrows between the two calls
        sh = cs.find_calls(r"crypto::sha256$")
        between = c.slice_op(sh[0][1]["args"][0], stop_at_calls=lambda t: bool(re.search(r"CanonicalRequest::canonical_request$", t.get("callee", ""))))
        alter = [cn for cn in between.callee_names() if not re.search(r"CanonicalRequest::canonical_request$|ops::Deref::deref$|convert::AsRef::as_ref$|borrow::Borrow::borrow$|Vec::<T, A>::as_slice$|slice::<impl \[T\]>::as_ref$", cn)]
        if alter:
            yield VIOL("C01-R6", "canonical_request_sha256/bytes-as-they-are", "the canonical request is transformed (%s) before it is hashed: e.g. a lossy UTF-8 conversion maps every non-UTF-8 header byte to U+FFFD, so different requests share one signature" % alter, where=c.span_of_block(sh[0][0]))
        else:
            yield PASS("C01-R6", "canonical_request_sha256/bytes-as-they-are", "sha256 is applied to the Vec<u8> returned by canonical_request, re-borrowed only", [site(c, sh[0][0], "sha256")])
    # SigV4Authenticator accessors return like-named fields; builder setters set like-named fields
    for acc_name in ("canonical_request_sha256", "credential", "signature", "request_timestamp", "session_token"):
        a = ctx.fn("auth::SigV4Authenticator::" + acc_name)
        pr_ = accessor_problems(a, acc_name)
        if pr_:
            yield VIOL("C01-R6", "auth-accessor/" + acc_name, "accessor does not hand back self.%s as stored: %s" % (acc_name, "; ".join(pr_)), where=loc(a.j["span"]))
        else:
            yield PASS("C01-R6", "auth-accessor/" + acc_name, "returns self.%s" % acc_name, [loc(a.j["span"])])
    # the key used is the one the provider's response holds
    a = ctx.fn("signing_key::GetSigningKeyResponse::signing_key")
    pr_ = accessor_problems(a, "signing_key")
    if pr_:
        yield VIOL("C01-R6", "response-accessor/signing_key", "GetSigningKeyResponse::signing_key does not hand back self.signing_key as stored: %s" % "; ".join(pr_), where=loc(a.j["span"]))
    else:
        yield PASS("C01-R6", "response-accessor/signing_key", "returns self.signing_key", [loc(a.j["span"])])


@M.rule("C01-R7", "entry point: single Ok behind validate_signature(..).await?; authenticator built from this request's canonical form")
def r7(ctx):
    b = ctx.co(ENTRY)
    oks = result_aggs(b, "Ok")
    if len(oks) != 1:
        yield VIOL("C01-R7", "entry/ok-count", "expected exactly one Ok in sigv4_validate_request, found %d" % len(oks), where=loc(b.j["span"]))
        return
    okb = oks[0][0]
    vs = one(b.calls(r"SigV4Authenticator::validate_signature$"), "call of validate_signature in the entry point")
    frp = one(b.calls(r"CanonicalRequest::from_request_parts$"), "call of from_request_parts")
    ga = one(b.calls(r"CanonicalRequest::get_authenticator$"), "call of get_authenticator")
    ctx.count(4)
    # the Ok block is dominated by the Continue edges of the three `?`
    chain = [("from_request_parts", frp), ("get_authenticator", ga)]
    for nm, (cb, ct) in chain:
        cont = b.try_continue_block(cb)
        if cont is None or not b.dominates(cont, okb):
            yield VIOL("C01-R7", "entry/ok-after-" + nm, "Ok is not dominated by the success edge of %s(..)?" % nm, where=b.span_of_block(okb))
        else:
            yield PASS("C01-R7", "entry/ok-after-" + nm, "Ok dominated by the Continue edge of %s(..)?" % nm, [site(b, cb, nm)])
    # validate_signature is awaited: find Try::branch whose operand derives from poll of its future
    ok_sl = b.slice_op(oks[0][2]["rv"]["ops"][0])
    if not ok_sl.has_call(r"SigV4Authenticator::validate_signature$"):
        yield VIOL("C01-R7", "entry/ok-payload", "returned tuple does not include the result of validate_signature", where=b.span_of_block(okb))
    se_ = success_edge_of(b, r"SigV4Authenticator::validate_signature$")
    good = se_ is not None and (se_ == okb or b.dominates(se_, okb))
    if not good:
        yield VIOL("C01-R7", "entry/ok-after-validate_signature", "Ok is not dominated by the success edge of validate_signature(..).await?", where=b.span_of_block(okb))
    else:
        yield PASS("C01-R7", "entry/ok-after-validate_signature", "Ok dominated by Continue edge of validate_signature(..).await?", [site(b, vs[0], "validate_signature")])
    # auth <= get_authenticator(canonical_request <= from_request_parts(parts/body of this request))
    au = b.slice_op(vs[1]["args"][0])
    if not (au.has_call(r"CanonicalRequest::get_authenticator$") and au.has_call(r"CanonicalRequest::from_request_parts$") and au.has_call(r"Request::<T>::into_parts$")):
        yield VIOL("C01-R7", "entry/auth-source", "the authenticator validated is not built from this request's parts", where=b.span_of_block(vs[0]))
    else:
        yield PASS("C01-R7", "entry/auth-source", "auth <= get_authenticator(from_request_parts(request.into_parts()..))", [site(b, vs[0], "validate_signature")])
    fs = b.slice_op(frp[1]["args"][1])
    if not fs.has_call(r"IntoRequestBytes::into_request_bytes$"):
        yield VIOL("C01-R7", "entry/body-source", "body given to from_request_parts is not into_request_bytes(request body)", where=b.span_of_block(frp[0]))
    else:
        yield PASS("C01-R7", "entry/body-source", "body <= body.into_request_bytes().await?", [site(b, frp[0], "from_request_parts")])
    # region/service/timestamp/provider passed through positionally
    names = ["region", "service", "server_timestamp"]
    for i, nm in enumerate(names):
        pl = param_by_name(b, nm)
        sl = b.slice_op(vs[1]["args"][1 + i])
        if pl not in sl.locals:
            yield VIOL("C01-R7", "entry/arg-" + nm, "argument %d of validate_signature does not derive from parameter `%s`" % (1 + i, nm), where=b.span_of_block(vs[0]))
        else:
            yield PASS("C01-R7", "entry/arg-" + nm, "validate_signature arg %d <= parameter %s" % (1 + i, nm), [site(b, vs[0], nm)])


@M.rule("C01-R8", "who may mint success: SigV4AuthenticatorResponse is constructed only by From<GetSigningKeyResponse> and the public builder")
def r8(ctx):
    allowed = (r"^<auth::SigV4AuthenticatorResponse as std::convert::From<signing_key::GetSigningKeyResponse>>::from$", r"^auth::SigV4AuthenticatorResponseBuilder::build$", r"^<auth::SigV4AuthenticatorResponse as std::clone::Clone>::clone$")
    n = 0
    for body in ctx.facts.all_bodies():
        for bi, i, s in body.aggregates(adt=r"auth::SigV4AuthenticatorResponse$"):
            n += 1
            ctx.count()
            if not any(re.search(a, body.path) for a in allowed):
                yield VIOL("C01-R8", "mint/" + body.path, "SigV4AuthenticatorResponse constructed outside the conversion/builder", where=loc(s["span"]))
    if n < 2:
        yield MISSING("C01-R8", "mint/floor", "expected >= 2 construction sites (From impl, builder), found %d" % n)
        return
    # callers of the From conversion inside the crate
    callers = [(b, bi, t) for b, bi, t in ctx.facts.callers_of(r"SigV4AuthenticatorResponse as std::convert::From<signing_key::GetSigningKeyResponse>>::from$")]
    callers += [(b, bi, t) for b in ctx.facts.all_bodies() for bi, t in b.calls(r"convert::Into::into$", r"<signing_key::GetSigningKeyResponse as std::convert::Into<auth::SigV4AuthenticatorResponse>>::into")]
    paths = sorted({b.path for b, _, _ in callers})
    if paths != [VS + "::{closure#0}"]:
        yield VIOL("C01-R8", "mint/callers", "conversion GetSigningKeyResponse -> SigV4AuthenticatorResponse is called from %s (expected only validate_signature)" % paths, where=None)
    else:
        yield PASS("C01-R8", "mint/callers", "only validate_signature converts a provider response into a success value; %d construction sites all in the conversion/builder" % n, paths)


import c12  # noqa: E402


@M.rule("C01-R5b", "the payload hash has no source other than sha256_hex of the returned body (shared with C12-R3)")
def r5b(ctx):
    for r in c12.r3(ctx):
        r.rule = "C01-R5b"
        yield r


import c10  # noqa: E402
import c11  # noqa: E402


@M.rule("C01-R9", "the canonical components are faithful to the received bytes: query parsing and header-value normalisation shapes (shared with C10-R4, C11-R3/R5)")
def r9(ctx):
    for r in list(c10.r4(ctx)) + list(c11.r3(ctx)) + list(c11.r5(ctx)):
        r.rule = "C01-R9"
        yield r


STAGES = [
    # (function, is coroutine, consumer call, argument position, producer, the consumer takes one part of a tuple result)
    ("canonical::CanonicalRequest::get_authenticator", False, r"CanonicalRequest::get_authenticator_from_auth_parameters$", 1, r"CanonicalRequest::get_auth_parameters$", False),
    (ENTRY, True, r"CanonicalRequest::get_authenticator$", 0, r"CanonicalRequest::from_request_parts$", True),
    (ENTRY, True, r"SigV4Authenticator::validate_signature$", 0, r"CanonicalRequest::get_authenticator$", False),
    (GAFP, False, r"SigV4AuthenticatorBuilder::canonical_request_sha256$", 1, r"CanonicalRequest::canonical_request_sha256$", False),
]


@M.rule("C01-R10", "what one stage produces is what the next stage receives: no edit between the stages")
def r10(ctx):
    """The reviewed stages (canonical form -> authentication parameters -> authenticator -> verification) are checked one
    by one; this rule pins the joints: the value a stage consumes is the previous stage's result moved there, never
    modified in place or rebuilt on the way (a `trim()` of the timestamp text, a `retain` on the signed-header list or a
    header removed from the canonical form between two stages changes what is verified without touching a stage)."""
    for fn, is_co, consumer, pos, producer, part in STAGES:
        b = ctx.co(fn) if is_co else ctx.fn(fn)
        c = one(b.calls(consumer), "%s call in %s" % (consumer.strip("$").split("::")[-1], fn))
        ctx.count()
        key = "stage/%s->%s" % (producer.strip("$").split("::")[-1], consumer.strip("$").split("::")[-1])
        ok, why = result_handed_on(b, c[1]["args"][pos], producer, allow_part=part)
        if not ok:
            yield VIOL("C01-R10", key, "argument %d of %s is not the result of %s as it was returned: %s" % (pos, consumer.strip("$").split("::")[-1], producer.strip("$").split("::")[-1], why), where=b.span_of_block(c[0]))
        else:
            yield PASS("C01-R10", key, "result moved on unmodified", [site(b, c[0], consumer.strip("$").split("::")[-1])])
    # get_auth_parameters returns the carrier parser's AuthParams as it is
    g = ctx.fn("canonical::CanonicalRequest::get_auth_parameters")
    oks = result_aggs(g, "Ok")
    ctx.count(max(1, len(oks)))
    bad = []
    for ob, i, s_ in oks:
        ok, why = result_handed_on(g, s_["rv"]["ops"][0], r"CanonicalRequest::get_auth_parameters_from_(auth_header|query_parameters)$")
        if not ok:
            bad.append((ob, why))
    if bad or not oks:
        yield VIOL("C01-R10", "stage/carrier-parser->get_auth_parameters", "get_auth_parameters does not return the carrier parser's AuthParams as it is: %s" % (bad[0][1] if bad else "no Ok result"), where=g.span_of_block(bad[0][0]) if bad else loc(g.j["span"]))
    else:
        yield PASS("C01-R10", "stage/carrier-parser->get_auth_parameters", "Ok(params): params moved from the carrier parser's `?` result, not modified", [site(g, oks[0][0], "Ok")])


@M.rule("C01-R11", "no door is opened: what the reviewed tree keeps private stays private under the default features")
def r11(ctx):
    """The per-function rules rely on who can call what: the canonical request, the authenticator and the key types are
    built and advanced only by the crate's own code, in the reviewed order. A function or field that the reviewed tree
    keeps crate-private and that is public now (a `pub(crate)` -> `pub`, a `qualifiers(..)` attribute flipped, a field made
    public) lets a caller build a value outside the invariants or run a later step without the earlier one; so does a
    new public method of a reviewed type that hands out `&mut` access to it. Each feature configuration is compared with
    its own table (`unstable` publishes functions on purpose, for testing - but not the fields)."""
    import json as _json
    import os
    cfgk = "unstable" if "feature=unstable" in (ctx.facts.j.get("crate_cfg") or []) else "default"
    tab = _json.load(open(os.path.join(os.path.dirname(os.path.abspath(__file__)), "tables", "visibility.json")))[cfgk]
    n = 0
    bad = 0
    for b in ctx.facts.j["bodies"]:
        p_ = (ctx.facts.j.get("moved") or {}).get(b["path"], b["path"])
        if b.get("vis") is None or "{closure" in p_:
            continue
        was = tab["fns"].get(p_)
        now = "pub" if "Public" in str(b["vis"]) else "restricted"
        n += 1
        if was == "restricted" and now == "pub":
            bad += 1
            yield VIOL("C01-R11", "visibility/fn/" + p_, "`%s` is crate-private in the reviewed tree and public now: callers can run this step on values of their own making / out of the reviewed order" % p_, where=loc(b["span"]))
        elif was is None and now == "pub" and re.match(r"^&('\w+ )?mut ", (b.get("locals") or [{}])[0].get("ty", "")) and re.search(r"(auth|canonical|signing_key|signature)::", " ".join(l_.get("ty", "") for l_ in (b.get("locals") or [])[1:1 + b.get("arg_count", 0)])) \
                and re.sub(r"^&('\w+ )?mut ", "", (b.get("locals") or [{}])[0].get("ty", "")) != re.sub(r"^&('\w+ )?(mut )?", "", ((b.get("locals") or [{}, {}])[1:2] or [{}])[0].get("ty", "")):
            # (a chaining method `fn f(&mut self) -> &mut Self` hands out nothing the caller did not have)
            bad += 1
            yield VIOL("C01-R11", "visibility/mut-access/" + p_, "new public `%s` hands out mutable access to a reviewed type" % p_, where=loc(b["span"]))
    for a in ctx.facts.j["adts"]:
        for var in a["variants"]:
            for f_ in var["fields"]:
                k_ = "%s.%s" % (a["path"], f_["name"])
                was = tab["fields"].get(k_)
                now = "pub" if "Public" in str(f_.get("vis")) else "restricted"
                n += 1
                if was == "restricted" and now == "pub":
                    bad += 1
                    yield VIOL("C01-R11", "visibility/field/" + k_, "field `%s` is private in the reviewed tree and public now: its invariant (set by the one reviewed constructor) can be broken by any caller" % k_, where=loc(a["span"]))
    for im in ctx.facts.impls:
        if re.search(r"ops::DerefMut$|convert::AsMut<|borrow::BorrowMut<", im.get("trait", "") or "") and re.search(r"^(auth|canonical|signing_key|signature)::", im.get("self_ty", "")):
            bad += 1
            yield VIOL("C01-R11", "visibility/mut-impl/%s" % im["self_ty"], "`%s` now implements `%s`: mutable access to a reviewed type from outside" % (im["self_ty"], im["trait"]), where=None)
    ctx.count(max(1, n))
    if n < 200:
        yield MISSING("C01-R11", "visibility/floor", "only %d functions / fields seen" % n)
    elif not bad:
        yield PASS("C01-R11", "visibility/no-door", "%d functions and fields: nothing the reviewed tree keeps private is public" % n, [])
