"""Fact-base management: hash /repo's sources, (re)generate facts through the factgen driver."""
import fcntl
import glob
import hashlib
import json
import os
import shutil
import subprocess
import sys
import time

VERIF = os.path.dirname(os.path.dirname(os.path.abspath(__file__)))
CACHE = os.path.join(VERIF, ".cache")
FACTGEN_DIR = os.path.join(VERIF, "tools", "factgen")
FACTGEN_BIN = os.path.join(FACTGEN_DIR, "target", "debug", "factgen")
CRATE = "scratchstack_aws_signature"
PKG = "scratchstack-aws-signature"


def _sh(cmd, **kw):
    return subprocess.run(cmd, shell=True, stdout=subprocess.PIPE, stderr=subprocess.STDOUT, text=True, **kw)


def nightly_sysroot():
    r = _sh("rustc +nightly --print sysroot")
    return r.stdout.strip()


def base_env():
    env = dict(os.environ)
    env["CARGO_NET_OFFLINE"] = "true"
    env.pop("RUSTC_WRAPPER", None)
    return env


def ensure_factgen():
    """Build the driver if its binary is missing or older than its sources."""
    srcs = glob.glob(os.path.join(FACTGEN_DIR, "src", "*.rs")) + [os.path.join(FACTGEN_DIR, "Cargo.toml")]
    newest = max(os.path.getmtime(s) for s in srcs)
    if os.path.exists(FACTGEN_BIN) and os.path.getmtime(FACTGEN_BIN) >= newest:
        return
    os.makedirs(CACHE, exist_ok=True)
    with open(os.path.join(CACHE, "factgen.lock"), "w") as lk:
        fcntl.flock(lk, fcntl.LOCK_EX)
        if os.path.exists(FACTGEN_BIN) and os.path.getmtime(FACTGEN_BIN) >= newest:
            return
        r = _sh("cargo +nightly build --offline", cwd=FACTGEN_DIR, env=base_env())
        if r.returncode != 0 or not os.path.exists(FACTGEN_BIN):
            sys.stderr.write(r.stdout)
            raise RuntimeError("cannot build factgen driver")


def source_hash(repo, features=""):
    h = hashlib.sha256()
    files = sorted(glob.glob(os.path.join(repo, "src", "**", "*.rs"), recursive=True))
    files += [os.path.join(repo, "Cargo.toml"), os.path.join(repo, "Cargo.lock")]
    for f in files:
        if os.path.exists(f):
            h.update(os.path.relpath(f, repo).encode())
            h.update(b"\0")
            h.update(open(f, "rb").read())
            h.update(b"\0")
    for f in sorted(glob.glob(os.path.join(FACTGEN_DIR, "src", "*.rs"))):
        h.update(open(f, "rb").read())
    h.update(features.encode())
    return h.hexdigest()[:20]


def generate(repo, features, out_path, target_dir):
    """Run cargo +nightly check with the driver as workspace wrapper. Returns (ok, log)."""
    ensure_factgen()
    os.makedirs(target_dir, exist_ok=True)
    # cargo's freshness cache would skip the wrapper: drop the member's fingerprints.
    for fp in glob.glob(os.path.join(target_dir, "debug", ".fingerprint", PKG + "-*")):
        shutil.rmtree(fp, ignore_errors=True)
    env = base_env()
    env["LD_LIBRARY_PATH"] = os.path.join(nightly_sysroot(), "lib") + ":" + env.get("LD_LIBRARY_PATH", "")
    env["RUSTFLAGS"] = "-Zmir-opt-level=0 -Awarnings"
    env["RUSTC_WORKSPACE_WRAPPER"] = FACTGEN_BIN
    env["CARGO_TARGET_DIR"] = target_dir
    # no incremental cache: a warm cache replays query results computed in an earlier run's order and can hide (or
    # cause) order-dependent behaviour of the driver; every run must behave like the first one on a fresh copy.
    env["CARGO_INCREMENTAL"] = "0"
    tmp_out = out_path + ".tmp.%d" % os.getpid()
    env["FACTS_OUT"] = tmp_out
    env["FACTS_CRATE"] = CRATE
    cmd = "cargo +nightly check --offline --lib"
    if features:
        cmd += " --features " + features
    r = _sh(cmd, cwd=repo, env=env)
    if r.returncode != 0:
        if os.path.exists(tmp_out):
            os.remove(tmp_out)
        return False, r.stdout
    if not os.path.exists(tmp_out):
        return False, "driver did not write facts (wrapper skipped?)\n" + r.stdout
    try:
        j = json.load(open(tmp_out))
        assert j["crate"] == CRATE and j["n_bodies"] > 0
    except Exception as e:  # noqa
        return False, "fact file invalid: %r" % (e,)
    os.replace(tmp_out, out_path)
    return True, r.stdout


def facts_for(repo="/repo", features="", quiet=False):
    """Path to an up-to-date fact file for repo's *current working tree*; regenerates when sources changed."""
    os.makedirs(CACHE, exist_ok=True)
    tag = "unstable" if features else "default"
    h = source_hash(repo, features)
    out = os.path.join(CACHE, "facts-%s-%s.json" % (tag, h))
    if os.path.exists(out):
        return out, {"cached": True, "hash": h, "wall_s": 0.0}
    lock = os.path.join(CACHE, "gen-%s.lock" % tag)
    with open(lock, "w") as lk:
        fcntl.flock(lk, fcntl.LOCK_EX)
        if os.path.exists(out):
            return out, {"cached": True, "hash": h, "wall_s": 0.0}
        t0 = time.time()
        ok, log = generate(repo, features, out, os.path.join(CACHE, "target-" + tag))
        if not ok:
            sys.stderr.write(log[-6000:])
            raise RuntimeError("fact generation failed for %s [%s] (does /repo compile?)" % (repo, tag))
        # prune old fact files of this tag (keep the 6 newest)
        olds = sorted(glob.glob(os.path.join(CACHE, "facts-%s-*.json" % tag)), key=os.path.getmtime, reverse=True)
        for o in olds[6:]:
            try:
                os.remove(o)
            except OSError:
                pass
        return out, {"cached": False, "hash": h, "wall_s": round(time.time() - t0, 2)}


if __name__ == "__main__":
    p, info = facts_for(sys.argv[1] if len(sys.argv) > 1 else "/repo", sys.argv[2] if len(sys.argv) > 2 else "")
    print(p, info)
