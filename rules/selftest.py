"""Checker self-test: apply each catalogue mutant / kept seeded change to a scratch copy of /repo's current tree,
regenerate the fact base there and require the owning property's rules to report a violation.
Static all the way: the mutated library is compiled (type-checked) by the driver, never executed."""
import glob
import importlib
import json
import os
import shutil
import subprocess
import sys
import tempfile
import time
from concurrent.futures import ThreadPoolExecutor

import factbase
from engine import Facts
from registry import Ctx

VERIF = factbase.VERIF


def _sh(cmd, cwd=None):
    return subprocess.run(cmd, shell=True, cwd=cwd, stdout=subprocess.PIPE, stderr=subprocess.STDOUT, text=True)


def patch_header(path):
    h = {}
    for line in open(path):
        if line.startswith("# ") and ":" in line:
            k, v = line[2:].split(":", 1)
            h[k.strip()] = v.strip()
        elif not line.startswith("#"):
            break
    return h


def mutants_for(pid):
    out = []
    for p in sorted(glob.glob(os.path.join(VERIF, "mutants", pid, "*.patch"))):
        out.append(("mutant", os.path.basename(p)[:-6], p, patch_header(p)))
    for meta in sorted(glob.glob(os.path.join(VERIF, "seeded", "*", "meta.json"))):
        try:
            m = json.load(open(meta))
        except Exception:
            continue
        own = m.get("property") == pid and m.get("expected_detection", True) and pid in m.get("detected_by", [pid])
        if pid in m.get("detected_by", []) or own:
            d = os.path.dirname(meta)
            # a change aimed at another property that this check also happened to report is a bonus, not an obligation
            out.append(("seeded" if m.get("property") == pid else "seeded-other", os.path.basename(d), os.path.join(d, "patch.diff"), {"expect": m.get("expect_rule", ""), "desc": m.get("summary", "")}))
    return out


def baseline_keys(pid, repo="/repo"):
    mod = importlib.import_module(pid.lower())
    fpath, _ = factbase.facts_for(repo, "")
    res = mod.M.run(Ctx(Facts(fpath), None, "quick", repo))
    return {(r.key, r.status) for r in res if r.status != "PASS"}


def run_mutant(pid, patch, repo="/repo", keep=False, base=None):
    """Returns dict(status=caught|missed|skipped|invalid, fired=[...])."""
    tmp = tempfile.mkdtemp(prefix="verif-mut-")
    try:
        shutil.copytree(os.path.join(repo, "src"), os.path.join(tmp, "src"))
        for f in ("Cargo.toml", "Cargo.lock"):
            shutil.copy(os.path.join(repo, f), os.path.join(tmp, f))
        r = _sh("patch -p1 --no-backup-if-mismatch -s -f < %s" % patch, cwd=tmp)
        if r.returncode != 0:
            return {"status": "skipped", "why": "patch does not apply to the current tree: " + r.stdout[-200:]}
        # private target dir seeded with hard links of the shared dependency cache
        shared = os.path.join(factbase.CACHE, "target-default")
        tdir = os.path.join(tmp, "target")
        if os.path.isdir(shared):
            _sh("cp -al %s %s" % (shared, tdir))
        out = os.path.join(tmp, "facts.json")
        ok, log = factbase.generate(tmp, "", out, tdir)
        if not ok:
            return {"status": "invalid", "why": "mutant does not compile: " + log[-400:]}
        mod = importlib.import_module(pid.lower())
        res = mod.M.run(Ctx(Facts(out), None, "quick", tmp))
        fired = [r for r in res if r.status != "PASS"]
        if base is not None and not [x for x in fired if (x.key, x.status) not in base]:
            # nothing new under the default features: the change may live under cfg(feature = "unstable")
            shared_u = os.path.join(factbase.CACHE, "target-unstable")
            tdir_u = os.path.join(tmp, "target-u")
            if os.path.isdir(shared_u):
                _sh("cp -al %s %s" % (shared_u, tdir_u))
            out_u = os.path.join(tmp, "facts-u.json")
            ok, log = factbase.generate(tmp, "unstable", out_u, tdir_u)
            if ok:
                res_u = mod.M.run(Ctx(Facts(out_u), None, "quick", tmp))
                fired += [r for r in res_u if r.status != "PASS"]
        return {"status": "ran", "fired": fired}
    finally:
        if not keep:
            shutil.rmtree(tmp, ignore_errors=True)


def run_for(pid, verbose=False, repo="/repo"):
    ms = mutants_for(pid)
    t0 = time.time()
    base = baseline_keys(pid, repo)
    rows = []
    lines = []
    failed = False

    def work(m):
        kind, name, patch, hdr = m
        try:
            r = run_mutant(pid, patch, repo, base=base)
        except Exception as e:  # noqa
            r = {"status": "invalid", "why": repr(e)}
        return m, r

    with ThreadPoolExecutor(max_workers=min(16, max(1, len(ms)))) as ex:
        for (kind, name, patch, hdr), r in ex.map(work, ms):
            if r["status"] == "ran":
                new = [x for x in r["fired"] if (x.key, x.status) not in base]
                exp = hdr.get("expect", "")
                hit = [x for x in new if (not exp or x.rule == exp or x.rule.startswith(exp))]
                if hit:
                    st = "caught"
                elif new:
                    st = "caught-other-rule"
                else:
                    st = "missed"
                row = {"kind": kind, "name": name, "status": st, "fired": sorted({"%s %s" % (x.rule, x.key) for x in new})[:6], "expect": exp}
                if st == "missed" and kind == "seeded-other":
                    st = row["status"] = "not-reported-here"
                if st == "missed":
                    failed = True
                    lines.append("selftest: %s %s/%s NOT detected by %s rules (checker regression)" % (kind, pid, name, pid))
            else:
                row = {"kind": kind, "name": name, "status": r["status"], "why": r.get("why", "")[:300]}
            rows.append(row)
            if verbose:
                print("   selftest %-7s %-40s %-18s %s" % (kind, name, row["status"], ", ".join(row.get("fired", []))[:150] or row.get("why", "")[:150]))
    out = {
        "mutants_total": len(ms),
        "caught": sum(1 for r in rows if r["status"].startswith("caught")),
        "missed": sum(1 for r in rows if r["status"] == "missed"),
        "skipped": sum(1 for r in rows if r["status"] == "skipped"),
        "invalid": sum(1 for r in rows if r["status"] == "invalid"),
        "wall_s": round(time.time() - t0, 1),
        "rows": rows,
        "_failed": failed,
        "_violation_lines": lines,
    }
    return out


if __name__ == "__main__":
    pid = sys.argv[1]
    sys.path.insert(0, os.path.dirname(os.path.abspath(__file__)))
    if len(sys.argv) > 2:
        base = baseline_keys(pid)
        r = run_mutant(pid, sys.argv[2], base=base)
        if r["status"] == "ran":
            for x in r["fired"]:
                print(("NEW  " if (x.key, x.status) not in base else "base ") + x.status, x.rule, x.key, "—", x.msg[:200], x.where)
            if not r["fired"]:
                print("nothing fired")
        else:
            print(r)
    else:
        o = run_for(pid, verbose=True)
        print({k: v for k, v in o.items() if k not in ("rows",)})
