"""Idiom normalisation of the fact base before the rules see it (so that behaviour-preserving refactorings do not
disturb them):

  1. std combinators applied to a closure or fn item (Option::{map,and_then,or_else,ok_or_else,unwrap_or_else,...},
     Result::{map,map_err,and_then,or_else,unwrap_or_else,map_or_else}, Iterator::{any,all}) are replaced by their
     defining control flow (a SwitchInt on the discriminant + the closure body spliced in place);
  2. calls to crate-local functions that did not exist on the reviewed tree (tables/pinned_functions.json) - i.e. helper
     functions extracted by a refactoring - are inlined into their callers.

Both are pure CFG splices over the JSON MIR; nothing is executed. Bodies that were spliced into every user are marked
`absorbed` and skipped by whole-crate enumerations."""
import copy
import json
import os
import re

HERE = os.path.dirname(os.path.abspath(__file__))
_PINNED = None


def pinned_functions():
    global _PINNED
    if _PINNED is None:
        p = os.path.join(HERE, "tables", "pinned_functions.json")
        _PINNED = set(json.load(open(p))) if os.path.exists(p) else None
    return _PINNED


COMBINATORS = [
    (r"^std::option::Option::<T>::map$", "opt_map"),
    (r"^std::option::Option::<T>::and_then$", "opt_and_then"),
    (r"^std::option::Option::<T>::or_else$", "opt_or_else"),
    (r"^std::option::Option::<T>::ok_or_else$", "opt_ok_or_else"),
    (r"^std::option::Option::<T>::unwrap_or_else$", "opt_unwrap_or_else"),
    (r"^std::option::Option::<T>::is_some_and$", "opt_is_some_and"),
    (r"^std::result::Result::<T, E>::map$", "res_map"),
    (r"^std::result::Result::<T, E>::map_err$", "res_map_err"),
    (r"^std::result::Result::<T, E>::and_then$", "res_and_then"),
    (r"^std::result::Result::<T, E>::or_else$", "res_or_else"),
    (r"^std::result::Result::<T, E>::unwrap_or_else$", "res_unwrap_or_else"),
    (r"^std::result::Result::<T, E>::map_or_else$", "res_map_or_else"),
    (r"^std::iter::Iterator::any$", "it_any"),
    (r"^std::iter::Iterator::all$", "it_all"),
]


def split_generics(ty):
    """'Foo<A, B<C, D>>' -> ['A', 'B<C, D>'] (top-level arguments)."""
    i = ty.find("<")
    if i < 0 or not ty.endswith(">"):
        return []
    inner = ty[i + 1 : -1]
    out, depth, cur = [], 0, ""
    for ch in inner:
        if ch in "<([":
            depth += 1
        elif ch in ">)]":
            depth -= 1
        if ch == "," and depth == 0:
            out.append(cur.strip())
            cur = ""
        else:
            cur += ch
    if cur.strip():
        out.append(cur.strip())
    return out


def P(l, proj=None):
    return {"local": l, "proj": proj or []}


def MV(p):
    return {"move": p}


def CP(p):
    return {"copy": p}


def variant_field(l, vname, vidx, fty="?"):
    return P(l, [{"downcast": vname, "vidx": vidx}, {"field": "0", "idx": 0, "ty": fty}])


class Splicer:
    def __init__(self, j):
        self.j = j
        self.blocks = j["blocks"]
        self.locals = j["locals"]

    def new_local(self, ty, name=None):
        i = len(self.locals)
        d = {"id": i, "ty": ty}
        if name:
            d["name"] = name
        self.locals.append(d)
        return i

    def new_block(self, stmts, term, span):
        i = len(self.blocks)
        self.blocks.append({"id": i, "cleanup": False, "stmts": stmts, "term": term, "tspan": span, "synthetic": True})
        return i

    @staticmethod
    def assign(place, rv, span):
        return {"k": "assign", "place": place, "rv": rv, "span": span, "syn": True}

    @staticmethod
    def use(op):
        return {"k": "use", "op": op}

    @staticmethod
    def goto(b):
        return {"k": "goto", "target": b}

    def splice_body(self, callee, arg_ops, dest_place, cont, span, env_op=None, label=None):
        """Copy callee's blocks/locals into this body; returns the entry block id. Parameters are assigned in a fresh
        entry block; `return` becomes `dest = _0; goto cont`."""
        off_l = len(self.locals)
        off_b = len(self.blocks)
        for l in callee["locals"]:
            d = dict(l)
            d["id"] = l["id"] + off_l
            if d.get("name") and label:
                d["inlined_from"] = label
            if 1 <= l["id"] <= callee.get("arg_count", 0):
                d["inlined_param"] = True
            self.locals.append(d)

        def rm(o):
            if isinstance(o, list):
                return [rm(x) for x in o]
            if not isinstance(o, dict):
                return o
            r = {}
            for k, v in o.items():
                if k == "local" and isinstance(v, int):
                    r[k] = v + off_l
                elif k == "index" and isinstance(v, int):
                    r[k] = v + off_l
                elif k in ("target", "otherwise", "unwind", "drop") and isinstance(v, int):
                    r[k] = v + off_b
                elif k == "targets" and isinstance(v, list):
                    r[k] = [[a, b + off_b] for a, b in v]
                elif k in ("const",):
                    r[k] = v
                else:
                    r[k] = rm(v)
            return r

        for blk in callee["blocks"]:
            nb = rm(blk)
            nb["id"] = blk["id"] + off_b
            if label:
                nb["inlined_from"] = label
            t = nb["term"]
            if t["k"] == "return":
                if dest_place is not None:
                    nb["stmts"] = nb["stmts"] + [self.assign(dest_place, self.use(MV(P(off_l))), nb["tspan"])]
                nb["term"] = self.goto(cont) if cont is not None else {"k": "unreachable"}
            self.blocks.append(nb)
        # entry: bind parameters
        stmts = []
        params = list(arg_ops)
        if env_op is not None:
            params = [env_op] + params
        for i, a in enumerate(params):
            if a is None:
                continue
            if isinstance(a, dict) and a.get("k"):
                stmts.append(self.assign(P(off_l + 1 + i), a, span))
            else:
                stmts.append(self.assign(P(off_l + 1 + i), self.use(a), span))
        entry = self.new_block(stmts, self.goto(off_b), span)
        return entry


class Normaliser:
    def __init__(self, facts_json):
        self.fj = facts_json
        self.by_path = {}
        for b in facts_json["bodies"]:
            self.by_path.setdefault(b["path"], b)
        self.done = {}
        self.in_progress = set()
        self.closure_uses = {}  # closure path -> [n inlined, n other]
        self.fn_inlined = set()
        self.stats = {"combinators": 0, "closures_inlined": 0, "helpers_inlined": 0}

    # -------------------------------------------------------------- helpers
    def single_def_stmt(self, j, local):
        hits = []
        for blk in j["blocks"]:
            if blk.get("cleanup"):
                continue
            for s in blk["stmts"]:
                if s["k"] == "assign" and s["place"]["local"] == local and not s["place"]["proj"]:
                    hits.append(s)
            t = blk["term"]
            if t["k"] == "call" and t["dest"]["local"] == local and not t["dest"]["proj"]:
                hits.append(t)
        return hits[0] if len(hits) == 1 else None

    def callable_of(self, j, op, depth=4):
        """('closure', path, closure_local) | ('fn', constdict) | None for the operand passed as callback."""
        if "const" in op:
            c = op["const"]
            if "fn" in c:
                return ("fn", c, None)
            return None
        p = op.get("move") or op.get("copy")
        if p is None or p["proj"]:
            return None
        l = p["local"]
        while depth > 0:
            depth -= 1
            d = self.single_def_stmt(j, l)
            if d is None or d.get("k") != "assign":
                return None
            rv = d["rv"]
            if rv["k"] == "aggregate" and rv.get("closure"):
                return ("closure", rv["closure"], l)
            if rv["k"] == "use":
                o = rv["op"]
                if "const" in o and "fn" in o["const"]:
                    return ("fn", o["const"], None)
                p2 = o.get("move") or o.get("copy")
                if p2 is None or p2["proj"]:
                    return None
                l = p2["local"]
                continue
            return None
        return None

    # -------------------------------------------------------------- main
    def body(self, path):
        if path in self.done:
            return self.done[path]
        if path in self.in_progress:
            return self.by_path.get(path)
        src = self.by_path.get(path)
        if src is None:
            return None
        self.in_progress.add(path)
        j = copy.deepcopy(src)
        try:
            self.normalise(j)
        except Exception as e:  # never let normalisation hide a body: fall back to the raw one
            j = copy.deepcopy(src)
            j["normalise_error"] = repr(e)
        self.in_progress.discard(path)
        self.done[path] = j
        return j

    def emit_call(self, sp, kind, fnc, clos_local, args, dest_place, cont, span, j):
        """Emit the invocation of the callback with operand list `args`; result into dest_place; continue at cont.
        Returns entry block id."""
        if kind == "closure":
            cj = self.body(fnc)
            if cj is None:
                return None
            env_ty = cj["locals"][1]["ty"] if len(cj["locals"]) > 1 else ""
            clos = P(clos_local)
            if env_ty.startswith("&mut "):
                env = {"k": "ref", "mut": True, "place": clos}
            elif env_ty.startswith("&"):
                env = {"k": "ref", "mut": False, "place": clos}
            else:
                env = MV(clos)
            self.stats["closures_inlined"] += 1
            self.closure_uses.setdefault(fnc, [0, 0])[0] += 1
            # closure params: a single tuple-spread is not used by mir_built closures (args are individual locals)
            return sp.splice_body(cj, args, dest_place, cont, span, env_op=env, label=fnc)
        # fn item
        c = fnc
        if c.get("ctor"):
            ct = c["ctor"]
            rv = {"k": "aggregate", "adt": ct["adt"], "variant": ct["variant"], "fields": ct["fields"], "ops": args}
            return sp.new_block([sp.assign(dest_place, rv, span)], sp.goto(cont), span)
        local = c["fn"] in self.by_path
        term = {"k": "call", "callee": c["fn"], "callee_true": c["fn"], "callee_full": c.get("fn_full", c["fn"]), "gargs": [], "resolved": c["fn"], "resolved_true": c["fn"],
                "resolved_full": c.get("fn_full", c["fn"]), "resolved_local": local, "args": args, "arg_tys": ["?"] * len(args), "dest": dest_place, "target": cont, "unwind": None, "fn_span": span}
        return sp.new_block([], term, span)

    def normalise(self, j):
        sp = Splicer(j)
        nblocks = len(j["blocks"])
        for bi in range(nblocks):
            blk = j["blocks"][bi]
            if blk.get("cleanup"):
                continue
            t = blk["term"]
            if t["k"] != "call":
                continue
            kind = None
            for rx, k in COMBINATORS:
                if re.search(rx, t.get("callee", "")):
                    kind = k
            if kind and t.get("target") is not None:
                self.desugar(sp, j, bi, blk, t, kind)
                continue
            # helper inlining
            pin = pinned_functions()
            r = t.get("resolved")
            if pin is not None and t.get("resolved_local") and r in self.by_path and r not in pin and t.get("target") is not None:
                cj0 = self.by_path[r]
                if cj0["kind"] in ("Fn", "AssocFn") and not cj0.get("coroutine_kind") and r != j["path"]:
                    cj = self.body(r)
                    span = blk["tspan"]
                    entry = sp.splice_body(cj, t["args"], t["dest"], t["target"], span, label=r)
                    blk["term"] = sp.goto(entry)
                    blk["inlined_call"] = r
                    self.stats["helpers_inlined"] += 1
                    self.fn_inlined.add(r)
            elif t.get("resolved_local") and t.get("args"):
                # closure passed somewhere we do not desugar: remember it is still needed standalone
                for a in t["args"]:
                    cb = self.callable_of(j, a)
                    if cb and cb[0] == "closure":
                        self.closure_uses.setdefault(cb[1], [0, 0])[1] += 1
        # closures passed to non-desugared std calls
        for blk in j["blocks"][:nblocks]:
            t = blk["term"]
            if t["k"] == "call" and not blk.get("desugared") and not t.get("resolved_local"):
                for a in t.get("args", []):
                    cb = self.callable_of(j, a)
                    if cb and cb[0] == "closure":
                        self.closure_uses.setdefault(cb[1], [0, 0])[1] += 1

    def desugar(self, sp, j, bi, blk, t, kind):
        span = blk["tspan"]
        args = t["args"]
        dest, cont = t["dest"], t["target"]
        recv = args[0]
        rp = recv.get("move") or recv.get("copy")
        if rp is None:
            return
        cbs = [self.callable_of(j, a) for a in args[1:]]
        if not cbs or any(c is None for c in cbs):
            return
        # receiver into a fresh local so that projections are simple
        rty = t["arg_tys"][0] if t.get("arg_tys") else "?"
        gen = split_generics(rty)
        rl = sp.new_local(rty, None)
        pre = [sp.assign(P(rl), sp.use(recv), span)]
        dl = sp.new_local("isize", None)

        def call(i, a_ops, dplace, cnt):
            k_, f_, cl_ = cbs[i]
            return self.emit_call(sp, k_, f_, cl_, a_ops, dplace, cnt, span, j)

        def agg(adt, variant, op):
            return {"k": "aggregate", "adt": adt, "variant": variant, "fields": ["0"], "ops": [op]}

        OPT, RES = "std::option::Option", "std::result::Result"
        if kind.startswith("opt_"):
            pty = gen[0] if gen else "?"
            some_v = variant_field(rl, "Some", 1, pty)
            pay = sp.new_local(pty, None)
            res_l = sp.new_local("?", None)
            if kind == "opt_map":
                b_fin = sp.new_block([sp.assign(dest, agg(OPT, "Some", MV(P(res_l))), span)], sp.goto(cont), span)
                e = call(0, [MV(P(pay))], P(res_l), b_fin)
                b_some = sp.new_block([sp.assign(P(pay), sp.use(MV(some_v)), span)], sp.goto(e), span)
                b_none = sp.new_block([sp.assign(dest, {"k": "aggregate", "adt": OPT, "variant": "None", "fields": [], "ops": []}, span)], sp.goto(cont), span)
            elif kind == "opt_and_then":
                e = call(0, [MV(P(pay))], dest, cont)
                b_some = sp.new_block([sp.assign(P(pay), sp.use(MV(some_v)), span)], sp.goto(e), span)
                b_none = sp.new_block([sp.assign(dest, {"k": "aggregate", "adt": OPT, "variant": "None", "fields": [], "ops": []}, span)], sp.goto(cont), span)
            elif kind == "opt_or_else":
                b_some = sp.new_block([sp.assign(dest, sp.use(MV(P(rl))), span)], sp.goto(cont), span)
                b_none = call(0, [], dest, cont)
            elif kind == "opt_ok_or_else":
                b_some = sp.new_block([sp.assign(P(pay), sp.use(MV(some_v)), span), sp.assign(dest, agg(RES, "Ok", MV(P(pay))), span)], sp.goto(cont), span)
                b_fin = sp.new_block([sp.assign(dest, agg(RES, "Err", MV(P(res_l))), span)], sp.goto(cont), span)
                b_none = call(0, [], P(res_l), b_fin)
            elif kind == "opt_unwrap_or_else":
                b_some = sp.new_block([sp.assign(dest, sp.use(MV(some_v)), span)], sp.goto(cont), span)
                b_none = call(0, [], dest, cont)
            elif kind == "opt_is_some_and":
                e = call(0, [MV(P(pay))], dest, cont)
                b_some = sp.new_block([sp.assign(P(pay), sp.use(MV(some_v)), span)], sp.goto(e), span)
                b_none = sp.new_block([sp.assign(dest, sp.use({"const": {"ty": "bool", "repr": "false", "scalar": 0}}), span)], sp.goto(cont), span)
            else:
                return
            if b_some is None or b_none is None:
                return
            sw = {"k": "switch", "discr": MV(P(dl)), "discr_ty": "isize", "targets": [[0, b_none], [1, b_some]], "otherwise": b_none}
        elif kind.startswith("res_"):
            tty = gen[0] if gen else "?"
            ety = gen[1] if len(gen) > 1 else "?"
            ok_v = variant_field(rl, "Ok", 0, tty)
            err_v = variant_field(rl, "Err", 1, ety)
            pay = sp.new_local(tty, None)
            epay = sp.new_local(ety, None)
            res_l = sp.new_local("?", None)
            if kind == "res_map":
                b_fin = sp.new_block([sp.assign(dest, agg(RES, "Ok", MV(P(res_l))), span)], sp.goto(cont), span)
                e = call(0, [MV(P(pay))], P(res_l), b_fin)
                b_ok = sp.new_block([sp.assign(P(pay), sp.use(MV(ok_v)), span)], sp.goto(e), span)
                b_err = sp.new_block([sp.assign(P(epay), sp.use(MV(err_v)), span), sp.assign(dest, agg(RES, "Err", MV(P(epay))), span)], sp.goto(cont), span)
            elif kind == "res_map_err":
                b_fin = sp.new_block([sp.assign(dest, agg(RES, "Err", MV(P(res_l))), span)], sp.goto(cont), span)
                e = call(0, [MV(P(epay))], P(res_l), b_fin)
                b_err = sp.new_block([sp.assign(P(epay), sp.use(MV(err_v)), span)], sp.goto(e), span)
                b_ok = sp.new_block([sp.assign(P(pay), sp.use(MV(ok_v)), span), sp.assign(dest, agg(RES, "Ok", MV(P(pay))), span)], sp.goto(cont), span)
            elif kind == "res_and_then":
                e = call(0, [MV(P(pay))], dest, cont)
                b_ok = sp.new_block([sp.assign(P(pay), sp.use(MV(ok_v)), span)], sp.goto(e), span)
                b_err = sp.new_block([sp.assign(P(epay), sp.use(MV(err_v)), span), sp.assign(dest, agg(RES, "Err", MV(P(epay))), span)], sp.goto(cont), span)
            elif kind == "res_or_else":
                e = call(0, [MV(P(epay))], dest, cont)
                b_err = sp.new_block([sp.assign(P(epay), sp.use(MV(err_v)), span)], sp.goto(e), span)
                b_ok = sp.new_block([sp.assign(P(pay), sp.use(MV(ok_v)), span), sp.assign(dest, agg(RES, "Ok", MV(P(pay))), span)], sp.goto(cont), span)
            elif kind == "res_unwrap_or_else":
                e = call(0, [MV(P(epay))], dest, cont)
                b_err = sp.new_block([sp.assign(P(epay), sp.use(MV(err_v)), span)], sp.goto(e), span)
                b_ok = sp.new_block([sp.assign(dest, sp.use(MV(ok_v)), span)], sp.goto(cont), span)
            elif kind == "res_map_or_else":
                if len(cbs) != 2:
                    return
                e0 = call(0, [MV(P(epay))], dest, cont)
                e1 = call(1, [MV(P(pay))], dest, cont)
                b_err = sp.new_block([sp.assign(P(epay), sp.use(MV(err_v)), span)], sp.goto(e0), span)
                b_ok = sp.new_block([sp.assign(P(pay), sp.use(MV(ok_v)), span)], sp.goto(e1), span)
            else:
                return
            if b_ok is None or b_err is None:
                return
            sw = {"k": "switch", "discr": MV(P(dl)), "discr_ty": "isize", "targets": [[0, b_ok], [1, b_err]], "otherwise": b_err}
        elif kind in ("it_any", "it_all"):
            # loop { match iter.next() { None => break default, Some(x) => if pred(x) == stop { break !default } } }
            ity = rty
            it_ref = sp.new_local("&mut " + rty.lstrip("&mut ").strip(), None)
            nxt = sp.new_local("std::option::Option<?>", None)
            nd = sp.new_local("isize", None)
            pay = sp.new_local("?", None)
            pr = sp.new_local("bool", None)
            default = 0 if kind == "it_any" else 1
            b_none = sp.new_block([sp.assign(dest, sp.use({"const": {"ty": "bool", "repr": str(bool(default)).lower(), "scalar": default}}), span)], sp.goto(cont), span)
            b_hit = sp.new_block([sp.assign(dest, sp.use({"const": {"ty": "bool", "repr": str(bool(1 - default)).lower(), "scalar": 1 - default}}), span)], sp.goto(cont), span)
            head = sp.new_block([], {"k": "goto", "target": 0}, span)  # patched below
            test = sp.new_block([], {"k": "switch", "discr": MV(P(pr)), "discr_ty": "bool", "targets": [[0, b_hit if kind == "it_all" else head]], "otherwise": b_hit if kind == "it_any" else head}, span)
            e = call(0, [MV(P(pay))], P(pr), test)
            if e is None:
                return
            b_some = sp.new_block([sp.assign(P(pay), sp.use(MV(variant_field(nxt, "Some", 1))), span)], sp.goto(e), span)
            b_sw = sp.new_block([sp.assign(P(nd), {"k": "discr", "place": P(nxt)}, span)], {"k": "switch", "discr": MV(P(nd)), "discr_ty": "isize", "targets": [[0, b_none], [1, b_some]], "otherwise": b_none}, span)
            recv_is_ref = rty.startswith("&mut")
            it_arg = CP(P(rl)) if recv_is_ref else CP(P(it_ref))
            nxt_call = {"k": "call", "callee": "std::iter::Iterator::next", "callee_true": "core::iter::Iterator::next", "callee_full": "<%s as std::iter::Iterator>::next" % rty, "gargs": [rty], "trait": "std::iter::Iterator",
                        "self_ty": rty, "resolved": "std::iter::Iterator::next", "resolved_full": "<%s as std::iter::Iterator>::next" % rty.replace("&mut ", ""), "resolved_local": False,
                        "args": [it_arg], "arg_tys": ["&mut " + rty.replace("&mut ", "")], "dest": P(nxt), "target": b_sw, "unwind": None, "fn_span": span}
            hstmts = [] if recv_is_ref else [sp.assign(P(it_ref), {"k": "ref", "mut": True, "place": P(rl)}, span)]
            j["blocks"][head]["stmts"] = hstmts
            j["blocks"][head]["term"] = nxt_call
            blk["stmts"] = blk["stmts"] + pre
            blk["term"] = sp.goto(head)
            blk["desugared"] = kind
            self.stats["combinators"] += 1
            return
        else:
            return
        blk["stmts"] = blk["stmts"] + pre + [sp.assign(P(dl), {"k": "discr", "place": P(rl)}, span)]
        blk["term"] = sw
        blk["desugared"] = kind
        self.stats["combinators"] += 1

    def run(self):
        out = []
        for b in self.fj["bodies"]:
            out.append(self.body(b["path"]))
        # absorbed bodies
        pin = pinned_functions() or set()
        for j in out:
            p = j["path"]
            if j["kind"] == "Closure" and not j.get("coroutine_kind"):
                u = self.closure_uses.get(p, [0, 0])
                if u[0] > 0 and u[1] == 0:
                    j["absorbed"] = True
            elif p in self.fn_inlined and p not in pin:
                vis = j.get("vis", "")
                if "Public" not in vis:
                    j["absorbed"] = True
        self.fj["bodies"] = out
        self.fj["normalisation"] = self.stats
        return self.fj
