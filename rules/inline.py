"""Idiom normalisation of the fact base before the rules see it (so that behaviour-preserving refactorings do not
disturb them):

  1. std combinators applied to a closure or fn item (Option::{map,and_then,or_else,ok_or_else,unwrap_or_else,...},
     Result::{map,map_err,and_then,or_else,unwrap_or_else,map_or_else}, Iterator::{any,all}) are replaced by their
     defining control flow (a SwitchInt on the discriminant + the closure body spliced in place);
  2. calls to crate-local functions that did not exist on the reviewed tree (tables/pinned_functions.json) - i.e. helper
     functions extracted by a refactoring - are inlined into their callers.

Both are pure CFG splices over the JSON MIR; nothing is executed. Bodies that were spliced into every user are marked
`absorbed` and skipped by whole-crate enumerations."""
import copy
import json
import os
import re

HERE = os.path.dirname(os.path.abspath(__file__))
_PINNED = None


_PINNED_FP = {}


def pinned_functions():
    global _PINNED, _PINNED_FP
    if _PINNED is None:
        p = os.path.join(HERE, "tables", "pinned_functions.json")
        if os.path.exists(p):
            d = json.load(open(p))
            _PINNED = set(d)
            _PINNED_FP = d if isinstance(d, dict) else {}
    return _PINNED


def fingerprint(b):
    """Name-independent summary of a raw body: argument count, multiset of callees and constants."""
    import hashlib
    items = ["args=%d" % b.get("arg_count", 0), "kind=" + b.get("kind", "")]
    own = b["path"]
    for blk in b["blocks"]:
        if blk.get("cleanup"):
            continue
        t = blk["term"]
        if t["k"] == "call":
            c = t.get("resolved_full") or t.get("callee", "")
            if t.get("resolved_local"):
                items.append("c:<crate-local>")  # its name may have changed in the same commit
            elif own not in c:
                items.append("c:" + c)
        elif t["k"] in ("switch", "assert"):
            items.append("t:" + t["k"])
        for st in blk["stmts"]:
            if st["k"] == "assign":
                rv = st["rv"]
                ops = list(rv.get("ops") or []) + ([rv["op"]] if isinstance(rv.get("op"), dict) else [])
                for o in ops:
                    if isinstance(o, dict) and "const" in o:
                        items.append("k:" + str(o["const"].get("repr", ""))[:60])
    items.sort()
    return hashlib.sha1("\n".join(items).encode()).hexdigest()[:16]


# closures handed to iterator adaptors/consumers that are NOT desugared into loops: their body is spliced once at the
# call site, applied to a synthetic "element of the receiver" (summary splice), so that def-use slices and inventories
# see what the closure reads, computes and may panic on. kind: how the closure is applied to the element.
LAZY = [
    (r"^std::iter::Iterator::(map|filter_map|flat_map|find_map|map_while|position|try_for_each)$", "val"),
    (r"^std::iter::Iterator::(filter|find|take_while|skip_while|inspect|rposition)$", "ref"),
    (r"^std::iter::Iterator::(fold|try_fold)$", "acc"),
]


def basename(path):
    """Module-independent name of an item: `Type::method` for associated functions, the last segment otherwise."""
    segs = [x for x in re.split(r"::(?![^<]*>)", path) if x]
    if len(segs) >= 2 and (segs[-2][:1].isupper() or segs[-2].startswith("<")):
        return segs[-2] + "::" + segs[-1]
    return segs[-1] if segs else path


def moved_alias(by_path):
    """{new path -> old pinned path} for functions that only changed module (the reviewed path no longer exists and
    exactly one unreviewed function carries the same module-independent name)."""
    pin = pinned_functions()
    if not pin:
        return {}
    gone = {}
    for q in pin:
        if q not in by_path and "{closure" not in q:
            gone.setdefault(basename(q), []).append(q)
    out = {}
    for r in by_path:
        if r in pin or "{closure" in r:
            continue
        c = gone.get(basename(r), [])
        if len(c) == 1 and sum(1 for r2 in by_path if r2 not in pin and "{closure" not in r2 and basename(r2) == basename(r)) == 1:
            out[r] = c[0]
    # renamed: a reviewed path is gone and exactly one new function has its fingerprint (same calls and constants)
    if _PINNED_FP:
        gone_fp = {}
        for q in pin:
            if q not in by_path and "{closure" not in q and q not in out.values() and _PINNED_FP.get(q):
                gone_fp.setdefault(_PINNED_FP[q], []).append(q)
        new_fp = {}
        for r, b in by_path.items():
            if r not in pin and "{closure" not in r and r not in out and b.get("kind") in ("Fn", "AssocFn"):
                new_fp.setdefault(fingerprint(b), []).append(r)
        for fp_, olds in gone_fp.items():
            news = new_fp.get(fp_, [])
            if len(olds) == 1 and len(news) == 1:
                out[news[0]] = olds[0]
    return out


COMBINATORS = [
    (r"^std::option::Option::<T>::map$", "opt_map"),
    (r"^std::option::Option::<T>::and_then$", "opt_and_then"),
    (r"^std::option::Option::<T>::or_else$", "opt_or_else"),
    (r"^std::option::Option::<T>::ok_or_else$", "opt_ok_or_else"),
    (r"^std::option::Option::<T>::unwrap_or_else$", "opt_unwrap_or_else"),
    (r"^std::option::Option::<T>::is_some_and$", "opt_is_some_and"),
    (r"^std::option::Option::<T>::map_or$", "opt_map_or"),
    (r"^std::option::Option::<T>::unwrap_or$", "opt_unwrap_or"),
    (r"^std::option::Option::<T>::filter$", "opt_filter"),
    (r"^std::option::Option::<T>::map_or_else$", "opt_map_or_else"),
    (r"^std::result::Result::<T, E>::map$", "res_map"),
    (r"^std::result::Result::<T, E>::map_err$", "res_map_err"),
    (r"^std::result::Result::<T, E>::and_then$", "res_and_then"),
    (r"^std::result::Result::<T, E>::or_else$", "res_or_else"),
    (r"^std::result::Result::<T, E>::unwrap_or_else$", "res_unwrap_or_else"),
    (r"^std::result::Result::<T, E>::map_or_else$", "res_map_or_else"),
    (r"^std::iter::Iterator::any$", "it_any"),
    (r"^std::iter::Iterator::all$", "it_all"),
    (r"^std::iter::Iterator::for_each$", "it_for_each"),
]


def split_generics(ty):
    """'Foo<A, B<C, D>>' -> ['A', 'B<C, D>'] (top-level arguments)."""
    i = ty.find("<")
    if i < 0 or not ty.endswith(">"):
        return []
    inner = ty[i + 1 : -1]
    out, depth, cur = [], 0, ""
    for ch in inner:
        if ch in "<([":
            depth += 1
        elif ch in ">)]":
            depth -= 1
        if ch == "," and depth == 0:
            out.append(cur.strip())
            cur = ""
        else:
            cur += ch
    if cur.strip():
        out.append(cur.strip())
    return out


def op_place_local(o):
    p = o.get("move") or o.get("copy") if isinstance(o, dict) else None
    return p if p is not None else None


def P(l, proj=None):
    return {"local": l, "proj": proj or []}


def MV(p):
    return {"move": p}


def CP(p):
    return {"copy": p}


def variant_field(l, vname, vidx, fty="?"):
    return P(l, [{"downcast": vname, "vidx": vidx}, {"field": "0", "idx": 0, "ty": fty}])


class Splicer:
    def __init__(self, j):
        self.j = j
        self.blocks = j["blocks"]
        self.locals = j["locals"]

    def new_local(self, ty, name=None):
        i = len(self.locals)
        d = {"id": i, "ty": ty}
        if name:
            d["name"] = name
        self.locals.append(d)
        return i

    def new_block(self, stmts, term, span):
        i = len(self.blocks)
        self.blocks.append({"id": i, "cleanup": False, "stmts": stmts, "term": term, "tspan": span, "synthetic": True})
        return i

    @staticmethod
    def assign(place, rv, span):
        return {"k": "assign", "place": place, "rv": rv, "span": span, "syn": True}

    @staticmethod
    def use(op):
        return {"k": "use", "op": op}

    @staticmethod
    def goto(b):
        return {"k": "goto", "target": b}

    def splice_body(self, callee, arg_ops, dest_place, cont, span, env_op=None, label=None, upvars=None, tsubst=None):
        """Copy callee's blocks/locals into this body; returns the entry block id. Parameters are assigned in a fresh
        entry block; `return` becomes `dest = _0; goto cont`."""
        off_l = len(self.locals)
        off_b = len(self.blocks)
        for l in callee["locals"]:
            d = dict(l)
            d["id"] = l["id"] + off_l
            if d.get("name") and label:
                d["inlined_from"] = label
            if 1 <= l["id"] <= callee.get("arg_count", 0):
                d["inlined_param"] = True
            self.locals.append(d)

        def rm(o):
            if isinstance(o, list):
                return [rm(x) for x in o]
            if not isinstance(o, dict):
                return o
            r = {}
            for k, v in o.items():
                if k == "local" and isinstance(v, int):
                    r[k] = v + off_l
                elif k == "index" and isinstance(v, int):
                    r[k] = v + off_l
                elif k in ("target", "otherwise", "unwind", "drop") and isinstance(v, int):
                    r[k] = v + off_b
                elif k == "targets" and isinstance(v, list):
                    r[k] = [[a, b + off_b] for a, b in v]
                elif k in ("const",):
                    r[k] = v
                else:
                    r[k] = rm(v)
            return r

        env_local = off_l + 1

        def subst(o):
            """captured variables: `(*(*env).k)` (by reference) / `(*env).k` (by value) -> the parent's own place"""
            if isinstance(o, list):
                return [subst(x) for x in o]
            if not isinstance(o, dict):
                return o
            if "local" in o and "proj" in o and isinstance(o.get("proj"), list) and o["local"] == env_local and upvars:
                pr = list(o["proj"])
                if pr and pr[0] == "deref":
                    pr = pr[1:]
                if pr and isinstance(pr[0], dict) and "field" in pr[0] and pr[0].get("idx", -1) < len(upvars):
                    uv = upvars[pr[0]["idx"]]
                    rest = pr[1:]
                    if uv is not None and uv[0] == "ref" and rest and rest[0] == "deref":
                        r = dict(o)
                        r["local"] = uv[1]["local"]
                        r["proj"] = list(uv[1]["proj"]) + [subst(e) for e in rest[1:]]
                        return r
                    if uv is not None and uv[0] == "val":
                        r = dict(o)
                        r["local"] = uv[1]["local"]
                        r["proj"] = list(uv[1]["proj"]) + [subst(e) for e in rest]
                        return r
            return {k: (v if k == "const" else subst(v)) for k, v in o.items()}

        def tsub(o):
            """instantiate the helper's type parameter in type strings / callee names"""
            if isinstance(o, list):
                return [tsub(x) for x in o]
            if isinstance(o, dict):
                return {k: (v if k in ("const", "span", "tspan", "fn_span") else tsub(v)) for k, v in o.items()}
            if isinstance(o, str):
                for a, b_ in tsubst.items():
                    o = re.sub(r"(?<![\w:])%s(?![\w])" % re.escape(a), b_, o)
                return o
            return o

        for blk in callee["blocks"]:
            nb = rm(blk)
            if upvars:
                nb = subst(nb)
            if tsubst:
                nb = tsub(nb)
                tt = nb["term"]
                if tt["k"] == "call" and tt.get("resolved") == "GENERIC" and tt.get("callee") == "std::str::FromStr::from_str" and re.match(r"^[ui](8|16|32|64|128|size)$", tt.get("self_ty", "")):
                    tt["resolved"] = tt["callee"]
                    tt["resolved_full"] = "core::num::<impl std::str::FromStr for %s>::from_str" % tt["self_ty"]
                    tt["resolved_local"] = False
            nb["id"] = blk["id"] + off_b
            if label:
                nb["inlined_from"] = label
            t = nb["term"]
            if t["k"] == "return":
                if dest_place is not None:
                    nb["stmts"] = nb["stmts"] + [self.assign(dest_place, self.use(MV(P(off_l))), nb["tspan"])]
                nb["term"] = self.goto(cont) if cont is not None else {"k": "unreachable"}
            self.blocks.append(nb)
        # entry: bind parameters
        stmts = []
        params = list(arg_ops)
        if env_op is not None:
            params = [env_op] + params
        for i, a in enumerate(params):
            if a is None:
                continue
            if isinstance(a, dict) and a.get("k"):
                stmts.append(self.assign(P(off_l + 1 + i), a, span))
            else:
                stmts.append(self.assign(P(off_l + 1 + i), self.use(a), span))
        entry = self.new_block(stmts, self.goto(off_b), span)
        self.last_off = (off_l, off_b)
        return entry

    def bind_and_enter(self, off_l, off_b, arg_ops, span):
        """A further call site of a body that was already spliced: assign the (shared) parameter locals, enter it."""
        stmts = [self.assign(P(off_l + 1 + i), self.use(a), span) for i, a in enumerate(arg_ops)]
        return self.new_block(stmts, self.goto(off_b), span)


class Normaliser:
    def __init__(self, facts_json):
        self.fj = facts_json
        self.by_path = {}
        for b in facts_json["bodies"]:
            self.by_path.setdefault(b["path"], b)
        self.done = {}
        self.in_progress = set()
        self.closure_uses = {}  # closure path -> [n inlined, n other]
        self.fn_inlined = set()
        self.stats = {"combinators": 0, "closures_inlined": 0, "helpers_inlined": 0}
        self.moved = moved_alias(self.by_path)

    # -------------------------------------------------------------- helpers
    def single_def_stmt(self, j, local):
        hits = []
        for blk in j["blocks"]:
            if blk.get("cleanup"):
                continue
            for s in blk["stmts"]:
                if s["k"] == "assign" and s["place"]["local"] == local and not s["place"]["proj"]:
                    hits.append(s)
            t = blk["term"]
            if t["k"] == "call" and t["dest"]["local"] == local and not t["dest"]["proj"]:
                hits.append(t)
        return hits[0] if len(hits) == 1 else None

    def callable_of(self, j, op, depth=4):
        """('closure', path, closure_local) | ('fn', constdict) | None for the operand passed as callback."""
        if "const" in op:
            c = op["const"]
            if "fn" in c:
                return ("fn", c, None)
            return None
        p = op.get("move") or op.get("copy")
        if p is None or p["proj"]:
            return None
        l = p["local"]
        while depth > 0:
            depth -= 1
            d = self.single_def_stmt(j, l)
            if d is None or d.get("k") != "assign":
                return None
            rv = d["rv"]
            if rv["k"] == "aggregate" and rv.get("closure"):
                return ("closure", rv["closure"], l)
            if rv["k"] == "use":
                o = rv["op"]
                if "const" in o and "fn" in o["const"]:
                    return ("fn", o["const"], None)
                p2 = o.get("move") or o.get("copy")
                if p2 is None or p2["proj"]:
                    return None
                l = p2["local"]
                continue
            return None
        return None

    # -------------------------------------------------------------- main
    def body(self, path):
        if path in self.done:
            return self.done[path]
        if path in self.in_progress:
            return self.by_path.get(path)
        src = self.by_path.get(path)
        if src is None:
            return None
        self.in_progress.add(path)
        j = copy.deepcopy(src)
        try:
            self.normalise(j)
        except Exception as e:  # never let normalisation hide a body: fall back to the raw one
            j = copy.deepcopy(src)
            j["normalise_error"] = repr(e)
        self.in_progress.discard(path)
        self.done[path] = j
        return j

    def emit_call(self, sp, kind, fnc, clos_local, args, dest_place, cont, span, j):
        """Emit the invocation of the callback with operand list `args`; result into dest_place; continue at cont.
        Returns entry block id."""
        if kind == "closure":
            cj = self.body(fnc)
            if cj is None:
                return None
            env_ty = cj["locals"][1]["ty"] if len(cj["locals"]) > 1 else ""
            clos = P(clos_local)
            if env_ty.startswith("&mut "):
                env = {"k": "ref", "mut": True, "place": clos}
            elif env_ty.startswith("&"):
                env = {"k": "ref", "mut": False, "place": clos}
            else:
                env = MV(clos)
            self.stats["closures_inlined"] += 1
            self.closure_uses.setdefault(fnc, [0, 0])[0] += 1
            # captured variables of the closure value: by-reference captures are re-borrows of the parent's places
            upvars = None
            cd = self.single_def_stmt(j, clos_local)
            if cd is not None and cd.get("k") == "assign" and cd["rv"].get("closure"):
                upvars = []
                for o in cd["rv"]["ops"]:
                    pl = o.get("move") or o.get("copy")
                    uv = None
                    if pl is not None and not pl["proj"]:
                        dd = self.single_def_stmt(j, pl["local"])
                        if dd is not None and dd.get("k") == "assign" and dd["rv"]["k"] == "ref" and "deref" not in dd["rv"]["place"]["proj"][:0]:
                            uv = ("ref", dd["rv"]["place"])
                        elif dd is not None:
                            uv = ("val", pl)
                    upvars.append(uv)
            # closure params: a single tuple-spread is not used by mir_built closures (args are individual locals)
            return sp.splice_body(cj, args, dest_place, cont, span, env_op=env, label=fnc, upvars=upvars)
        # fn item
        c = fnc
        if c.get("ctor"):
            ct = c["ctor"]
            rv = {"k": "aggregate", "adt": ct["adt"], "variant": ct["variant"], "fields": ct["fields"], "ops": args}
            st = sp.assign(dest_place, rv, span)
            st.pop("syn", None)  # a constructor passed as a function item is a construction written by the author
            return sp.new_block([st], sp.goto(cont), span)
        local = c["fn"] in self.by_path
        pin = pinned_functions()
        if local and pin is not None and c["fn"] not in pin and c["fn"] not in self.moved and c["fn"] != j["path"]:
            # a new crate-local helper passed as a function item (`ok_or_else(invalid)`): splice it like a direct call
            cj0 = self.by_path[c["fn"]]
            if cj0["kind"] in ("Fn", "AssocFn") and not cj0.get("coroutine_kind"):
                cj = self.body(c["fn"])
                self.stats["helpers_inlined"] += 1
                self.fn_inlined.add(c["fn"])
                return sp.splice_body(cj, args, dest_place, cont, span, label=c["fn"])
        term = {"k": "call", "callee": c["fn"], "callee_true": c["fn"], "callee_full": c.get("fn_full", c["fn"]), "gargs": [], "resolved": c["fn"], "resolved_true": c["fn"],
                "resolved_full": c.get("fn_full", c["fn"]), "resolved_local": local, "args": args, "arg_tys": ["?"] * len(args), "dest": dest_place, "target": cont, "unwind": None, "fn_span": span}
        return sp.new_block([], term, span)

    def type_subst(self, cj, t):
        """{type parameter name: concrete type} when the helper has exactly one type parameter and the call names one type."""
        tys = [g for g in t.get("gargs", []) if not g.startswith("'")]
        names = []
        for blk in cj["blocks"]:
            tt = blk["term"]
            if tt["k"] == "call":
                for g in [tt.get("self_ty", "")] + list(tt.get("gargs", [])):
                    if re.match(r"^[A-Z][A-Za-z0-9]*$", g or "") and g not in names and g not in ("Self",):
                        names.append(g)
        if len(tys) == 1 and len(names) == 1 and names[0] != tys[0]:
            return {names[0]: tys[0]}
        return None

    def is_tail_call(self, j, t):
        """'ret' if the call's result is the function's result (dest is _0 and only drops/gotos follow until `return`),
        'ret:Ok' / 'ret:Some' / 'ret:Err' if it is returned wrapped (`return Ok(helper(..))`); None otherwise."""
        if t["dest"]["proj"] or t.get("target") is None:
            return None
        cur = t["target"]
        kind = "ret" if t["dest"]["local"] == 0 else None
        for n in range(40):
            blk = j["blocks"][cur]
            if blk["stmts"]:
                st = blk["stmts"]
                if n == 0 and kind is None and len(st) == 1 and st[0]["k"] == "assign" and st[0]["place"] == {"local": 0, "proj": []} and st[0]["rv"]["k"] == "aggregate" \
                        and st[0]["rv"].get("adt") in ("std::result::Result", "std::option::Option") and len(st[0]["rv"]["ops"]) == 1 and st[0]["rv"]["ops"][0].get("move") == t["dest"]:
                    kind = "ret:" + st[0]["rv"]["variant"]
                else:
                    return None
            tt = blk["term"]
            if tt["k"] == "return":
                return kind
            if tt["k"] in ("goto", "drop"):
                cur = tt["target"]
                continue
            return None
        return None

    def canon_api(self, sp, j):
        """Equivalent spellings of one library operation are rewritten to the spelling the rules know:
        `s.parse::<T>()` -> `T::from_str(s)`;  `caps["g"]` -> `caps.name("g").unwrap().as_str()` (same panic, same text)."""
        for bi in range(len(j["blocks"])):
            blk = j["blocks"][bi]
            t = blk["term"]
            if t["k"] != "call" or blk.get("cleanup") or t.get("target") is None:
                continue
            c = t.get("callee", "")
            span = blk["tspan"]
            if c == "core::str::<impl str>::parse" and t.get("gargs"):
                ty = t["gargs"][0]
                t["callee"] = "std::str::FromStr::from_str"
                t["callee_true"] = "core::str::FromStr::from_str"
                t["callee_full"] = "<%s as std::str::FromStr>::from_str" % ty
                t["self_ty"] = ty
                t["trait"] = "std::str::FromStr"
                rf = "core::num::<impl std::str::FromStr for %s>::from_str" % ty if re.match(r"^[ui](8|16|32|64|128|size)$", ty) else "<%s as std::str::FromStr>::from_str" % ty
                t["resolved"] = rf
                t["resolved_full"] = rf
                t["canon_from"] = c
                self.stats["canon_api"] = self.stats.get("canon_api", 0) + 1
            elif c == "std::ops::Index::index" and re.match(r"^<regex::Captures<'\w+> as std::ops::Index<&('\w+ )?str>>::index$", t.get("resolved_full", "")):
                m_l = sp.new_local("std::option::Option<regex::Match<'_>>", None)
                u_l = sp.new_local("regex::Match<'_>", None)
                r_l = sp.new_local("&regex::Match<'_>", None)
                mk = lambda callee, full, args, tys, dest, target: {"k": "call", "callee": callee, "callee_true": callee, "callee_full": full, "gargs": [], "resolved": callee, "resolved_true": callee,
                                                                    "resolved_full": full, "resolved_local": False, "args": args, "arg_tys": tys, "dest": dest, "target": target, "unwind": None, "fn_span": span, "canon_from": c}
                b3 = sp.new_block([sp.assign(P(r_l), {"k": "ref", "mut": False, "place": P(u_l)}, span)], mk("regex::Match::<'h>::as_str", "regex::Match::<'_>::as_str", [MV(P(r_l))], ["&regex::Match<'_>"], t["dest"], t["target"]), span)
                b2 = sp.new_block([], mk("std::option::Option::<T>::unwrap", "std::option::Option::<regex::Match<'_>>::unwrap", [MV(P(m_l))], ["std::option::Option<regex::Match<'_>>"], P(u_l), b3), span)
                blk["term"] = mk("regex::Captures::<'h>::name", "regex::Captures::<'_>::name", list(t["args"]), list(t.get("arg_tys", [])), P(m_l), b2)
                self.stats["canon_api"] = self.stats.get("canon_api", 0) + 1

    def normalise(self, j):
        sp = Splicer(j)
        self.canon_api(sp, j)
        nblocks = len(j["blocks"])
        shared = {}
        for bi in range(nblocks):
            blk = j["blocks"][bi]
            if blk.get("cleanup"):
                continue
            t = blk["term"]
            if t["k"] != "call":
                continue
            kind = None
            for rx, k in COMBINATORS:
                if re.search(rx, t.get("callee", "")):
                    kind = k
            if kind and t.get("target") is not None:
                self.desugar(sp, j, bi, blk, t, kind)
                continue
            # a local closure called directly: `let f = |x| ..; f(a)` is `<closure as Fn<(A,)>>::call(&f, (a,))`
            if re.search(r"^std::ops::(Fn::call|FnMut::call_mut|FnOnce::call_once)$", t.get("callee", "")) and t.get("target") is not None and len(t["args"]) == 2:
                if self.direct_closure_call(sp, j, bi, blk, t):
                    continue
            lazy = None
            for rx, k in LAZY:
                if re.search(rx, t.get("callee", "")):
                    lazy = k
            if lazy and t.get("target") is not None and not blk.get("desugared"):
                self.summary_splice(sp, j, bi, blk, t, lazy)
                continue
            # helper inlining
            pin = pinned_functions()
            r = t.get("resolved")
            if pin is not None and t.get("resolved_local") and r in self.by_path and r not in pin and r not in self.moved and t.get("target") is not None:
                cj0 = self.by_path[r]
                if cj0["kind"] in ("Fn", "AssocFn") and not cj0.get("coroutine_kind") and r != j["path"]:
                    cj = self.body(r)
                    span = blk["tspan"]
                    # a helper called in tail position from several early returns (`return Self::finish(..)`): one shared
                    # copy, entered from every site - its parameters then play the part of the caller's mutable locals
                    tk = self.is_tail_call(j, t)
                    if tk in ("ret:Err", "ret:None"):
                        tk = None  # error constructors stay one copy per site: each site is a rule site of its own
                    if tk and (r, tk) in shared:
                        off_l, off_b = shared[(r, tk)]
                        blk["term"] = sp.goto(sp.bind_and_enter(off_l, off_b, t["args"], span))
                        blk["inlined_call"] = r
                        self.stats["helpers_inlined"] += 1
                        continue
                    entry = sp.splice_body(cj, t["args"], t["dest"], t["target"], span, label=r, tsubst=self.type_subst(cj, t))
                    if tk:
                        shared[(r, tk)] = sp.last_off
                    blk["term"] = sp.goto(entry)
                    blk["inlined_call"] = r
                    self.stats["helpers_inlined"] += 1
                    self.fn_inlined.add(r)
            elif t.get("resolved_local") and t.get("args"):
                # closure passed somewhere we do not desugar: remember it is still needed standalone
                for a in t["args"]:
                    cb = self.callable_of(j, a)
                    if cb and cb[0] == "closure":
                        self.closure_uses.setdefault(cb[1], [0, 0])[1] += 1
        # closures passed to non-desugared std calls
        for blk in j["blocks"][:nblocks]:
            t = blk["term"]
            if t["k"] == "call" and not blk.get("desugared") and not t.get("resolved_local"):
                for a in t.get("args", []):
                    cb = self.callable_of(j, a)
                    if cb and cb[0] == "closure":
                        self.closure_uses.setdefault(cb[1], [0, 0])[1] += 1

    def direct_closure_call(self, sp, j, bi, blk, t):
        cl = t["args"][0].get("move") or t["args"][0].get("copy")
        tp = t["args"][1].get("move") or t["args"][1].get("copy")
        if cl is None or tp is None or cl["proj"] or tp["proj"]:
            return False
        # the closure value: through one `&f` / `&mut f`
        l = cl["local"]
        d = self.single_def_stmt(j, l)
        if d is not None and d.get("k") == "assign" and d["rv"]["k"] == "ref" and not d["rv"]["place"]["proj"]:
            l = d["rv"]["place"]["local"]
        cb = self.callable_of(j, CP(P(l)))
        if cb is None or cb[0] != "closure":
            return False
        td = self.single_def_stmt(j, tp["local"])
        if td is None or td.get("k") != "assign" or not td["rv"].get("tuple"):
            return False
        span = blk["tspan"]
        e = self.emit_call(sp, "closure", cb[1], cb[2], list(td["rv"]["ops"]), t["dest"], t["target"], span, j)
        if e is None:
            return False
        blk["term"] = sp.goto(e)
        blk["desugared"] = "closure-call"
        self.stats["closure_calls"] = self.stats.get("closure_calls", 0) + 1
        return True

    def summary_splice(self, sp, j, bi, blk, t, kind):
        """`X = it.adaptor(closure)`: keep the call, but first run the closure body once on a synthetic element of `it`
        and pass its result along as an extra (summary) operand of the call."""
        span = blk["tspan"]
        args = t["args"]
        ci = 2 if kind == "acc" else 1
        if len(args) <= ci:
            return
        cb = self.callable_of(j, args[ci])
        if cb is None or cb[0] != "closure":
            return
        recv = args[0]
        rty = t["arg_tys"][0] if t.get("arg_tys") else "?"
        it_l = sp.new_local(rty, None)
        it_ref = sp.new_local("&mut " + rty, None)
        nxt = sp.new_local("std::option::Option<?>", None)
        elem = sp.new_local("?", None)
        res = sp.new_local("?", None)
        # final block: the original call, fed from the saved receiver and carrying the summary operand
        t2 = dict(t)
        t2["args"] = [MV(P(it_l))] + list(args[1:]) + [CP(P(res))]
        t2["summary_operand"] = len(t2["args"]) - 1
        fin = sp.new_block([], t2, span)
        if kind == "ref":
            er = sp.new_local("&?", None)
            cargs = [MV(P(er))]
        elif kind == "acc":
            cargs = [args[1], MV(P(elem))]
        else:
            cargs = [MV(P(elem))]
        e = self.emit_call(sp, "closure", cb[1], cb[2], cargs, P(res), fin, span, j)
        if e is None:
            return
        pre = [sp.assign(P(elem), sp.use(MV(variant_field(nxt, "Some", 1))), span)]
        if kind == "ref":
            pre.append(sp.assign(P(er), {"k": "ref", "mut": False, "place": P(elem)}, span))
        b_el = sp.new_block(pre, sp.goto(e), span)
        ity = rty.replace("&mut ", "")
        nxt_call = {"k": "call", "callee": "std::iter::Iterator::next", "callee_true": "core::iter::Iterator::next", "callee_full": "<%s as std::iter::Iterator>::next" % ity, "gargs": [ity], "trait": "std::iter::Iterator",
                    "self_ty": ity, "resolved": "std::iter::Iterator::next", "resolved_full": "<%s as std::iter::Iterator>::next" % ity, "resolved_local": False,
                    "args": [MV(P(it_ref))], "arg_tys": ["&mut " + ity], "dest": P(nxt), "target": b_el, "unwind": None, "fn_span": span, "summary": True}
        blk["stmts"] = blk["stmts"] + [sp.assign(P(it_l), sp.use(recv), span), sp.assign(P(it_ref), {"k": "ref", "mut": True, "place": P(it_l)}, span)]
        blk["term"] = nxt_call
        blk["desugared"] = "summary:" + t["callee"].split("::")[-1]
        self.stats["summaries"] = self.stats.get("summaries", 0) + 1

    def desugar(self, sp, j, bi, blk, t, kind):
        span = blk["tspan"]
        args = t["args"]
        dest, cont = t["dest"], t["target"]
        recv = args[0]
        rp = recv.get("move") or recv.get("copy")
        if rp is None:
            return
        cbs = [self.callable_of(j, a) for a in args[1:]]
        default_op = None
        if kind == "opt_map_or" and len(args) == 3:
            default_op = args[1]  # a plain value, not a callback
            cbs = cbs[1:]
        if kind == "opt_unwrap_or" and len(args) == 2:
            default_op = args[1]
            cbs = [("none", None, None)]
        if not cbs or any(c is None for c in cbs):
            return
        # receiver into a fresh local so that projections are simple
        rty = t["arg_tys"][0] if t.get("arg_tys") else "?"
        gen = split_generics(rty)
        rl = sp.new_local(rty, None)
        pre = [sp.assign(P(rl), sp.use(recv), span)]
        dl = sp.new_local("isize", None)

        def call(i, a_ops, dplace, cnt):
            k_, f_, cl_ = cbs[i]
            return self.emit_call(sp, k_, f_, cl_, a_ops, dplace, cnt, span, j)

        def agg(adt, variant, op):
            return {"k": "aggregate", "adt": adt, "variant": variant, "fields": ["0"], "ops": [op]}

        OPT, RES = "std::option::Option", "std::result::Result"
        if kind.startswith("opt_"):
            pty = gen[0] if gen else "?"
            some_v = variant_field(rl, "Some", 1, pty)
            pay = sp.new_local(pty, None)
            res_l = sp.new_local("?", None)
            if kind == "opt_map":
                b_fin = sp.new_block([sp.assign(dest, agg(OPT, "Some", MV(P(res_l))), span)], sp.goto(cont), span)
                e = call(0, [MV(P(pay))], P(res_l), b_fin)
                b_some = sp.new_block([sp.assign(P(pay), sp.use(MV(some_v)), span)], sp.goto(e), span)
                b_none = sp.new_block([sp.assign(dest, {"k": "aggregate", "adt": OPT, "variant": "None", "fields": [], "ops": []}, span)], sp.goto(cont), span)
            elif kind == "opt_and_then":
                e = call(0, [MV(P(pay))], dest, cont)
                b_some = sp.new_block([sp.assign(P(pay), sp.use(MV(some_v)), span)], sp.goto(e), span)
                b_none = sp.new_block([sp.assign(dest, {"k": "aggregate", "adt": OPT, "variant": "None", "fields": [], "ops": []}, span)], sp.goto(cont), span)
            elif kind == "opt_or_else":
                b_some = sp.new_block([sp.assign(dest, sp.use(MV(P(rl))), span)], sp.goto(cont), span)
                b_none = call(0, [], dest, cont)
            elif kind == "opt_ok_or_else":
                b_some = sp.new_block([sp.assign(P(pay), sp.use(MV(some_v)), span), sp.assign(dest, agg(RES, "Ok", MV(P(pay))), span)], sp.goto(cont), span)
                b_fin = sp.new_block([sp.assign(dest, agg(RES, "Err", MV(P(res_l))), span)], sp.goto(cont), span)
                b_none = call(0, [], P(res_l), b_fin)
            elif kind == "opt_unwrap_or_else":
                b_some = sp.new_block([sp.assign(dest, sp.use(MV(some_v)), span)], sp.goto(cont), span)
                b_none = call(0, [], dest, cont)
            elif kind == "opt_filter":
                # Some(x) if pred(&x) => Some(x), otherwise None
                keep = sp.new_local("bool", None)
                pref = sp.new_local("&" + pty, None)
                NONE = {"k": "aggregate", "adt": OPT, "variant": "None", "fields": [], "ops": []}
                b_keep = sp.new_block([sp.assign(dest, agg(OPT, "Some", MV(P(pay))), span)], sp.goto(cont), span)
                b_drop = sp.new_block([sp.assign(dest, NONE, span)], sp.goto(cont), span)
                b_test = sp.new_block([], {"k": "switch", "discr": MV(P(keep)), "discr_ty": "bool", "targets": [[0, b_drop]], "otherwise": b_keep}, span)
                e = call(0, [MV(P(pref))], P(keep), b_test)
                b_some = sp.new_block([sp.assign(P(pay), sp.use(MV(some_v)), span), sp.assign(P(pref), {"k": "ref", "mut": False, "place": P(pay)}, span)], sp.goto(e), span)
                b_none = sp.new_block([sp.assign(dest, dict(NONE), span)], sp.goto(cont), span)
            elif kind == "opt_unwrap_or":
                b_some = sp.new_block([sp.assign(dest, sp.use(MV(some_v)), span)], sp.goto(cont), span)
                b_none = sp.new_block([sp.assign(dest, sp.use(default_op), span)], sp.goto(cont), span)
            elif kind == "opt_map_or":
                e = call(0, [MV(P(pay))], dest, cont)
                b_some = sp.new_block([sp.assign(P(pay), sp.use(MV(some_v)), span)], sp.goto(e), span)
                b_none = sp.new_block([sp.assign(dest, sp.use(default_op), span)], sp.goto(cont), span)
            elif kind == "opt_map_or_else":
                if len(cbs) != 2:
                    return
                e = call(1, [MV(P(pay))], dest, cont)
                b_some = sp.new_block([sp.assign(P(pay), sp.use(MV(some_v)), span)], sp.goto(e), span)
                b_none = call(0, [], dest, cont)
            elif kind == "opt_is_some_and":
                e = call(0, [MV(P(pay))], dest, cont)
                b_some = sp.new_block([sp.assign(P(pay), sp.use(MV(some_v)), span)], sp.goto(e), span)
                b_none = sp.new_block([sp.assign(dest, sp.use({"const": {"ty": "bool", "repr": "false", "scalar": 0}}), span)], sp.goto(cont), span)
            else:
                return
            if b_some is None or b_none is None:
                return
            sw = {"k": "switch", "discr": MV(P(dl)), "discr_ty": "isize", "targets": [[0, b_none], [1, b_some]], "otherwise": b_none}
        elif kind.startswith("res_"):
            tty = gen[0] if gen else "?"
            ety = gen[1] if len(gen) > 1 else "?"
            ok_v = variant_field(rl, "Ok", 0, tty)
            err_v = variant_field(rl, "Err", 1, ety)
            pay = sp.new_local(tty, None)
            epay = sp.new_local(ety, None)
            res_l = sp.new_local("?", None)
            if kind == "res_map":
                b_fin = sp.new_block([sp.assign(dest, agg(RES, "Ok", MV(P(res_l))), span)], sp.goto(cont), span)
                e = call(0, [MV(P(pay))], P(res_l), b_fin)
                b_ok = sp.new_block([sp.assign(P(pay), sp.use(MV(ok_v)), span)], sp.goto(e), span)
                b_err = sp.new_block([sp.assign(P(epay), sp.use(MV(err_v)), span), sp.assign(dest, agg(RES, "Err", MV(P(epay))), span)], sp.goto(cont), span)
            elif kind == "res_map_err":
                b_fin = sp.new_block([sp.assign(dest, agg(RES, "Err", MV(P(res_l))), span)], sp.goto(cont), span)
                e = call(0, [MV(P(epay))], P(res_l), b_fin)
                b_err = sp.new_block([sp.assign(P(epay), sp.use(MV(err_v)), span)], sp.goto(e), span)
                b_ok = sp.new_block([sp.assign(P(pay), sp.use(MV(ok_v)), span), sp.assign(dest, agg(RES, "Ok", MV(P(pay))), span)], sp.goto(cont), span)
            elif kind == "res_and_then":
                e = call(0, [MV(P(pay))], dest, cont)
                b_ok = sp.new_block([sp.assign(P(pay), sp.use(MV(ok_v)), span)], sp.goto(e), span)
                b_err = sp.new_block([sp.assign(P(epay), sp.use(MV(err_v)), span), sp.assign(dest, agg(RES, "Err", MV(P(epay))), span)], sp.goto(cont), span)
            elif kind == "res_or_else":
                e = call(0, [MV(P(epay))], dest, cont)
                b_err = sp.new_block([sp.assign(P(epay), sp.use(MV(err_v)), span)], sp.goto(e), span)
                b_ok = sp.new_block([sp.assign(P(pay), sp.use(MV(ok_v)), span), sp.assign(dest, agg(RES, "Ok", MV(P(pay))), span)], sp.goto(cont), span)
            elif kind == "res_unwrap_or_else":
                e = call(0, [MV(P(epay))], dest, cont)
                b_err = sp.new_block([sp.assign(P(epay), sp.use(MV(err_v)), span)], sp.goto(e), span)
                b_ok = sp.new_block([sp.assign(dest, sp.use(MV(ok_v)), span)], sp.goto(cont), span)
            elif kind == "res_map_or_else":
                if len(cbs) != 2:
                    return
                e0 = call(0, [MV(P(epay))], dest, cont)
                e1 = call(1, [MV(P(pay))], dest, cont)
                b_err = sp.new_block([sp.assign(P(epay), sp.use(MV(err_v)), span)], sp.goto(e0), span)
                b_ok = sp.new_block([sp.assign(P(pay), sp.use(MV(ok_v)), span)], sp.goto(e1), span)
            else:
                return
            if b_ok is None or b_err is None:
                return
            sw = {"k": "switch", "discr": MV(P(dl)), "discr_ty": "isize", "targets": [[0, b_ok], [1, b_err]], "otherwise": b_err}
        elif kind in ("it_any", "it_all", "it_for_each"):
            # loop { match iter.next() { None => break default, Some(x) => if pred(x) == stop { break !default } } }
            ity = rty
            it_ref = sp.new_local("&mut " + rty.lstrip("&mut ").strip(), None)
            nxt = sp.new_local("std::option::Option<?>", None)
            nd = sp.new_local("isize", None)
            pay = sp.new_local("?", None)
            pr = sp.new_local("bool", None)
            default = 0 if kind == "it_any" else 1
            b_none = sp.new_block([sp.assign(dest, sp.use({"const": {"ty": "bool", "repr": str(bool(default)).lower(), "scalar": default}}), span)], sp.goto(cont), span)
            b_hit = sp.new_block([sp.assign(dest, sp.use({"const": {"ty": "bool", "repr": str(bool(1 - default)).lower(), "scalar": 1 - default}}), span)], sp.goto(cont), span)
            head = sp.new_block([], {"k": "goto", "target": 0}, span)  # patched below
            if kind == "it_for_each":
                # loop { match iter.next() { None => break, Some(x) => f(x) } }
                b_none = sp.new_block([sp.assign(dest, sp.use({"const": {"ty": "()", "repr": "()", "zst": True}}), span)], sp.goto(cont), span)
                test = sp.new_block([], sp.goto(head), span)
                pr = sp.new_local("()", None)
            else:
                test = sp.new_block([], {"k": "switch", "discr": MV(P(pr)), "discr_ty": "bool", "targets": [[0, b_hit if kind == "it_all" else head]], "otherwise": b_hit if kind == "it_any" else head}, span)
            e = call(0, [MV(P(pay))], P(pr), test)
            if e is None:
                return
            b_some = sp.new_block([sp.assign(P(pay), sp.use(MV(variant_field(nxt, "Some", 1))), span)], sp.goto(e), span)
            b_sw = sp.new_block([sp.assign(P(nd), {"k": "discr", "place": P(nxt)}, span)], {"k": "switch", "discr": MV(P(nd)), "discr_ty": "isize", "targets": [[0, b_none], [1, b_some]], "otherwise": b_none}, span)
            recv_is_ref = rty.startswith("&mut")
            it_arg = CP(P(rl)) if recv_is_ref else CP(P(it_ref))
            nxt_call = {"k": "call", "callee": "std::iter::Iterator::next", "callee_true": "core::iter::Iterator::next", "callee_full": "<%s as std::iter::Iterator>::next" % rty, "gargs": [rty], "trait": "std::iter::Iterator",
                        "self_ty": rty, "resolved": "std::iter::Iterator::next", "resolved_full": "<%s as std::iter::Iterator>::next" % rty.replace("&mut ", ""), "resolved_local": False,
                        "args": [it_arg], "arg_tys": ["&mut " + rty.replace("&mut ", "")], "dest": P(nxt), "target": b_sw, "unwind": None, "fn_span": span}
            hstmts = [] if recv_is_ref else [sp.assign(P(it_ref), {"k": "ref", "mut": True, "place": P(rl)}, span)]
            j["blocks"][head]["stmts"] = hstmts
            j["blocks"][head]["term"] = nxt_call
            blk["stmts"] = blk["stmts"] + pre
            blk["term"] = sp.goto(head)
            blk["desugared"] = kind
            self.stats["combinators"] += 1
            return
        else:
            return
        blk["stmts"] = blk["stmts"] + pre + [sp.assign(P(dl), {"k": "discr", "place": P(rl)}, span)]
        blk["term"] = sw
        blk["desugared"] = kind
        self.stats["combinators"] += 1

    # -------------------------------------------------------------- `?` threading
    def thread_try(self, j):
        """Jump threading of `?` over values of known variant: when `tmp = Result::Ok/Err{..}` (or Option::Some/None)
        flows along a branch-free chain of blocks into `x = Try::branch(move tmp); switch discr(x)`, the chain is
        duplicated for that construction site and the switch replaced by the one edge that variant can take. After
        this an error built in an inlined helper (or in a desugared `ok_or_else`) and propagated by the caller's `?`
        has the same control flow as a `return Err(..)` written in the caller."""
        blocks = j["blocks"]
        n0 = len(blocks)
        sites = []
        for bi in range(n0):
            blk = blocks[bi]
            if blk.get("cleanup"):
                continue
            for si, st in enumerate(blk["stmts"]):
                if st["k"] != "assign" or st["place"]["proj"]:
                    continue
                rv = st["rv"]
                if rv["k"] == "aggregate" and rv.get("adt") in ("std::result::Result", "std::option::Option") and rv.get("variant") in ("Ok", "Err", "Some", "None"):
                    sites.append((bi, si, st["place"]["local"], rv["variant"]))
            t = blk["term"]
            # `?` inside an inlined helper: from_residual(..) always yields the failure variant
            if t["k"] == "call" and re.search(r"ops::FromResidual::from_residual$", t.get("callee", "")) and t.get("target") is not None and not t["dest"]["proj"]:
                rf = t.get("resolved_full", "")
                if rf.startswith("<std::result::Result<"):
                    sites.append((bi, None, t["dest"]["local"], "Err"))
                elif rf.startswith("<std::option::Option<"):
                    sites.append((bi, None, t["dest"]["local"], "None"))
        done = 0
        for bi, si, name, variant in sites:
            # forward simulation along single-successor blocks
            path = []
            cur = bi
            start = si + 1 if si is not None else 0
            hit = None
            hit_sw = None
            if si is None:
                cur = blocks[bi]["term"]["target"]
                path.append(cur)
            for _ in range(24):
                blk = blocks[cur]
                ok = True
                for st in blk["stmts"][start:]:
                    if st["k"] != "assign":
                        continue
                    rv = st["rv"]
                    src = rv["op"].get("move") if rv["k"] == "use" else None
                    if src is not None and src["local"] == name and not src["proj"] and not st["place"]["proj"]:
                        name = st["place"]["local"]
                        continue
                    if st["place"]["local"] == name:
                        ok = False
                        break
                if not ok:
                    break
                t = blk["term"]
                if t["k"] == "call" and re.search(r"ops::Try::branch$", t.get("callee", "")) and t.get("target") is not None:
                    a = t["args"][0].get("move")
                    if a is not None and a["local"] == name and not a["proj"]:
                        hit = (cur, t)
                    break
                if t["k"] == "switch" and cur != bi:
                    # `match opt { .. }` / `if let Some(x) = opt` on the value itself: the discriminant is known too
                    dp = t["discr"].get("move") or t["discr"].get("copy")
                    dst = [st for st in blk["stmts"] if st["k"] == "assign" and dp is not None and st["place"] == {"local": dp["local"], "proj": []} and st["rv"]["k"] == "discr"]
                    if dp is not None and not dp["proj"] and len(dst) == 1 and dst[0]["rv"]["place"]["local"] == name and not [e for e in dst[0]["rv"]["place"]["proj"] if e != "deref"]:
                        hit_sw = (cur, t)
                    break
                if t["k"] == "goto" or (t["k"] == "drop" and t["place"]["local"] != name):
                    nxt = t["target"]
                    if nxt == bi or nxt in path:
                        break
                    path.append(nxt)
                    cur = nxt
                    start = 0
                    continue
                break
            if hit is None and hit_sw is not None:
                # thread the plain switch: clone the chain up to and including the switch block
                swb, swt = hit_sw
                vidx = {"None": 0, "Some": 1, "Ok": 0, "Err": 1}[variant]
                tmap2 = {v: b_ for v, b_ in swt["targets"]}
                tgt = tmap2.get(vidx, swt.get("otherwise"))
                if tgt is None or not path or path[-1] != swb:
                    continue
                remap = {}
                for ob in path:
                    nb = copy.deepcopy(blocks[ob])
                    nb["id"] = len(blocks)
                    nb["synthetic"] = True
                    nb["threaded_from"] = ob
                    remap[ob] = nb["id"]
                    blocks.append(nb)
                for ob in path:
                    nb = blocks[remap[ob]]
                    if ob == swb:
                        nb["term"] = {"k": "goto", "target": tgt}
                        nb["threaded_variant"] = variant
                    elif nb["term"].get("target") in remap:
                        nb["term"]["target"] = remap[nb["term"]["target"]]
                t0 = blocks[bi]["term"]
                if t0.get("target") in remap:
                    t0["target"] = remap[t0["target"]]
                    done += 1
                continue
            if hit is None:
                continue
            bblk, bt = hit
            sw = blocks[bt["target"]]
            st_ = sw["term"]
            if st_["k"] != "switch" or len(sw["stmts"]) != 1 or sw["stmts"][0]["rv"].get("k") != "discr" or sw["stmts"][0]["rv"]["place"]["local"] != bt["dest"]["local"]:
                continue
            tmap = {v: b_ for v, b_ in st_["targets"]}
            want = 0 if variant in ("Ok", "Some") else 1
            if want not in tmap:
                continue
            # clone the chain (everything after the construction block up to and including the switch block)
            chain = path + ([] if path and path[-1] == bblk else []) 
            if bblk == bi:
                # the `?` is in the construction block itself: clone only the switch block
                chain_blocks = [bt["target"]]
                first_owner = None
            else:
                chain_blocks = path + [bt["target"]]
            remap = {}
            for ob in chain_blocks:
                nb = copy.deepcopy(blocks[ob])
                nb["id"] = len(blocks)
                nb["synthetic"] = True
                nb["threaded_from"] = ob
                remap[ob] = nb["id"]
                blocks.append(nb)
            fwd = None
            if variant == "Err":
                fwd = self.identity_residual(j, blocks, tmap[want], bt)
            for ob in chain_blocks:
                nb = blocks[remap[ob]]
                t = nb["term"]
                if ob == bt["target"]:
                    nb["term"] = {"k": "goto", "target": tmap[want]}
                    nb["threaded_variant"] = variant
                    if fwd is not None:
                        # the failure value is returned as it is: `D = Err((tmp as Err).0)` instead of
                        # `r = (x as Break).0; D = from_residual(r)` (identity conversion: same error type)
                        dplace, nxt, ety, span = fwd
                        el = len(j["locals"])
                        j["locals"].append({"id": el, "ty": ety})
                        src = {"local": name, "proj": [{"downcast": "Err", "vidx": 1}, {"field": "0", "idx": 0, "ty": ety}]}
                        nb["stmts"] = [
                            {"k": "assign", "place": P(el), "rv": {"k": "use", "op": MV(src)}, "span": span, "syn": True},
                            {"k": "assign", "place": dplace, "rv": {"k": "aggregate", "adt": "std::result::Result", "variant": "Err", "fields": ["0"], "ops": [MV(P(el))]}, "span": span, "threaded": True},
                        ]
                        nb["term"] = {"k": "goto", "target": nxt}
                elif t.get("target") in remap:
                    t["target"] = remap[t["target"]]
                if fwd is not None and ob == bblk and nb["term"]["k"] == "call":
                    # the Try::branch call itself is dropped on this path (its operand stays available)
                    nb["term"] = {"k": "goto", "target": nb["term"]["target"]}
            # redirect the construction block
            t0 = blocks[bi]["term"]
            if bblk == bi:
                t0["target"] = remap[bt["target"]]
            elif t0.get("target") in remap:
                t0["target"] = remap[t0["target"]]
            done += 1
        if done:
            self.stats["tries_threaded"] = self.stats.get("tries_threaded", 0) + done

    def identity_residual(self, j, blocks, brk, bt):
        """If block brk is `r = (x as Break).0; D = from_residual(move r) -> N` converting Result<_, E> into
        Result<_, E> (same E): returns (D, N, E, span)."""
        for _ in range(4):
            blk = blocks[brk]
            if blk["term"]["k"] == "goto" and not blk["stmts"]:
                brk = blk["term"]["target"]
                continue
            break
        t = blk["term"]
        if t["k"] != "call" or not re.search(r"ops::FromResidual::from_residual$", t.get("callee", "")) or t.get("target") is None:
            return None
        cur = None
        for st in blk["stmts"]:
            if st["k"] != "assign" or st["rv"]["k"] != "use" or st["place"]["proj"]:
                return None
            srcp = st["rv"]["op"].get("move") or st["rv"]["op"].get("copy")
            if srcp is None:
                return None
            if srcp["local"] == bt["dest"]["local"] and srcp["proj"] and srcp["proj"][0].get("downcast") == "Break":
                cur = st["place"]["local"]
            elif cur is not None and srcp["local"] == cur and not srcp["proj"]:
                cur = st["place"]["local"]
            else:
                return None
        a = t["args"][0].get("move")
        if a is None or cur is None or a["local"] != cur or a["proj"]:
            return None
        rf = t.get("resolved_full", "")
        m = re.match(r"^<std::result::Result<(.*)> as std::ops::FromResidual<std::result::Result<std::convert::Infallible, (.*)>>>::from_residual$", rf)
        if not m:
            return None
        parts = split_generics("X<" + m.group(1) + ">")
        if len(parts) != 2 or parts[1].strip() != m.group(2).strip():
            return None
        return (t["dest"], t["target"], parts[1].strip(), blk["tspan"])

    # reviewed one-line wrappers that a refactoring may write out at their call site: (wrapper, outer call, inner call)
    REFOLD = [("crypto::sha256_hex", r"^hex::encode$", r"^crypto::sha256$")]

    def refold(self, bodies):
        """`hex::encode(sha256(x))` written out where the reviewed tree calls `sha256_hex(x)` (the wrapper was inlined by
        hand and removed): fold the two calls back into one call of the wrapper, so that the rules anchored on the
        wrapper's call sites keep seeing them. Only when the wrapper no longer exists; the count is recorded."""
        done = {}
        have = {b["path"] for b in bodies}
        for wrapper, outer, inner in self.REFOLD:
            if wrapper in have:
                continue
            n = 0
            for jb in bodies:
                blocks = jb.get("blocks") or []
                for blk in blocks:
                    t = blk.get("term") or {}
                    if t.get("k") != "call" or not re.search(outer, t.get("callee", "")) or not t.get("args"):
                        continue
                    pl0 = op_place_local(t["args"][0])
                    l = pl0["local"] if pl0 and not pl0["proj"] else None
                    if l is None:
                        continue
                    # follow plain moves / re-borrows back to the producing call
                    src = None
                    for _ in range(6):
                        prod = [b2 for b2 in blocks if (b2.get("term") or {}).get("k") == "call" and ((b2["term"].get("dest") or {}).get("local") == l) and not (b2["term"].get("dest") or {}).get("proj")]
                        if prod:
                            src = prod[0]
                            break
                        asg = [st for b2 in blocks for st in b2.get("stmts", []) if st.get("k") == "assign" and st["place"]["local"] == l and not st["place"]["proj"]]
                        if len(asg) != 1:
                            break
                        rv = asg[0]["rv"]
                        if rv["k"] == "use":
                            pl1 = op_place_local(rv["op"])
                            l = pl1["local"] if pl1 and not pl1["proj"] else None
                        elif rv["k"] == "ref" and not rv.get("mut") and not [e for e in rv["place"]["proj"] if e != "deref"]:
                            l = rv["place"]["local"]
                        else:
                            break
                        if l is None:
                            break
                    if src is None or not re.search(inner, src["term"].get("callee", "")):
                        continue
                    t["callee"] = wrapper
                    t["resolved"] = wrapper
                    t["resolved_full"] = wrapper
                    t["args"] = list(src["term"]["args"])
                    t["refolded"] = True
                    src["term"] = {"k": "goto", "target": src["term"].get("target"), "span": src["term"].get("span")}
                    n += 1
            if n:
                done[wrapper] = n
        return done

    def run(self):
        out = []
        for b in self.fj["bodies"]:
            out.append(self.body(b["path"]))
        for jb in out:
            if not jb.get("normalise_error"):
                try:
                    self.thread_try(jb)
                except Exception as e:  # noqa
                    jb["thread_error"] = repr(e)
        # absorbed bodies
        pin = pinned_functions() or set()
        for j in out:
            p = j["path"]
            if j["kind"] == "Closure" and not j.get("coroutine_kind"):
                u = self.closure_uses.get(p, [0, 0])
                if u[0] > 0 and u[1] == 0:
                    j["absorbed"] = True
            elif p in self.fn_inlined and p not in pin:
                vis = j.get("vis", "")
                if "Public" not in vis:
                    j["absorbed"] = True
        self.fj["refolded"] = self.refold(out)
        self.fj["bodies"] = out
        self.fj["normalisation"] = self.stats
        self.fj["moved"] = self.moved
        return self.fj
