"""K10: linear forms over symbolic lengths / const generics and a syntactic entailment check (no solver).

A linear form is {symbol: coefficient, 1: constant}. Symbols: 'len(<key>)' for str/slice/Vec lengths (key = root place),
'M' style names for const generic parameters, 'field:<name>' for integer fields read from self, 'L<n>' for opaque locals.
Inequalities are stored as forms f meaning f <= 0. `entails(facts, goal)` succeeds when goal == fact - c (c >= 0) for one
fact, or goal is a non-positive constant, or goal is the sum of two facts minus c. Anything it cannot show is 'undischarged'."""
import re

from engine import op_place, op_const, const_value, place_fields, fmt_place


def lf_const(c):
    return {1: c}


def lf_add(a, b, k=1):
    r = dict(a)
    for s, c in b.items():
        r[s] = r.get(s, 0) + k * c
    return {s: c for s, c in r.items() if c != 0 or s == 1}


def lf_norm(a):
    r = {s: c for s, c in a.items() if c != 0}
    return tuple(sorted(((str(s), c) for s, c in r.items())))


def lf_str(a):
    parts = []
    for s, c in sorted(a.items(), key=lambda x: str(x[0])):
        if c == 0:
            continue
        parts.append("%s" % c if s == 1 else ("%s" % s if c == 1 else "%d*%s" % (c, s)))
    return " + ".join(parts) or "0"


class Lin:
    def __init__(self, body):
        self.b = body

    def root_key(self, o, depth=10):
        """Stable name for the object whose length is taken."""
        od = self.b.origin_def(o)
        if od is None:
            return "?"
        if od[0] == "param":
            return "p%d" % od[1]
        if od[0] == "place":
            return fmt_place(od[1])
        if od[0] == "multi":
            return "_%d" % od[1]
        if od[0] == "const":
            return "const"
        if od[0] == "def":
            d = od[1]
            if d["kind"] == "call":
                t = d["term"]
                c = t["callee"]
                # as_bytes / deref / as_ref / as_str / as_slice keep the length
                if re.search(r"(::as_bytes|Deref::deref|AsRef::as_ref|::as_str|::as_slice|::as_mut_slice|DerefMut::deref_mut|Borrow::borrow)$", c) and depth > 0:
                    return self.root_key(t["args"][0], depth - 1)
                return "call@bb%d" % d["block"]
            if d["kind"] == "assign":
                return "_%d" % d["stmt"]["place"]["local"]
        return "?"

    def form(self, o, depth=24):
        """Linear form of an integer operand, or None."""
        if depth <= 0:
            return None
        c = op_const(o)
        if c is not None:
            v = const_value(c)
            if isinstance(v, int):
                return lf_const(v)
            r = c.get("repr", "")
            m = re.match(r"^([A-Z][A-Za-z0-9_]*)(/#\d+)?$", r)
            if m:
                return {m.group(1): 1, 1: 0}
            if c.get("def"):
                return {"const:" + c["def"]: 1, 1: 0}
            return None
        p = op_place(o)
        if p is None:
            return None
        fs = place_fields(p)
        l = p["local"]
        if fs and fs[-1] in ("0",) and "WithOverflow" in self._tuple_kind(l):
            # (x op y).0
            d = self.b.single_def(l)
            rv = d["stmt"]["rv"]
            a, b2 = self.form(rv["l"], depth - 1), self.form(rv["r"], depth - 1)
            if a is None or b2 is None:
                return None
            if rv["op"].startswith("Add"):
                return lf_add(a, b2)
            if rv["op"].startswith("Sub"):
                return lf_add(a, b2, -1)
            if rv["op"].startswith("Mul"):
                if set(a) <= {1}:
                    return {s: c * a.get(1, 0) for s, c in b2.items()}
                if set(b2) <= {1}:
                    return {s: c * b2.get(1, 0) for s, c in a.items()}
            return None
        if fs and not [e for e in p["proj"] if e != "deref" and not (isinstance(e, dict) and "field" in e)]:
            od = self.b.origin_def({"copy": {"local": l, "proj": []}})
            base = "self" if (od and od[0] == "param" and od[1] == 1) else "_%d" % l
            return {"field:%s.%s" % (base, ".".join(fs)): 1, 1: 0}
        nd = [e for e in p["proj"] if e != "deref"]
        if len(nd) == 2 and isinstance(nd[0], dict) and "downcast" in nd[0] and isinstance(nd[1], dict) and "field" in nd[1] and nd[0]["downcast"] in ("Some", "Continue", "Ok"):
            # payload of an Option / ControlFlow / Result local: one symbol per holder
            return {"pay:_%d.%s" % (l, nd[1]["field"]): 1, 1: 0}
        if p["proj"]:
            # `(*r)` where r is (a copy of) `&x` / a tuple field holding `&x`
            if all(e == "deref" or (isinstance(e, dict) and "field" in e) for e in p["proj"]) and depth > 2:
                od = self.b.origin_def(o)
                if od and od[0] == "def" and od[1]["kind"] == "call":
                    return self.form({"copy": {"local": od[1]["term"]["dest"]["local"], "proj": []}}, depth - 2)
                if od and od[0] == "const":
                    v = const_value(od[1])
                    return lf_const(v) if isinstance(v, int) else None
                if od and od[0] in ("multi", "param"):
                    return {"L%d" % od[1]: 1, 1: 0}
                if od and od[0] == "place" and p["proj"] == ["deref"]:
                    # `*r` with `r = &(opt as Some).0` (the by-reference binding a match guard sees): the place itself
                    sd = self.b.single_def(l)
                    if sd and sd["kind"] == "assign" and sd["stmt"]["rv"]["k"] == "ref" and not sd["stmt"]["rv"].get("mut"):
                        return self.form({"copy": od[1]}, depth - 2)
            return None
        ds = [d for d in self.b.defs().get(l, []) if d["kind"] != "mutcall"]
        if len(ds) != 1:
            return {"L%d" % l: 1, 1: 0}
        d = ds[0]
        if d["kind"] == "call":
            t = d["term"]
            if re.search(r"(str>::len|slice::<impl \[T\]>::len|Vec::<T, A>::len|String::len)$", t["callee"]):
                return {"len(%s)" % self.root_key(t["args"][0]): 1, 1: 0}
            return {"L%d" % l: 1, 1: 0}
        if d["kind"] != "assign":
            return {"L%d" % l: 1, 1: 0}
        rv = d["stmt"]["rv"]
        if rv["k"] == "use":
            return self.form(rv["op"], depth - 1)
        if rv["k"] == "cast" and "IntToInt" in rv["kind"]:
            return self.form(rv["op"], depth - 1)
        if rv["k"] == "unop" and rv["op"] == "PtrMetadata":
            return {"len(%s)" % self.root_key(rv["x"]): 1, 1: 0}
        if rv["k"] == "binop" and rv["op"] in ("Add", "Sub", "AddUnchecked", "SubUnchecked"):
            a, b2 = self.form(rv["l"], depth - 1), self.form(rv["r"], depth - 1)
            if a is None or b2 is None:
                return None
            return lf_add(a, b2, 1 if rv["op"].startswith("Add") else -1)
        return {"L%d" % l: 1, 1: 0}

    def _tuple_kind(self, l):
        d = self.b.single_def(l)
        if d and d["kind"] == "assign" and d["stmt"]["rv"]["k"] == "binop":
            return d["stmt"]["rv"]["op"]
        return ""

    # ------------------------------------------------------------------ path facts
    def facts_at(self, blk):
        """Inequalities (forms f with f <= 0) that hold whenever `blk` executes, from its guards."""
        out = []
        for (a, s) in self.b.guards(blk):
            c = self.b.cond_of_switch(a)
            if not c:
                continue
            truth = self.b.truth_of_edge(a, s)
            if truth is None:
                continue
            if c.get("neg"):
                truth = not truth
            if c["kind"] == "binop":
                l, r = self.form(c["l"]), self.form(c["r"])
                if l is None or r is None:
                    continue
                out += ineq(c["op"], l, r, truth)
            elif c["kind"] == "call" and re.search(r"(is_empty)$", c["callee"]):
                k = {"len(%s)" % self.root_key(c["term"]["args"][0]): 1, 1: 0}
                if truth:
                    out += [k]  # len <= 0
                else:
                    out += [lf_add(lf_const(1), k, -1)]  # 1 - len <= 0
        # assertion targets dominating blk also give facts (bounds checks that passed)
        return out + self.checked_facts()

    def checked_facts(self):
        """`a.checked_sub(k)` is Some(d) only with d == a - k (so a >= k): facts about the payload symbol of the call's
        result (the symbol is only ever read under the Some pattern)."""
        if hasattr(self, "_cf"):
            return self._cf
        out = []
        for bi, t in self.b.calls(r"num::<impl (usize|u64|u32|u16|u8)>::checked_(sub|add)$"):
            a_, k_ = self.form(t["args"][0]), self.form(t["args"][1])
            if a_ is None or k_ is None:
                continue
            val = lf_add(a_, k_, -1 if t["callee"].endswith("checked_sub") else 1)
            pay = {"pay:_%d.0" % t["dest"]["local"]: 1, 1: 0}
            out += [lf_add(pay, val, -1), lf_add(val, pay, -1), {"pay:_%d.0" % t["dest"]["local"]: -1, 1: 0}]
        self._cf = out
        return out


def ineq(op, l, r, truth):
    """Forms f (f <= 0) implied by `l op r` being `truth` over the integers."""
    d = lf_add(l, r, -1)  # l - r
    e = lf_add(r, l, -1)  # r - l
    one = lf_const(1)
    if not truth:
        op = {"Lt": "Ge", "Ge": "Lt", "Gt": "Le", "Le": "Gt", "Eq": "Ne", "Ne": "Eq"}[op]
    if op == "Lt":
        return [lf_add(d, one)]  # l - r + 1 <= 0
    if op == "Le":
        return [d]
    if op == "Gt":
        return [lf_add(e, one)]
    if op == "Ge":
        return [e]
    if op == "Eq":
        return [d, e]
    return []


def entails(facts, goal):
    """goal (form <= 0) follows syntactically from facts (+ non-negativity of len() symbols)."""
    g = {s: c for s, c in goal.items() if c != 0}
    if set(g) <= {1}:
        return g.get(1, 0) <= 0
    cands = list(facts)
    # lengths are non-negative: -len(x) <= 0
    for s in list(g):
        if isinstance(s, str) and s.startswith("len("):
            cands.append({s: -1, 1: 0})
    def weaker(f):
        diff = lf_add(f, goal, -1)  # f - goal must be a constant >= 0
        diff = {s: c for s, c in diff.items() if c != 0}
        return set(diff) <= {1} and diff.get(1, 0) >= 0
    for f in cands:
        if weaker(f):
            return True
    for i in range(len(cands)):
        for j in range(i, len(cands)):
            if weaker(lf_add(cands[i], cands[j])):
                return True
    return False
