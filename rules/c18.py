"""C18 Validation is deterministic and reentrant."""
import os
import shutil
import subprocess

from lib import *
from registry import Module
import c10
import factbase

M = Module(
    "C18",
    "Deterministic and reentrant",
    "R1: item inventory from HIR/type facts - the crate's statics are exactly the reviewed lazy_static cells (immutable after Once "
    "initialisation, initialisers are pure functions of literals), no `static mut`, no thread_local, no interior-mutability type (Cell, RefCell, "
    "Mutex, RwLock, Atomic*, Once*, UnsafeCell) in any field of any crate type, no hand-written unsafe block. R2: crate-wide forbidden-callee "
    "rule for ambient inputs (clocks, environment, randomness, files, network, processes, threads). R3: hash-iteration order never reaches an "
    "outcome (the reviewed iteration inventory and sortedness rule of C10-R1). R4: an auto-trait witness crate type-checks: the value types are "
    "Send + Sync and the future returned by sigv4_validate_request is Send for Send inputs. With no mutable global or ambient state the "
    "validation is a function of its arguments, whatever the interleaving.",
    ["regex::Regex, chrono and encoding are pure (documented)", "lazy_static initialisation is race-free (Once)", "the caller's key provider is outside the library"],
)

STATIC_TABLE = {
    "chronoutil::ISO_8601_REGEX": "lazy regex (literal pattern)",
    "chronoutil::INVALID": "lazy chrono::ParseError obtained by parsing the empty string",
    "canonical::MULTISLASH": "lazy regex `//+`",
    "canonical::MULTISPACE": "lazy regex (unused, O3)",
    "canonical::AWS4_HMAC_SHA256_RE": "lazy regex (unused, O3)",
}
INTERIOR = r"\b(Cell|RefCell|UnsafeCell|OnceCell|OnceLock|LazyCell|LazyLock|Mutex|RwLock|Condvar|Atomic\w+|LocalKey|mpsc::\w+|Arc<(std::sync::)?(Mutex|RwLock))\b"
AMBIENT = (
    r"^std::time::(SystemTime|Instant)::(now|elapsed)$", r"^chrono::(Utc|Local)::(now|today)$", r"^chrono::offset::(Utc|Local)::(now|today)$", r"^std::env::\w+$", r"^rand(_core)?::", r"^getrandom::",
    r"^std::fs::", r"^std::net::", r"^std::process::", r"^std::thread::", r"^std::io::(stdin|stdout|stderr)", r"^std::collections::hash_map::RandomState::new$", r"^std::hash::RandomState::new$",
    r"^std::sync::(Mutex|RwLock|Once|OnceLock|atomic)", r"^tokio::", r"^std::os::", r"^std::ptr::(read|write)_volatile$",
)


@M.rule("C18-R1", "global-state inventory: only reviewed immutable lazy statics; no interior mutability; no unsafe")
def r1(ctx):
    f = ctx.facts
    ctx.count(len(f.statics) + len(f.adts))
    bad = False
    tops = []
    for s in f.statics:
        p = s["path"]
        if s["mutable"]:
            bad = True
            yield VIOL("C18-R1", "static-mut/" + p, "`static mut %s`" % p, where=loc(s["span"]))
            continue
        m = re.match(r"^<(.*) as std::ops::Deref>::deref::__stability::LAZY$", p)
        owner = m.group(1) if m else p
        if owner not in STATIC_TABLE:
            bad = True
            yield VIOL("C18-R1", "unreviewed-static/" + p, "static `%s: %s` is not in the reviewed inventory of global state" % (p, s["ty"][:80]), where=loc(s["span"]))
            continue
        if m:
            if not re.match(r"^lazy_static::lazy::Lazy<(regex::Regex|chrono::ParseError|chrono::format::ParseError)>$", s["ty"]):
                bad = True
                yield VIOL("C18-R1", "static-type/" + owner, "lazy static `%s` now holds `%s`" % (owner, s["ty"]), where=loc(s["span"]))
        else:
            tops.append(owner)
            if re.match(r"^std::sync::LazyLock<(regex::Regex|chrono::ParseError|chrono::format::ParseError)>$", s["ty"]):
                continue  # std's equivalent of lazy_static for the same immutable values (initialised once, read-only after)
            if re.search(INTERIOR, s["ty"]):
                bad = True
                yield VIOL("C18-R1", "static-interior/" + p, "static `%s` has interior-mutable type %s" % (p, s["ty"]), where=loc(s["span"]))
    # thread-locals show up as consts/statics of LocalKey type or __getit fns
    for c in f.j["consts"]:
        if "LocalKey" in c["ty"]:
            bad = True
            yield VIOL("C18-R1", "thread-local/" + c["path"], "thread_local! `%s`: per-thread state survives between validations" % c["path"], where=None)
    for s in f.statics:
        if "LocalKey" in s["ty"] or "thread_local" in s["path"]:
            bad = True
            yield VIOL("C18-R1", "thread-local/" + s["path"], "thread-local static `%s`" % s["path"], where=loc(s["span"]))
    # initialisers are pure functions of literals
    for owner in tops:
        inits = f.find_bodies("^<" + re.escape(owner) + r" as std::ops::Deref>::deref::__static_ref_initialize$")
        for ib in inits:
            ctx.functions.add(ib.path)
            for bi, t in ib.calls():
                if any(re.search(a, t["callee"]) for a in AMBIENT) or t.get("resolved_local") and not t["callee"].startswith("<"):
                    bad = True
                    yield VIOL("C18-R1", "static-init/" + owner + ":" + t["callee"].split("::")[-1], "initialiser of %s calls `%s`" % (owner, t["callee"]), where=ib.span_of_block(bi))
            if ib.slice([0]).params:
                bad = True
    # interior mutability in any crate type
    for path, a in f.adts.items():
        for v in a["variants"]:
            for fl in v["fields"]:
                if re.search(INTERIOR, fl["ty"]) and not path.endswith("__stability::LAZY"):
                    bad = True
                    yield VIOL("C18-R1", "interior-mutability/%s.%s" % (path, fl["name"]), "field `%s.%s: %s` is interior-mutable: state can change behind &self across validations" % (path, fl["name"], fl["ty"][:80]), where=loc(a["span"]))
    ub = [u for u in f.j["unsafe_blocks"] if not u["from_expansion"]]
    for u in ub:
        bad = True
        yield VIOL("C18-R1", "unsafe-block/" + loc(u["span"]).split(":")[0], "hand-written unsafe block", where=loc(u["span"]))
    if len(tops) < 3:
        yield MISSING("C18-R1", "statics/floor", "only %d of the reviewed lazy statics found" % len(tops))
    elif not bad:
        yield PASS("C18-R1", "global-state", "%d statics = %d reviewed lazy_static cells (immutable, literal initialisers); no static mut / thread_local / interior-mutable field in %d types; 0 hand-written unsafe blocks (%d in macro expansions)" % (len(f.statics), len(tops), len(f.adts), len(f.j["unsafe_blocks"])), sorted(tops))


@M.rule("C18-R2", "no ambient inputs: clocks, environment, randomness, I/O, threads")
def r2(ctx):
    n = 0
    hits = []
    for b in ctx.facts.all_bodies():
        for bi, t in b.calls():
            n += 1
            c = t.get("callee", "")
            r = t.get("resolved", "") or ""
            if any(re.search(a, c) or re.search(a, r) for a in AMBIENT):
                hits.append((b, bi, t))
    ctx.count(n)
    for b, bi, t in hits:
        yield VIOL("C18-R2", "ambient/%s:%s" % (b.path, t["callee"]), "`%s` reads ambient state: the outcome is no longer a function of the arguments" % t["callee"], where=b.span_of_block(bi))
    if not hits:
        if n < 1200:
            yield MISSING("C18-R2", "callsites/floor", "only %d call sites scanned (1294 counted on the reviewed tree; floor 1200)" % n)
        else:
            yield PASS("C18-R2", "no-ambient-inputs", "%d resolved call sites in the crate: none to a clock, environment, RNG, file/network/process/thread API" % n, [])
    # HashMap::new's RandomState is the only randomness: neutralised by R3
    ctx.extra["call_sites_scanned"] = n


@M.rule("C18-R3", "hash-iteration order never reaches an outcome")
def r3(ctx):
    for r in c10.r1(ctx):
        r.rule = "C18-R3"
        yield r


@M.rule("C18-R4", "reentrancy by type: auto-trait witness crate type-checks")
def r4(ctx):
    src = os.path.join(factbase.VERIF, "witness")
    h = factbase.source_hash(ctx.repo)
    # one scratch directory per run: two runs on identical sources (same hash) must not share - and delete - it
    import tempfile
    os.makedirs(factbase.CACHE, exist_ok=True)
    wd = tempfile.mkdtemp(prefix="witness-%s-" % h, dir=factbase.CACHE)
    os.makedirs(os.path.join(wd, "src"))
    os.makedirs(os.path.join(wd, ".cargo"))
    shutil.copy(os.path.join(src, "src", "lib.rs"), os.path.join(wd, "src", "lib.rs"))
    shutil.copy(os.path.join(src, ".cargo", "config.toml"), os.path.join(wd, ".cargo", "config.toml"))
    toml = open(os.path.join(src, "Cargo.toml")).read().replace('path = "/repo"', 'path = "%s"' % ctx.repo)
    open(os.path.join(wd, "Cargo.toml"), "w").write(toml)
    shutil.copy(os.path.join(ctx.repo, "Cargo.lock"), os.path.join(wd, "Cargo.lock"))
    env = factbase.base_env()
    # Target directory: private to this run and deleted with it (a shared one grew by one set of artifacts - and one
    # incremental cache - per analysed variant, 90 GB after a few thousand runs). The dependencies' artifacts are reused
    # through a copy of a base directory that the first run on a tree leaves behind.
    base = os.path.join(factbase.CACHE, "target-witness-base")
    tgt = os.path.join(wd, "target")
    if os.path.isdir(base):
        subprocess.run(["cp", "-a", base, tgt], stdout=subprocess.DEVNULL, stderr=subprocess.DEVNULL)  # a real copy (140 MB): nothing a run writes can reach the base
    env["CARGO_TARGET_DIR"] = tgt
    env["CARGO_INCREMENTAL"] = "0"
    env["RUSTFLAGS"] = "-Awarnings"
    r = subprocess.run("cargo +nightly check --offline --message-format short", shell=True, cwd=wd, env=env, stdout=subprocess.PIPE, stderr=subprocess.STDOUT, text=True)
    if r.returncode == 0 and not os.path.isdir(base):
        try:
            os.rename(tgt, base + ".tmp.%d" % os.getpid())
            os.rename(base + ".tmp.%d" % os.getpid(), base)
        except OSError:
            shutil.rmtree(base + ".tmp.%d" % os.getpid(), ignore_errors=True)
    shutil.rmtree(wd, ignore_errors=True)
    ctx.count(16)
    if r.returncode != 0:
        errs = [l for l in r.stdout.splitlines() if "error" in l][:6]
        yield VIOL("C18-R4", "witness/does-not-typecheck", "the auto-trait witness no longer type-checks (a value type lost Send/Sync, or the entry point's future is not Send): %s" % " | ".join(errs)[:600], where="/verif/witness/src/lib.rs")
    else:
        yield PASS("C18-R4", "witness/typechecks", "14 value types are Send + Sync; the future of sigv4_validate_request is Send (two instantiations)", ["/verif/witness/src/lib.rs"])
