"""C10 Canonical query depends only on the multiset of parameters, spec-sorted (structural clauses)."""
from lib import *
from registry import Module

M = Module(
    "C10",
    "Canonical query string",
    "Order-taint and shape rules: every iteration over a HashMap in the crate is in a reviewed inventory; in canonicalize_query_to_string the "
    "collected vector is sorted (natural order, no comparator) after the last push and before it is rendered, and the sorted elements keep "
    "name and value apart (tuple (name, value)) - a single rendered `name=value` string under the natural order is the violation, because '=' "
    "sorts above '-', '.', digits and '%'; the only filter on the push is name != \"X-Amz-Signature\"; in query_string_to_normalized_map the "
    "only skipped segments are empty ones, every other segment reaches exactly one push (existing name) or insert of a fresh one-element list "
    "guarded by a failed lookup of the same name, names come from before and values from after the first '='. Decides structure; that the "
    "output is a function of the decoded multiset is a round-trip fact over strings and is not decided.",
    ["slice::sort/sort_unstable on tuples of &str is lexicographic by byte (std)", "normalize_uri_element is injective on decoded strings (C09, not decided)"],
)

CQS = "canonical::canonicalize_query_to_string"
QSM = "canonical::query_string_to_normalized_map"
MAP_ITER = r"HashMap::<K, V, S, A>::(iter|iter_mut|keys|values|values_mut|into_keys|into_values|drain|retain|extract_if)$"

# reviewed inventory of HashMap iteration sites: function -> (disposition, reason)
ITER_TABLE = {
    # function: (disposition, allowed {callee: count}, reason)
    CQS: ("sorted", {"iter": 1}, "collects (name, value) pairs and sorts them before rendering (C10-R1/R2)"),
    "canonical::debug_headers": ("debug-only", {"iter": 1}, "feeds only the Debug rendering of CanonicalRequest / trace output"),
    "canonical::CanonicalRequest::get_auth_parameters": ("message-only", {"keys": 1}, "prefix loop: order selects only which unsigned header the error message names; the kind is SignatureDoesNotMatch on every order (observation O1)"),
    "canonical::CanonicalRequest::from_request_parts": ("map-sink", {"into_iter": 1}, "the BODY map is consumed into the URL map per key (entry(key).or_default().extend): distinct keys, order-insensitive"),
}


def map_iteration_sites(facts):
    out = []
    for b in facts.all_bodies():
        if facts.new_and_unreachable(b):
            continue  # new code that validation never executes: its iteration order reaches no validation outcome
        for bi, t in b.calls():
            c = t.get("callee", "")
            r = t.get("resolved_full", "")
            hit = False
            if re.search(MAP_ITER, c):
                hit = True
            elif re.search(r"IntoIterator::into_iter$", c) and re.search(r"^<&?(mut )?std::collections::(HashMap|HashSet)<", r):
                hit = True
            elif re.search(r"Extend::extend$", c) and re.search(r"^<std::collections::HashMap<", r):
                hit = True
            elif re.search(r"HashSet::<T, S, A>::(iter|drain|into_iter)$", c):
                hit = True
            if hit:
                out.append((b, bi, t))
    return out



PUSH = r"Vec::<T, A>::push$"


EXTEND = r"iter::Extend::extend$"
SET_INSERT = r"collections::(BTreeSet|HashSet)::<[^>]*>::(insert|replace)$|collections::(BTreeMap|HashMap)::<[^>]*>::(insert|entry)$"


def set_accumulator(b):
    """A set / map filled inside the loop over the query map (`BTreeSet<(name, value)>`, extended or inserted into):
    returns (block, collection type) or None. A set is ordered like the sorted vector but keeps only one of several
    identical name=value pairs - the canonical query is a function of the *multiset*."""
    for bi, t in b.calls(EXTEND):
        rf = t.get("resolved_full", "")
        m = re.match(r"<(std::collections::(?:BTreeSet|HashSet|BTreeMap|HashMap))<", rf)
        if m and b.in_cycle(bi):
            return bi, m.group(1)
    for bi, t in b.calls(SET_INSERT):
        if b.in_cycle(bi):
            return bi, re.search(r"collections::(\w+)", t["callee"]).group(0)
    return None


def acc_info(b):
    """The vector of (name, value) pairs of canonicalize_query_to_string, in one of three sibling idioms:
    form 'loop': a Vec pushed inside the loop over the map; form 'extend': a Vec extended inside the loop over the
    map with `values.iter().map(|value| (name, value))`; form 'collect': an iterator pipeline over the map
    (filter / flat_map(values.iter().map(..))) collected into a Vec."""
    accs = {}
    for bi, t in b.calls(PUSH):
        if b.in_cycle(bi):
            for pl in b.pointees()[op_local(t["args"][0])]:
                accs.setdefault(pl, []).append((bi, t))
    exts = {}
    for bi, t in b.calls(EXTEND):
        if b.in_cycle(bi) and t.get("resolved_full", "").startswith("<std::vec::Vec<"):
            for pl in b.pointees()[op_local(t["args"][0])]:
                exts.setdefault(pl, []).append((bi, t))
    if len(accs) == 1 and not exts:
        acc, pushes = list(accs.items())[0]
        return {"form": "loop", "acc": acc, "pushes": pushes}
    if len(exts) == 1 and not accs:
        acc, es = list(exts.items())[0]
        if len(es) == 1:
            bi, t = es[0]
            src, stages = pipeline_of(b, t["args"][1])
            stages = [x for x in stages if x[0] != "into_iter"]
            return {"form": "extend", "acc": acc, "pushes": es, "src": src, "stages": stages}
    if not accs and not exts:
        cols = []
        for bi, t in b.calls(r"Iterator::collect$"):
            src, stages = pipeline_of(b, t["args"][0])
            if src and src[0] == "def" and src[1]["kind"] == "call" and re.search(MAP_ITER, src[1]["term"]["callee"]):
                cols.append((bi, t, src, stages))
        if len(cols) == 1:
            bi, t, src, stages = cols[0]
            return {"form": "collect", "acc": t["dest"]["local"], "collect": (bi, t), "src": src, "stages": [x for x in stages if x[0] != "into_iter"]}
    raise AnchorMissing("single accumulator vector in canonicalize_query_to_string (found %d)" % (len(accs) + len(exts)))


def extend_shape(b, info):
    """Shape of the extend-form: `pairs.extend(values.iter().map(|value| (name, value)))`. Returns (problems, element operand):
    the operand is the mapped closure's result in the parent's locals (the closure was spliced by the normaliser)."""
    src, stages = info["src"], info["stages"]
    if not (src and src[0] == "def" and src[1]["kind"] == "call" and re.search(r"slice::<impl \[T\]>::iter$|Vec::<T, A>::iter$", src[1]["term"]["callee"])):
        return ["the extended iterator does not start at the value list's .iter()"], None
    names = [x[0] for x in stages]
    if names != ["map"]:
        return ["extended pipeline %s: expected exactly values.iter().map(closure) (a filter / take / skip / dedup stage would drop values)" % names], None
    t = stages[0][2]
    if "summary_operand" not in t:
        return ["the mapped closure could not be spliced (not a closure literal)"], None
    return [], t["args"][t["summary_operand"]]


def collect_shape(b, info):
    """Shape of the collect-form pipeline: returns (problems, facts). Recognised: map.iter() [.filter(F)] .flat_map(G) [.filter(F)]
    .collect() with G = |(name, values)| values.iter().map(H), H = |value| (.., ..)."""
    probs = []
    out = {"filters": [], "tuple": None}
    names = [x[0] for x in info["stages"]]
    if sorted(n for n in names if n != "filter") != ["flat_map"]:
        return ["pipeline stages %s: idiom not recognised (expected filter / flat_map)" % names], out
    seen_fm = False
    for n, blk, t, clo in info["stages"]:
        if clo is None:
            return ["stage `%s` takes something other than a closure literal" % n], out
        if n == "filter":
            out["filters"].append((blk, clo[0], "pair" if seen_fm else "entry"))
        else:
            seen_fm = True
            G = clo[0]
            src, st2 = pipeline_of(G, {"move": {"local": 0, "proj": []}})
            st2 = [x for x in st2 if x[0] != "into_iter"]
            if not (src and src[0] == "def" and src[1]["kind"] == "call" and re.search(r"slice::<impl \[T\]>::iter$", src[1]["term"]["callee"])):
                return ["flat_map closure does not iterate the value list with .iter()"], out
            if {fs[:1] for l, fs in G.slice_op(src[1]["term"]["args"][0]).fieldreads if l == 2} != {("1",)}:
                return ["flat_map closure iterates something other than the entry's value list"], out
            if [x[0] for x in st2] != ["map"] or st2[0][3] is None:
                return ["inner pipeline %s: expected exactly values.iter().map(closure) (an inner filter/take would drop values)" % [x[0] for x in st2]], out
            H, hst = st2[0][3]
            caps = [G.origin_def(o) for o in hst["rv"]["ops"]]
            name_caps = {i for i, od in enumerate(caps) if od and od[0] == "place" and od[1]["local"] == 2 and [e for e in od[1]["proj"] if e != "deref"][:1] and [e for e in od[1]["proj"] if e != "deref"][0].get("idx") == 0}
            od = H.origin_def({"move": {"local": 0, "proj": []}})
            if not (od and od[0] == "def" and od[1]["kind"] == "assign" and od[1]["stmt"]["rv"].get("tuple")):
                out["tuple"] = (H, None, name_caps)
            else:
                out["tuple"] = (H, od[1]["stmt"], name_caps)
    return probs, out


def render_loop_problems(b, acc):
    """Sibling rendering idiom `for (i, (name, value)) in pairs.into_iter().enumerate() { if i > 0 { out.push('&') } out.push_str(name);
    out.push('='); out.push_str(value) }`: returns the list of deviations."""
    pr = []
    amp = [(bi, t) for bi, t in b.calls(r"^std::string::String::push$") if const_value(op_const(t["args"][1]) or {}) == ord("&")]
    eq = [(bi, t) for bi, t in b.calls(r"^std::string::String::push$") if const_value(op_const(t["args"][1]) or {}) == ord("=")]
    ps = b.calls(r"^std::string::String::push_str$")
    nx = [x for x in b.calls(r"Iterator::next$") if "Enumerate<std::vec::IntoIter<" in x[1].get("resolved_full", "")]
    if len(amp) != 1 or len(eq) != 1 or len(ps) != 2 or len(nx) != 1:
        return ["rendering loop not recognised: %d '&' pushes, %d '=' pushes, %d push_str, %d enumerate().next()" % (len(amp), len(eq), len(ps), len(nx))]
    if acc not in b.slice_op(nx[0][1]["args"][0]).locals:
        pr.append("the rendering loop does not run over the sorted vector")
    st = b.term(nx[0][1]["target"])
    some = [bb for v, bb in st["targets"] if v == 1] if st["k"] == "switch" else []
    if not some:
        return ["rendering loop's Some edge not found"]
    nl = nx[0][1]["dest"]["local"]

    def part(o):
        od = b.origin_def(o)
        if od and od[0] == "place" and od[1]["local"] == nl:
            return tuple(str(e.get("idx")) for e in od[1]["proj"] if isinstance(e, dict) and "field" in e)
        if od and od[0] == "def" and od[1]["kind"] == "assign" and od[1]["stmt"]["rv"]["k"] == "use":
            p_ = op_place(od[1]["stmt"]["rv"]["op"])
            if p_ and p_["local"] == nl:
                return tuple(str(e.get("idx")) for e in p_["proj"] if isinstance(e, dict) and "field" in e)
        return None
    # '&' exactly when index > 0
    gc = [(a, c, tr) for a, s_, c, tr in guard_conditions(b, amp[0][0]) if c["kind"] != "discr"]
    okamp = False
    if len(gc) == 1 and gc[0][1]["kind"] == "binop":
        c, tr = gc[0][1], gc[0][2]
        lhs, rhs = part(c["l"]), op_const(c["r"])
        if lhs == ("0", "0") and rhs is not None and const_value(rhs) == 0 and ((c["op"] in ("Gt", "Ne") and tr is True) or (c["op"] in ("Eq", "Le") and tr is False)):
            okamp = True
    if not okamp:
        pr.append("the '&' separator is not pushed exactly when the pair's index is > 0")
    # name '=' value unconditionally, in this order
    seq = [ps[0][0], eq[0][0], ps[1][0]] if b.dominates(ps[0][0], ps[1][0]) else [ps[1][0], eq[0][0], ps[0][0]]
    first, second = (ps[0], ps[1]) if b.dominates(ps[0][0], ps[1][0]) else (ps[1], ps[0])
    if not (b.dominates(seq[0], seq[1]) and b.dominates(seq[1], seq[2]) and all(b.postdominates(x, some[0]) for x in seq)):
        pr.append("name, '=', value are not appended unconditionally in this order for every pair")
    if b.reachable(seq[0], amp[0][0]) and not b.reachable(amp[0][0], seq[0]):
        pr.append("'&' is appended after the pair, not before it")
    if part(first[1]["args"][1]) != ("0", "1", "0") or part(second[1]["args"][1]) != ("0", "1", "1"):
        pr.append("the appended strings are not the pair's (name, value) in that order")
    return pr


@M.rule("C10-R1", "no hash-order leak: every HashMap iteration is reviewed; the canonical query is sorted before it is rendered")
def r1(ctx):
    sites = map_iteration_sites(ctx.facts)
    ctx.count(len(sites))
    seen = set()
    counts = {}
    for b, bi, t in sites:
        base = re.sub(r"::\{closure#\d+\}$", "", b.path)
        nm = t["callee"].split("::")[-1]
        if base in ITER_TABLE and nm not in ITER_TABLE[base][1] and nm in ("iter", "into_iter") and len(ITER_TABLE[base][1]) == 1 and list(ITER_TABLE[base][1])[0] in ("iter", "into_iter"):
            nm = list(ITER_TABLE[base][1])[0]  # `for x in &map` and `for x in map.iter()` are the same iteration
        if base not in ITER_TABLE or nm not in ITER_TABLE[base][1]:
            yield VIOL("C10-R1", "unreviewed-map-iteration/" + b.path + ":" + nm, "iteration over a hash map (`%s`) at a site not in the reviewed inventory: its order depends on the per-process hash seed" % t["callee"], where=b.span_of_block(bi))
        else:
            seen.add(base)
            counts[(base, nm)] = counts.get((base, nm), 0) + 1
            if counts[(base, nm)] > ITER_TABLE[base][1][nm]:
                yield VIOL("C10-R1", "unreviewed-map-iteration/" + b.path + ":" + nm + "#%d" % counts[(base, nm)], "an additional hash-map iteration (`%s`) in %s beyond the reviewed one(s)" % (t["callee"], base), where=b.span_of_block(bi))
    # the consumed map in from_request_parts must be the body's, not the merged one
    for b, bi, t in sites:
        if b.path == "canonical::CanonicalRequest::from_request_parts":
            sl = b.slice_op(t["args"][0])
            if not sl.has_call(r"encoding::Encoding::decode$"):
                yield VIOL("C10-R1", "from_request_parts/iterates-merged-map", "the map iterated in from_request_parts is not the freshly parsed body map", where=b.span_of_block(bi))
    # a "message-only" iteration is only that while it runs to the end or to an error: a `break` out of it makes the
    # *outcome* depend on which entry the hash order yields first
    for b, bi, t in sites:
        base = re.sub(r"::\{closure#\d+\}$", "", b.path)
        if ITER_TABLE.get(base, ("",))[0] != "message-only":
            continue
        oks_ = {ob for ob, _, _ in result_aggs(b, "Ok")}
        for nb_, nt_ in b.calls(r"Iterator::next$"):
            if "hash_map::Keys<" not in nt_.get("resolved_full", "") and "hash_map::Iter<" not in nt_.get("resolved_full", ""):
                continue
            st_ = b.term(nt_["target"]) if nt_.get("target") is not None else None
            some_ = [bb for v, bb in st_["targets"] if v == 1] if st_ and st_["k"] == "switch" else []
            if some_ and (oks_ & b._reachable_from(some_[0], avoid={nb_})):
                yield VIOL("C10-R1", "map-iteration-left-early/" + b.path, "the hash-map iteration in %s can be left from inside an iteration without an error (`break`): which entries are examined, and with them the outcome, depends on the per-process hash order" % base, where=b.span_of_block(nb_))
    if len(sites) < 4:
        yield MISSING("C10-R1", "map-iteration/floor", "only %d hash-map iteration sites found (4 confirmed by hand)" % len(sites))
    else:
        yield PASS("C10-R1", "map-iteration/inventory", "%d iteration sites, all reviewed: %s" % (len(sites), {k: v[0] for k, v in ITER_TABLE.items()}), [site(b, bi, t["callee"].split("::")[-1]) for b, bi, t in sites])
    # sortedness in canonicalize_query_to_string
    b = ctx.fn(CQS)
    it = [x for x in b.calls(MAP_ITER)]
    if not it:
        raise AnchorMissing("map iteration in canonicalize_query_to_string")
    sa = set_accumulator(b)
    if sa:
        yield VIOL("C10-R1", "canonicalize_query_to_string/pairs-collection", "the (name, value) pairs are gathered in a `%s`: a set or map keeps one of several identical name=value pairs, the canonical query is a function of the multiset of parameters" % sa[1], where=b.span_of_block(sa[0]))
        return
    info = acc_info(b)
    acc = info["acc"]
    if info["form"] == "extend":
        pr, _ = extend_shape(b, info)
        if pr:
            yield MISSING("C10-R1", "canonicalize_query_to_string/extend-shape", "; ".join(pr), where=b.span_of_block(info["pushes"][0][0]))
            return
    sorts = [d for d in b.defs().get(acc, []) if d["kind"] == "mutcall" and re.search(r"slice::<impl \[T\]>::sort(_unstable)?(_by|_by_key|_by_cached_key)?$", d["term"]["callee"])]
    rets = b.return_blocks()
    # besides push / sort, nothing may change the collected pairs (dedup, retain, truncate, pop, remove .. lose or
    # reorder parameters: repeated name=value pairs are part of the multiset)
    other = [d for d in b.defs().get(acc, []) if d["kind"] == "mutcall" and d not in sorts
             and not (info["form"] == "extend" and re.search(EXTEND, d["term"]["callee"]))
             and not re.search(r"Vec::<T, A>::push$|DerefMut::deref_mut$|IntoIterator::into_iter$|Vec::<T, A>::(iter|iter_mut|len|is_empty|as_slice|as_mut_slice|reserve\w*|with_capacity)$|slice::<impl \[T\]>::(iter|len|is_empty)$|Iterator::collect$", d["term"]["callee"])]
    for d in other:
        yield VIOL("C10-R1", "canonicalize_query_to_string/pairs-op:" + d["term"]["callee"].split("::")[-1], "the collected (name, value) pairs are modified by `%s`: parameters are dropped, merged or reordered before rendering" % d["term"]["callee"], where=b.span_of_block(d["block"]))
    if info["form"] in ("loop", "extend"):
        pushes = info["pushes"]
        good = [d for d in sorts if all(b.dominates(d["block"], r) for r in rets) and not any(b.reachable(d["block"], pb) for pb, _ in pushes)]
    else:
        cb = info["collect"][0]
        good = [d for d in sorts if all(b.dominates(d["block"], r) for r in rets) and b.dominates(cb, d["block"]) and not b.reachable(d["block"], cb)]
        # nothing else fills the vector after it was sorted
        later = [d for d in b.defs().get(acc, []) if d["kind"] == "mutcall" and d not in sorts and any(b.reachable(g["block"], d["block"]) for g in good)
                 and not re.search(r"DerefMut::deref_mut$|IntoIterator::into_iter$|Vec::<T, A>::(iter|len|is_empty)$", d["term"]["callee"])]
        if later:
            good = []
    if not good:
        yield VIOL("C10-R1", "canonicalize_query_to_string/not-sorted", "the collected parameters are not sorted after the last push on every path to the return (hash order reaches the canonical query)", where=loc(b.j["span"]))
        return
    sd = good[0]
    yield PASS("C10-R1", "canonicalize_query_to_string/sorted", "accumulator sorted after the loop, dominating the return", [site(b, sd["block"], "sort")])
    # the returned string derives from the sorted accumulator only (no second, unsorted rendering)
    rs = b.slice([0])
    if acc not in rs.locals:
        yield VIOL("C10-R1", "canonicalize_query_to_string/result-source", "the result is not rendered from the sorted accumulator", where=loc(b.j["span"]))
    other_iters = [x for x in rs.find_calls(MAP_ITER)]
    # the map iteration may only feed the result through the accumulator
    direct = b.slice([0], stop_locals=[acc])
    if direct.find_calls(MAP_ITER):
        yield VIOL("C10-R1", "canonicalize_query_to_string/unsorted-path", "map iteration reaches the result without passing through the sorted accumulator", where=loc(b.j["span"]))
    else:
        yield PASS("C10-R1", "canonicalize_query_to_string/result-source", "result derives from the map only through the sorted accumulator; joined with '&'", [])
    j = rs.find_calls(r"slice::<impl \[T\]>::join$")
    # sibling rendering idiom: a loop appending to a String with char pushes '&' (between pairs) and '=' (inside one)
    chars = sorted({const_value(op_const(t_["args"][1]) or {}) for _, t_ in b.calls(r"^std::string::String::push$") if op_const(t_["args"][1])})
    if not j and chars == [ord("&"), ord("=")] and b.calls(r"^std::string::String::push_str$"):
        pr = render_loop_problems(b, acc)
        if pr:
            yield VIOL("C10-R1", "canonicalize_query_to_string/render-loop", "; ".join(pr), where=loc(b.j["span"]))
        else:
            yield PASS("C10-R1", "canonicalize_query_to_string/render-loop", "loop rendering: ['&' if index > 0] name '=' value for every sorted pair", [])
    elif not j or const_str_of(b, j[0][1]["args"][1])[0] != "&":
        yield VIOL("C10-R1", "canonicalize_query_to_string/join", "pairs are not joined with '&'", where=loc(b.j["span"]))
    ctx.extra["sort_call"] = sd["term"]["resolved_full"]


@M.rule("C10-R2", "sort key is (name, value), not the rendered pair")
def r2(ctx):
    b = ctx.fn(CQS)
    if set_accumulator(b):
        return  # reported by C10-R1 pairs-collection
    sorts = b.calls(r"slice::<impl \[T\]>::sort(_unstable)?(_by|_by_key|_by_cached_key)?$")
    # a sort keyed by one component of the pair: with an unstable sort the pairs that agree on that component come out in
    # an order that depends on where the hash-map iteration put them (explicit violation); with a stable one the result
    # depends on an earlier ordering this rule does not model (fails closed below, as any comparator does)
    partial = False
    for bi_, t_ in sorts:
        rcv = b.origin_def(t_["args"][0])
        whole = bool(rcv and rcv[0] == "def" and rcv[1]["kind"] == "call" and re.search(r"DerefMut::deref_mut$|as_mut_slice$", rcv[1]["term"]["callee"]))
        if whole and re.search(r"sort_unstable_by_key$", t_["callee"]) and len(t_["args"]) > 1:
            cd = b.origin_def(t_["args"][1])
            if cd and cd[0] == "def" and cd[1]["kind"] == "assign" and cd[1]["stmt"]["rv"].get("closure"):
                kb = b.facts.find_bodies("^" + re.escape(cd[1]["stmt"]["rv"]["closure"]) + "$", include_absorbed=True)
                if kb:
                    comps = {fs[:1] for l, fs in kb[0].slice([0]).fieldreads if l == 2 and fs}
                    if len(comps) == 1 and not kb[0].calls():
                        partial = True
                        yield VIOL("C10-R2", "canonicalize_query_to_string/sort-key-partial:%s" % ("name" if comps == {("0",)} else "value"), "`%s` orders the pairs by their %s alone: an unstable sort leaves pairs that agree on it in an order that depends on the hash-map iteration (and the slice's length), so the canonical query differs between runs" % (t_["callee"].split("::")[-1], "name" if comps == {("0",)} else "value"), where=b.span_of_block(bi_))
    if partial:
        return
    s = one(sorts, "sort call in canonicalize_query_to_string")
    ctx.count()
    callee = s[1]["callee"]
    elem = re.search(r"slice::<impl \[(.*)\]>::sort", s[1].get("resolved_full", ""))
    ety = elem.group(1) if elem else "?"
    if re.search(r"sort(_unstable)?_by", callee):
        yield MISSING("C10-R2", "canonicalize_query_to_string/comparator", "sort uses a custom comparator/key (`%s`): idiom not recognised, review needed" % callee, where=b.span_of_block(s[0]))
        return
    info = acc_info(b)
    if info["form"] == "collect":
        probs, shp = collect_shape(b, info)
        if probs:
            yield MISSING("C10-R2", "canonicalize_query_to_string/collect-shape", "; ".join(probs), where=b.span_of_block(info["collect"][0]))
            return
        H, tst, name_caps = shp["tuple"]
        if not ety.startswith("(") or tst is None or len(tst["rv"]["ops"]) != 2:
            yield VIOL("C10-R2", "canonicalize_query_to_string/sort-key", "the sorted elements (%s) are not (name, value) tuples built by the inner map closure: a rendered `name=value` string sorts '=' (0x3D) above '-', '.', digits and '%%'" % ety, where=b.span_of_block(s[0]))
            return
        s0, s1 = H.slice_op(tst["rv"]["ops"][0]), H.slice_op(tst["rv"]["ops"][1])
        env0 = {int(fs[0]) for l, fs in s0.fieldreads if l == 1 and fs}
        env1 = {int(fs[0]) for l, fs in s1.fieldreads if l == 1 and fs}
        if env0 and env0 <= name_caps and 2 not in s0.params and 2 in s1.params and not env1:
            yield PASS("C10-R2", "canonicalize_query_to_string/sort-key", "elements are tuples (captured name, iterated value) of type %s sorted by natural order" % ety, [site(b, s[0], callee.split("::")[-1])])
        else:
            yield VIOL("C10-R2", "canonicalize_query_to_string/sort-key", "tuple elements are not (name, value) in that order", where=loc(H.j["span"]))
        return
    pushes = info["pushes"]
    p = one(pushes, "push into the accumulator")
    elem = p[1]["args"][1]
    if info["form"] == "extend":
        pr, elem = extend_shape(b, info)
        if pr:
            yield MISSING("C10-R2", "canonicalize_query_to_string/extend-shape", "; ".join(pr), where=b.span_of_block(p[0]))
            return
    od = b.origin_def(elem)
    if ety.startswith("(") and od and od[0] == "def" and od[1]["kind"] == "assign" and od[1]["stmt"]["rv"].get("tuple"):
        ops = od[1]["stmt"]["rv"]["ops"]
        s0, s1 = b.slice_op(ops[0]), b.slice_op(ops[1])
        inner0 = s0.has_call(r"slice::<impl \[T\]>::iter$")
        inner1 = s1.has_call(r"slice::<impl \[T\]>::iter$")
        if len(ops) == 2 and not inner0 and inner1:
            yield PASS("C10-R2", "canonicalize_query_to_string/sort-key", "elements are tuples (name, value) of type %s sorted by natural (lexicographic) order: name first, then value" % ety, [site(b, s[0], callee.split("::")[-1])])
        else:
            yield VIOL("C10-R2", "canonicalize_query_to_string/sort-key", "tuple elements are not (name, value) in that order", where=b.span_of_block(p[0]))
        return
    # single-string elements: do they carry both labels?
    es = b.slice_op(elem)
    has_val = es.has_call(r"slice::<impl \[T\]>::iter$")
    it = es.find_calls(MAP_ITER)
    if has_val and it:
        yield VIOL("C10-R2", "canonicalize_query_to_string/sort-key", "the sorted elements (%s) are rendered `name=value` strings: under the natural order '=' (0x3D) sorts above '-', '.', digits and '%%', so `a-b=1` is placed before `a=2`" % ety, where=b.span_of_block(s[0]))
    else:
        yield MISSING("C10-R2", "canonicalize_query_to_string/sort-key-shape", "sorted element type %s: shape not recognised" % ety, where=b.span_of_block(s[0]))


@M.rule("C10-R3", "only the X-Amz-Signature parameter is excluded")
def r3(ctx):
    b = ctx.fn(CQS)
    if set_accumulator(b):
        return  # reported by C10-R1 pairs-collection
    info = acc_info(b)
    if info["form"] == "collect":
        ctx.count()
        probs, shp = collect_shape(b, info)
        if probs:
            yield MISSING("C10-R3", "canonicalize_query_to_string/collect-shape", "; ".join(probs), where=b.span_of_block(info["collect"][0]))
            return
        okf = len(shp["filters"]) == 1
        if okf:
            blk, F, pos = shp["filters"][0]
            od = F.origin_def({"move": {"local": 0, "proj": []}})
            neg = False
            if od and od[0] == "def" and od[1]["kind"] == "assign" and od[1]["stmt"]["rv"]["k"] == "unop" and od[1]["stmt"]["rv"].get("op") == "Not":
                neg = True
                od = F.origin_def(od[1]["stmt"]["rv"]["x"])
            okf = bool(od and od[0] == "def" and od[1]["kind"] == "call" and re.search(r"PartialEq::(ne|eq)$", od[1]["term"]["callee"]))
            if okf:
                t = od[1]["term"]
                sa, sb = F.slice_op(t["args"][0]), F.slice_op(t["args"][1])
                vals = sa.const_values() + sb.const_values()
                keeps_unequal = t["callee"].endswith("::ne") != neg
                # the compared item part is the name: field 0 of the entry / pair
                name_side = {fs[:1] for l, fs in (sa.fieldreads | sb.fieldreads) if l == 2} == {("0",)}
                okf = "X-Amz-Signature" in vals and keeps_unequal and name_side and len(F.live_blocks()) <= 4
        if not okf:
            yield VIOL("C10-R3", "canonicalize_query_to_string/filter", "the pipeline is filtered by %d condition(s) other than exactly `name != \"X-Amz-Signature\"`" % len(shp["filters"]), where=b.span_of_block(info["collect"][0]))
        else:
            yield PASS("C10-R3", "canonicalize_query_to_string/filter", "single filter stage: name != \"X-Amz-Signature\" (full equality)", [loc(shp["filters"][0][1].j["span"])])
        # every value of a name is listed: the inner pipeline is exactly values.iter().map(..) (collect_shape) 
        yield PASS("C10-R3", "canonicalize_query_to_string/all-values", "flat_map(values.iter().map(..)) with no inner filter: duplicates are kept", [])
        return
    pushes = info["pushes"]
    p = one(pushes, "push into the accumulator")
    conds = []
    for a, s, c, truth in guard_conditions(b, p[0]):
        if c["kind"] == "discr":
            continue  # iterator Some edges
        conds.append((a, c, truth))
    ctx.count()
    ok = len(conds) == 1
    if ok:
        a, c, truth = conds[0]
        ok = c["kind"] == "call" and bool(re.search(r"PartialEq::(ne|eq)$", c["callee"]))
        if ok:
            t = c["term"]
            vals = b.slice_op(t["args"][0]).const_values() + b.slice_op(t["args"][1]).const_values()
            unequal = c["callee"].endswith("::ne") == bool(truth)
            ok = "X-Amz-Signature" in vals and unequal
    if not ok:
        yield VIOL("C10-R3", "canonicalize_query_to_string/filter", "the push is filtered by %d condition(s) other than exactly `name != \"X-Amz-Signature\"`" % len(conds), where=b.span_of_block(p[0]))
    else:
        yield PASS("C10-R3", "canonicalize_query_to_string/filter", "single filter: name != \"X-Amz-Signature\" (full equality)", [site(b, p[0], "push")])
    if info["form"] == "extend":
        pr, _ = extend_shape(b, info)
        if pr:
            yield VIOL("C10-R3", "canonicalize_query_to_string/all-values", "not every value of a name is listed: " + "; ".join(pr), where=b.span_of_block(p[0]))
        else:
            yield PASS("C10-R3", "canonicalize_query_to_string/all-values", "extend(values.iter().map(..)) with no other stage: every value is listed, duplicates are kept", [])
        return
    # every value of a name is pushed: the push post-dominates the Some edge of the value iteration
    nx = [x for x in b.calls(r"Iterator::next$") if "slice::Iter" in x[1].get("resolved_full", "")]
    if nx:
        st = b.term(nx[0][1]["target"])
        some = [bb for v, bb in st["targets"] if v == 1] if st["k"] == "switch" else []
        if not some or not b.postdominates(p[0], some[0]):
            yield VIOL("C10-R3", "canonicalize_query_to_string/all-values", "not every value of a name is listed (push does not post-dominate the value iteration's Some edge)", where=b.span_of_block(p[0]))
        else:
            yield PASS("C10-R3", "canonicalize_query_to_string/all-values", "every (name, value) of an included name is pushed: duplicates are kept", [])


@M.rule("C10-R4", "parsing drops only empty segments and never overwrites a value list")
def r4(ctx):
    b = ctx.fn(QSM)
    ctx.count(4)
    splits = b.calls(r"str>::split$")
    amp = [x for x in splits if const_value(op_const(x[1]["args"][1]) or {}) == ord("&")]
    eqs_ = [x for x in splits if const_value(op_const(x[1]["args"][1]) or {}) == ord("=")]
    if eqs_:
        # `component.split('=')` cuts at EVERY '=': the value loses everything after its second '='
        yield VIOL("C10-R4", "qsm/pair-separator", "segments are split at every '=' (`split('=')`), not at the FIRST one (splitn(2, '=') / split_once('=')): `a=b=c` loses `=c`", where=b.span_of_block(eqs_[0][0]))
        return
    sp = one(amp if amp else splits, "split('&')")
    if const_value(op_const(sp[1]["args"][1]) or {}) != ord("&"):
        yield VIOL("C10-R4", "qsm/segment-separator", "query string is not split on '&'", where=b.span_of_block(sp[0]))
    sn = b.calls(r"str>::splitn$")
    so = b.calls(r"str>::split_once$")
    sep_ok = (len(sn) == 1 and not so and const_value(op_const(sn[0][1]["args"][1]) or {}) == 2 and const_value(op_const(sn[0][1]["args"][2]) or {}) == ord("=")) or \
             (len(so) == 1 and not sn and const_value(op_const(so[0][1]["args"][1]) or {}) == ord("="))
    if not sep_ok or b.calls(r"str>::(split|rsplit|rsplitn|rsplit_once|split_terminator)$") and len(b.calls(r"str>::(split|rsplit|rsplitn|rsplit_once|split_terminator)$")) != 1:
        yield VIOL("C10-R4", "qsm/pair-separator", "segments are not split at the FIRST '=' (splitn(2, '=') or split_once('='))", where=loc(b.j["span"]))
        return
    pair_call = (sn or so)[0]
    # the pair split is applied to the whole segment
    # sibling skip idiom: `query.split('&').filter(|c| !c.is_empty())` instead of `if c.is_empty() { continue }`: a filter
    # stage hands its elements on as they are; its predicate must be exactly "the whole segment is not empty"
    SEG = r"Iterator::next$|IntoIterator::into_iter$|str>::split$"
    flt = None
    fl = [x for x in b.calls(r"Iterator::filter$") if "summary_operand" in x[1]]
    if len(fl) == 1:
        src_, st_ = pipeline_of(b, fl[0][1]["args"][0])
        if not [x for x in st_ if x[0] != "into_iter"] and src_ and src_[0] == "def" and src_[1]["kind"] == "call" and src_[1]["term"] is sp[1]:
            pod = b.origin_def(fl[0][1]["args"][fl[0][1]["summary_operand"]])
            if pod and pod[0] == "def" and pod[1]["kind"] == "assign" and pod[1]["stmt"]["rv"]["k"] == "unop" and pod[1]["stmt"]["rv"].get("op") == "Not":
                cod = b.origin_def(pod[1]["stmt"]["rv"]["x"])
                if cod and cod[0] == "def" and cod[1]["kind"] == "call" and re.search(r"str>::is_empty$", cod[1]["term"]["callee"]) and not [c_ for c_ in b.slice_op(cod[1]["term"]["args"][0]).callee_names() if not re.search(SEG, c_)]:
                    flt = fl[0]
    if fl and flt is None:
        yield VIOL("C10-R4", "qsm/skip-conditions", "the segment list is filtered by something other than `!segment.is_empty()` on the whole segment", where=b.span_of_block(fl[0][0]))
        return
    SEGF = SEG + (r"|Iterator::filter$|str>::is_empty$" if flt else "")
    ps_ = b.slice_op(pair_call[1]["args"][0])
    if [c_ for c_ in ps_.callee_names() if not re.search(SEGF, c_)]:
        yield VIOL("C10-R4", "qsm/pair-subject", "the name/value split is not applied to the '&'-separated segment as it is", where=b.span_of_block(pair_call[0]))
    nx = [x for x in b.calls(r"Iterator::next$") if "Split<" in x[1].get("resolved_full", "") and not x[1].get("summary")]
    n = one(nx, "segment iteration")
    st = b.term(n[1]["target"])
    some = [bb for v, bb in st["targets"] if v == 1][0]
    comp_local = None
    for s in b.blocks[some]["stmts"]:
        if s["k"] == "assign" and s["rv"]["k"] == "use" and op_place(s["rv"]["op"]) and op_place(s["rv"]["op"])["local"] == n[1]["dest"]["local"]:
            comp_local = s["place"]["local"]
    pushes = [bi for bi, t in b.calls(r"Vec::<T, A>::push$") if "Vec<std::string::String>" in t.get("resolved_full", "") or "std::string::String" in t.get("resolved_full", "")]
    inserts = [bi for bi, t in b.calls(r"HashMap::<K, V, S, A>::insert$")]
    entries = [bi for bi, t in b.calls(r"Entry::<'a, K, V(, A)?>::(or_default|or_insert\w*)$")]
    stores = set(pushes + inserts)
    # the continue edge
    skips = []
    for bi, t in b.calls(r"str>::is_empty$"):
        a, ts, fs = switch_on_call(b, bi)
        if a is not None and b.in_cycle(a):
            skips.append((bi, t, a, ts, fs))
    if flt is not None and not skips:
        # the filter stage is the (only) skip: every element the loop sees is a non-empty segment
        yield PASS("C10-R4", "qsm/skip-subject", "only `.filter(|c| !c.is_empty())` on the split('&') iterator skips a segment", [site(b, flt[0], "filter")])
        skips = [(flt[0], None, n[0], None, some)]
    elif len(skips) != 1 or flt is not None:
        yield VIOL("C10-R4", "qsm/skip-conditions", "expected exactly one skip condition in the loop (`component.is_empty()`), found %d" % (len(skips) + (1 if flt else 0)), where=loc(b.j["span"]))
        return
    bi, t, a, ts, fs = skips[0]
    od = b.origin_def(t["args"][0]) if t is not None else None
    direct = od and ((od[0] == "multi" and od[1] == comp_local) or (od[0] == "place" and od[1]["local"] == n[1]["dest"]["local"]) or (od[0] == "def" and od[1].get("kind") == "assign" and s_is_payload(od[1], n[1]["dest"]["local"])))
    if not direct and comp_local is not None and t is not None:
        sl = b.slice_op(t["args"][0])
        direct = comp_local in sl.locals and not [c for c in sl.calls if not re.search(r"Iterator::next$|IntoIterator::into_iter$|str>::split$", c[1]["callee"])]
    if t is None:
        pass
    elif not direct:
        yield VIOL("C10-R4", "qsm/skip-subject", "the skip test is not applied to the whole '&'-separated segment (e.g. it tests the name after splitting: `=v` would be dropped)", where=b.span_of_block(bi))
    else:
        yield PASS("C10-R4", "qsm/skip-subject", "only `component.is_empty()` skips a segment", [site(b, bi, "is_empty")])
    # from the non-empty edge every way back to the loop head stores the pair (or returns an error)
    head = n[0]
    reach = b._reachable_from(fs, avoid=stores) if fs is not None else set()
    if fs is None or head in reach:
        yield VIOL("C10-R4", "qsm/pair-dropped", "a non-empty segment can reach the next iteration without being stored", where=b.span_of_block(a))
    else:
        yield PASS("C10-R4", "qsm/pair-stored", "every non-empty segment reaches a push or insert before the next iteration (or returns an error)", [site(b, x, "store") for x in sorted(stores)])
    # multimap rule
    for ib in inserts:
        t_ins = b.term(ib)
        okg = False
        for pl, vals, other, ga in discr_guard_variants(b, ib):
            sl = b.slice([pl["local"]])
            lk = sl.find_calls(r"HashMap::<K, V, S, A>::(get_mut|get|contains_key)$")
            if lk and 1 not in vals:
                s1, s2 = b.slice_op(lk[0][1]["args"][1]), b.slice_op(t_ins["args"][1])
                # the name looked up is the name stored under: both the NORMALISED name (a lookup by the raw spelling
                # misses `X%2DAmz-Date` after `X-Amz-Date` and the insert then replaces the list)
                NRM = r"canonical::normalize_query_string_element$"
                if (s1.locals & s2.locals) and bool(s1.has_call(NRM)) == bool(s2.has_call(NRM)) and s2.has_call(NRM):
                    okg = True
        if not okg:
            yield VIOL("C10-R4", "qsm/insert-overwrites", "HashMap::insert of a value list is not guarded by a failed lookup of the same name: an earlier value list would be replaced (duplicates lost)", where=b.span_of_block(ib))
        else:
            yield PASS("C10-R4", "qsm/insert-guarded", "insert only when the name is not yet present", [site(b, ib, "insert")])
    if not inserts and not entries:
        yield MISSING("C10-R4", "qsm/store-idiom", "neither insert-after-failed-lookup nor entry().or_default() found")
    # name from parts[0], value from parts[1] (or "")
    norm = b.calls(r"canonical::normalize_query_string_element$")
    if len(norm) != 2:
        yield VIOL("C10-R4", "qsm/normalize-count", "expected 2 normalize_query_string_element calls (name, value), found %d" % len(norm), where=loc(b.j["span"]))
        return

    def idxs(sl):
        got = {const_value(op_const(t_["args"][1]) or {}) for _, t_ in sl.find_calls(r"ops::Index::index$|slice::<impl \[T\]>::get$")}
        got = {g for g in got if isinstance(g, int)}  # `parts[1]` and `parts.get(1)` name the same element
        if so:
            # split_once form: `(x as Some).0.0` is the name, `.0.1` the value
            for l_, fs in sl.fieldreads:
                if len(fs) >= 2 and fs[0] == "0" and fs[1] in ("0", "1") and b.slice([l_]).has_call(r"str>::split_once$"):
                    got.add(int(fs[1]))
        return sorted(got)

    def pair_field(o):
        """k if o is field k of `component.split_once('=').unwrap_or((component, ""))` (desugared: the pair is either the
        split_once payload or the default tuple whose first part is the whole component and second the empty string)."""
        od_ = b.origin_def(o)
        if not (od_ and od_[0] == "place"):
            return None
        fs_ = [e for e in od_[1]["proj"] if isinstance(e, dict) and "field" in e]
        if len(fs_) != 1 or len([e for e in od_[1]["proj"] if e != "deref"]) != 1:
            return None
        ds_ = [d for d in b.defs().get(od_[1]["local"], []) if d["kind"] == "assign"]
        pay = [d for d in ds_ if d["stmt"]["rv"]["k"] == "use" and op_place(d["stmt"]["rv"]["op"]) and any(isinstance(e, dict) and e.get("downcast") == "Some" for e in op_place(d["stmt"]["rv"]["op"])["proj"])
               and b.slice([op_place(d["stmt"]["rv"]["op"])["local"]]).has_call(r"str>::split_once$")]
        dfl = []
        for d in ds_:
            od2 = b.origin_def(d["stmt"]["rv"]["op"]) if d["stmt"]["rv"]["k"] == "use" else None
            if od2 and od2[0] == "def" and od2[1]["kind"] == "assign" and od2[1]["stmt"]["rv"].get("tuple") and len(od2[1]["stmt"]["rv"]["ops"]) == 2:
                dfl.append(od2[1]["stmt"]["rv"])
            elif d["stmt"]["rv"].get("tuple") and len(d["stmt"]["rv"]["ops"]) == 2:
                dfl.append(d["stmt"]["rv"])
        if len(ds_) != 2 or len(pay) != 1 or len(dfl) != 1:
            return None
        whole, empty = b.slice_op(dfl[0]["ops"][0]), const_str_of(b, dfl[0]["ops"][1])[0]
        if empty != "" or whole.has_call(r"str>::split_once$|str>::(trim\w*|get|split_at)$|ops::Index::index$"):
            return None
        return fs_[0]["idx"]

    role = {}
    for nb, nt in norm:
        pf = pair_field(nt["args"][0])
        if pf in (0, 1) and so:
            role[nb] = pf
            continue
        i = idxs(b.slice_op(nt["args"][0]))
        if i == [0]:
            role[nb] = 0
        elif i == [1]:
            role[nb] = 1
        elif i == [] and so:
            # the `None => (component, "")` arm feeds the same locals: resolved by the arm that has an index
            role[nb] = None
    if sorted(v for v in role.values() if v is not None) != [0, 1]:
        yield VIOL("C10-R4", "qsm/name-value-parts", "name/value are not normalize(<text before the first '='>) / normalize(<text after it, or \"\">)", where=loc(b.j["span"]))
        return

    def roles_of(o):
        sl_ = b.slice_op(o)
        return {role[nb] for nb, _ in norm if any(cb == nb for cb, _ in sl_.calls)}

    okkv = True
    for ib in inserts:
        t_ins = b.term(ib)
        if roles_of(t_ins["args"][1]) != {0} or roles_of(t_ins["args"][2]) != {1}:
            okkv = False
    for eb_, et_ in b.calls(r"HashMap::<K, V, S, A>::entry$"):
        if roles_of(et_["args"][1]) != {0}:
            okkv = False
    for pb in pushes:
        t_p = b.term(pb)
        if roles_of(t_p["args"][1]) != {1}:
            okkv = False
    if not okkv:
        yield VIOL("C10-R4", "qsm/name-value-roles", "the stored key/value are not (normalised name, normalised value)", where=loc(b.j["span"]))
    else:
        yield PASS("C10-R4", "qsm/name-value-roles", "map key <= normalize(name part); stored value <= normalize(value part | \"\")", [])


def s_is_payload(d, opt_local):
    rv = d["stmt"]["rv"]
    p = op_place(rv.get("op", {})) if rv["k"] == "use" else None
    return p is not None and p["local"] == opt_local


def kd_in(b, operand, norm_calls, want_idx):
    sl = b.slice_op(operand)
    got = set()
    for nb, nt in norm_calls:
        if any(cb == nb for cb, _ in sl.calls):
            i = sorted({const_value(op_const(t_["args"][1]) or {}) for _, t_ in b.slice_op(nt["args"][0]).find_calls(r"ops::Index::index$")})
            got.add(tuple(i))
    return got == {(want_idx,)}


import c09  # noqa: E402


@M.rule("C10-R5", "element normalisation shared with paths: emission rules, strict hex decoding, error kind by element type (shared with C09-R1/R2/R3)")
def r5(ctx):
    for r in list(c09.r1(ctx)) + list(c09.r2(ctx)) + [x for x in c09.r3(ctx) if "plus-in-path" not in x.key]:
        r.rule = "C10-R5"
        yield r
