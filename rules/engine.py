"""Rule engine over the MIR fact base produced by tools/factgen.

Pure static analysis helpers: CFG (unwind edges dropped), dominators, post-dominators, control
dependence, reachability, reference/pointee tracking, a flow-insensitive def-use dependency graph
with backward slices ("provenance"), and condition normalisation for SwitchInt guards.
Python stdlib only.
"""
import json
import re
from collections import defaultdict, deque

INT_BARRIER_TYPES = {"usize", "isize"}


# --------------------------------------------------------------------------------------------
# results
# --------------------------------------------------------------------------------------------
class R:
    """One rule-instance outcome."""

    def __init__(self, rule, status, key, msg, sites=None, where=None):
        self.rule = rule  # e.g. "C01-R1"
        self.status = status  # PASS | VIOLATION | ANCHOR-MISSING
        self.key = key  # stable key without line numbers
        self.msg = msg
        self.sites = sites or []
        self.where = where  # "file:line" of the offending construct, for the reader

    def to_json(self):
        return {"rule": self.rule, "status": self.status, "key": self.key, "msg": self.msg, "sites": self.sites, "where": self.where}


def PASS(rule, key, msg, sites=None):
    return R(rule, "PASS", key, msg, sites)


def VIOL(rule, key, msg, where=None, sites=None):
    return R(rule, "VIOLATION", key, msg, sites, where)


def MISSING(rule, key, msg, where=None):
    return R(rule, "ANCHOR-MISSING", key, msg, None, where)


class AnchorMissing(Exception):
    def __init__(self, what):
        super().__init__(what)
        self.what = what


# --------------------------------------------------------------------------------------------
# operand / place helpers
# --------------------------------------------------------------------------------------------
def op_place(o):
    if o is None:
        return None
    if "copy" in o:
        return o["copy"]
    if "move" in o:
        return o["move"]
    return None


def op_local(o):
    p = op_place(o)
    return None if p is None else p["local"]


def op_const(o):
    return o.get("const") if o else None


def place_fields(p):
    return [e["field"] for e in p["proj"] if isinstance(e, dict) and "field" in e]


def place_has_deref(p):
    return any(e == "deref" for e in p["proj"])


def place_index_locals(p):
    return [e["index"] for e in p["proj"] if isinstance(e, dict) and "index" in e]


def fmt_place(p):
    s = "_%d" % p["local"]
    for e in p["proj"]:
        if e == "deref":
            s = "(*%s)" % s
        elif "field" in e:
            s += "." + e["field"]
        elif "index" in e:
            s += "[_%d]" % e["index"]
        elif "downcast" in e:
            s = "(%s as %s)" % (s, e["downcast"])
        elif "constindex" in e:
            s += "[#%d]" % e["constindex"]
        else:
            s += "[..]"
    return s


def const_value(c):
    """Python value of a const dict: str, int, bytes or None."""
    if c is None:
        return None
    if "str" in c:
        return c["str"]
    if "scalar" in c:
        return c["scalar"]
    if "bytes" in c:
        return bytes(c["bytes"])
    return None


def rv_operands(rv):
    """All operands (dicts) read by an rvalue, and places read by ref/discr."""
    k = rv["k"]
    ops, places = [], []
    if k in ("use", "cast", "repeat"):
        ops.append(rv["op"])
    elif k == "binop":
        ops += [rv["l"], rv["r"]]
    elif k == "unop":
        ops.append(rv["x"])
    elif k == "aggregate":
        ops += rv["ops"]
    elif k in ("ref", "rawptr", "discr"):
        places.append(rv["place"])
    return ops, places


def loc(span):
    f = span.get("file", "?")
    i = f.find("/src/")
    if i >= 0:
        f = f[i + 1 :]
    return "%s:%s" % (f, span.get("line"))


# --------------------------------------------------------------------------------------------
# Body
# --------------------------------------------------------------------------------------------
class Body:
    def __init__(self, j, facts):
        self.j = j
        self.facts = facts
        self.path = j["path"]
        self.kind = j["kind"]
        self.blocks = j["blocks"]
        self.n = len(self.blocks)
        self.arg_count = j["arg_count"]
        self.locals = {l["id"]: l for l in j["locals"]}
        self.names = {l["id"]: l.get("name") for l in j["locals"]}
        self._succ = [self._succs(b) for b in self.blocks]
        self._pred = [[] for _ in range(self.n)]
        for a, ss in enumerate(self._succ):
            for s in ss:
                self._pred[s].append(a)
        self._reach = self._reachable_from(0)
        self._idom = None
        self._ipdom = None
        self._cd = None
        self._defs = None
        self._pointees = None

    # ---------------- CFG
    def _succs(self, b):
        t = b["term"]
        k = t["k"]
        if b.get("cleanup"):
            return []
        if k == "goto":
            return [t["target"]]
        if k == "switch":
            # a switch on a literal constant (`if false && ..`, `if cfg!(..)`) has one live successor
            c = t["discr"].get("const") if isinstance(t["discr"], dict) else None
            if c is None:
                # `_t = const false; switchInt(move _t)` within the block
                dl = op_local(t["discr"])
                pl = op_place(t["discr"])
                if dl is not None and pl is not None and not pl["proj"]:
                    for st in reversed(b["stmts"]):
                        if st["k"] == "assign" and st["place"]["local"] == dl and not st["place"]["proj"]:
                            if st["rv"]["k"] == "use" and "const" in st["rv"]["op"]:
                                c = st["rv"]["op"]["const"]
                            break
            if c is not None and "scalar" in c and not c.get("def"):
                v = c["scalar"]
                hit = [bb for vv, bb in t["targets"] if vv == v]
                return [hit[0]] if hit else [t["otherwise"]]
            out = []
            for _, bb in t["targets"]:
                if bb not in out:
                    out.append(bb)
            if t["otherwise"] not in out:
                out.append(t["otherwise"])
            return out
        if k in ("call", "assert", "drop", "yield"):
            return [] if t.get("target") is None else [t["target"]]
        return []

    def succ(self, b):
        return self._succ[b]

    def pred(self, b):
        return self._pred[b]

    def term(self, b):
        return self.blocks[b]["term"]

    def _reachable_from(self, start, avoid=()):
        seen = {start}
        dq = deque([start])
        while dq:
            x = dq.popleft()
            for s in self._succ[x]:
                if s not in seen and s not in avoid:
                    seen.add(s)
                    dq.append(s)
        return seen

    def reachable(self, a, b, avoid=()):
        """Is there a non-empty-or-empty CFG path a ->* b (a == b counts only via a cycle or trivially True)."""
        if a == b:
            return True
        return b in self._reachable_from(a, avoid)

    def reachable_strict(self, a, b):
        """Path of length >= 1 from a to b."""
        for s in self._succ[a]:
            if s == b or b in self._reachable_from(s):
                return True
        return False

    def reachable_avoiding_edge(self, start, a, s):
        """Blocks reachable from `start` without ever taking the CFG edge a -> s."""
        seen = {start}
        dq = deque([start])
        while dq:
            x = dq.popleft()
            for y in self._succ[x]:
                if x == a and y == s:
                    continue
                if y not in seen:
                    seen.add(y)
                    dq.append(y)
        return seen

    def err_cut(self, blk):
        """Continue-edge targets of every `?` whose operand may be the Result::Err / error value constructed in blk:
        for that value the Continue edge is infeasible."""
        if not hasattr(self, "_errcut"):
            self._errcut = {}
            for tb in sorted(self._reach):
                tt = self.blocks[tb]["term"]
                if tt["k"] == "call" and re.search(r"ops::Try::branch$", tt.get("callee", "")) and tt.get("target") is not None:
                    st = self.blocks[tt["target"]]["term"]
                    if st["k"] != "switch":
                        continue
                    cont = {bb for v, bb in st["targets"] if v == 0}
                    sl = self.slice_op(tt["args"][0])
                    for d in sl.aggs:
                        rv = d["stmt"]["rv"]
                        if (rv.get("adt") == "std::result::Result" and rv.get("variant") == "Err") or rv.get("adt") == "error::SignatureError":
                            self._errcut.setdefault(d["block"], set()).update(cont)
        return self._errcut.get(blk, set())

    def dominates_feasible(self, x, y):
        """x lies on every *feasible* entry->y path (the Continue edge of a `?` is infeasible for an error value
        constructed on the way: a helper that was inlined returns its Err through such a `?`)."""
        if self.dominates(x, y):
            return True
        return y not in self.reach_feasible(0, without=x)

    def reach_feasible(self, start, without=None):
        """Blocks reachable from start, not following the Continue edge of a `?` for an error value constructed on the way."""
        seen = set()
        dq = deque([(start, frozenset())])
        out = set()
        while dq:
            x, avoid = dq.popleft()
            if (x, avoid) in seen or x == without:
                continue
            seen.add((x, avoid))
            out.add(x)
            av = avoid | frozenset(self.err_cut(x))
            for s in self._succ[x]:
                if s in av:
                    continue
                dq.append((s, av))
        return out

    def live_blocks(self):
        return self._reach

    def return_blocks(self):
        return [i for i in self._reach if self.blocks[i]["term"]["k"] == "return"]

    def in_cycle(self, b):
        return self.reachable_strict(b, b)

    # ---------------- dominators (iterative, on reachable blocks)
    @staticmethod
    def _dominators(n, entry, succ, pred, nodes):
        # reverse postorder
        order = []
        seen = set()

        def dfs(u):
            stack = [(u, iter(succ(u)))]
            seen.add(u)
            while stack:
                v, it = stack[-1]
                adv = False
                for w in it:
                    if w not in seen and w in nodes:
                        seen.add(w)
                        stack.append((w, iter(succ(w))))
                        adv = True
                        break
                if not adv:
                    order.append(v)
                    stack.pop()

        dfs(entry)
        rpo = list(reversed(order))
        idx = {b: i for i, b in enumerate(rpo)}
        idom = {entry: entry}
        changed = True
        while changed:
            changed = False
            for b in rpo[1:]:
                new = None
                for p in pred(b):
                    if p in idom:
                        if new is None:
                            new = p
                        else:
                            f1, f2 = p, new
                            while f1 != f2:
                                while idx[f1] > idx[f2]:
                                    f1 = idom[f1]
                                while idx[f2] > idx[f1]:
                                    f2 = idom[f2]
                            new = f1
                if new is not None and idom.get(b) != new:
                    idom[b] = new
                    changed = True
        return idom

    def idom(self):
        if self._idom is None:
            self._idom = self._dominators(self.n, 0, self.succ, self.pred, self._reach)
        return self._idom

    def dominates(self, a, b):
        """a dominates b (reflexive)."""
        idom = self.idom()
        if b not in idom or a not in idom:
            return False
        x = b
        while True:
            if x == a:
                return True
            if idom[x] == x:
                return False
            x = idom[x]

    def ipdom(self):
        if self._ipdom is None:
            EXIT = self.n
            exits = [b for b in self._reach if not self._succ[b]]

            def rsucc(u):
                return exits if u == EXIT else self._pred[u]

            def rpred(u):
                r = list(self._succ[u]) if u != EXIT else []
                if u != EXIT and not self._succ[u]:
                    r.append(EXIT)
                return r

            nodes = set(self._reach) | {EXIT}
            self._ipdom = self._dominators(self.n + 1, EXIT, rsucc, rpred, nodes)
        return self._ipdom

    def postdominates(self, a, b):
        ip = self.ipdom()
        if a not in ip or b not in ip:
            return False
        x = b
        while True:
            if x == a:
                return True
            if ip[x] == x:
                return False
            x = ip[x]

    # ---------------- control dependence
    def control_deps(self):
        """cd[x] = set of (a, s): x is control dependent on edge a->s."""
        if self._cd is None:
            ip = self.ipdom()
            cd = defaultdict(set)
            for a in self._reach:
                ss = self._succ[a]
                if len(ss) < 2:
                    continue
                for s in ss:
                    # walk up the post-dominator tree from s until ipdom(a)
                    stop = ip.get(a)
                    x = s
                    guard = 0
                    while x is not None and x != stop and x != self.n and guard < 10000:
                        cd[x].add((a, s))
                        nx = ip.get(x)
                        if nx == x:
                            break
                        x = nx
                        guard += 1
            self._cd = cd
        return self._cd

    def guards(self, x, forward_only=True):
        """Transitive control dependences of block x: set of (a, s) edges (loop-carried ones dropped by default)."""
        cd = self.control_deps()
        out = set()
        work = [x]
        seen = {x}
        while work:
            y = work.pop()
            for (a, s) in cd.get(y, ()):
                # loop-carried dependences (y runs before a within an iteration) say nothing about how y was reached
                if forward_only and self.dominates(y, a):
                    continue
                if (a, s) not in out:
                    out.add((a, s))
                    if a not in seen:
                        seen.add(a)
                        work.append(a)
        return out

    def edge_label(self, a, s):
        """For a switch block a and successor s: (values, is_otherwise)."""
        t = self.term(a)
        if t["k"] != "switch":
            return None
        vals = [v for v, bb in t["targets"] if bb == s]
        return (vals, t["otherwise"] == s)

    # ---------------- definitions / pointees
    def local_ty(self, l):
        return self.locals[l]["ty"]

    def pointees(self):
        if self._pointees is None:
            pts = defaultdict(set)
            changed = True
            it = 0
            while changed and it < 50:
                changed = False
                it += 1
                for bi in self._reach:
                    b = self.blocks[bi]
                    for s in b["stmts"]:
                        if s["k"] != "assign":
                            continue
                        d = s["place"]
                        if d["proj"]:
                            continue
                        dl = d["local"]
                        rv = s["rv"]
                        new = set()
                        if rv["k"] in ("ref", "rawptr"):
                            p = rv["place"]
                            # find innermost deref base
                            if place_has_deref(p):
                                new |= pts[p["local"]]
                                # a reference stored in a field of a local struct: keep base too
                                if not pts[p["local"]]:
                                    new.add(p["local"])
                            else:
                                new.add(p["local"])
                        elif rv["k"] in ("use", "cast"):
                            l = op_local(rv["op"])
                            if l is not None:
                                new |= pts[l]
                        elif rv["k"] == "aggregate":
                            for o in rv["ops"]:
                                l = op_local(o)
                                if l is not None:
                                    new |= pts[l]
                        if not new <= pts[dl]:
                            pts[dl] |= new
                            changed = True
                    t = b["term"]
                    if t["k"] == "call" and not t["dest"]["proj"]:
                        dl = t["dest"]["local"]
                        dty = self.local_ty(dl)
                        if dty.startswith("&") or "&" in dty[:40]:
                            new = set()
                            want_mut = "&mut" in dty[:48]
                            for ai, a in enumerate(t["args"]):
                                l = op_local(a)
                                if l is not None:
                                    aty = t["arg_tys"][ai] if ai < len(t.get("arg_tys", [])) else ""
                                    # a `&mut` result cannot point into data that was only lent immutably
                                    if want_mut and not ("&mut" in aty[:48] or "Pin<&mut" in aty[:60]):
                                        continue
                                    new |= pts[l]
                            if not new <= pts[dl]:
                                pts[dl] |= new
                                changed = True
            self._pointees = pts
        return self._pointees

    def defs(self):
        """local -> list of def dicts {kind, block, idx, ...}"""
        if self._defs is None:
            pts = self.pointees()
            defs = defaultdict(list)
            for bi in sorted(self._reach):
                b = self.blocks[bi]
                for i, s in enumerate(b["stmts"]):
                    if s["k"] == "assign":
                        d = s["place"]
                        tgt = [d["local"]]
                        if place_has_deref(d):
                            tgt = list(pts[d["local"]]) or [d["local"]]
                        for l in tgt:
                            defs[l].append({"kind": "assign", "block": bi, "idx": i, "stmt": s, "partial": bool(d["proj"])})
                t = b["term"]
                if t["k"] == "call":
                    d = t["dest"]
                    tgt = [d["local"]]
                    if place_has_deref(d):
                        tgt = list(pts[d["local"]]) or [d["local"]]
                    for l in tgt:
                        defs[l].append({"kind": "call", "block": bi, "term": t, "partial": bool(d["proj"])})
                    for ai, a in enumerate(t["args"]):
                        l = op_local(a)
                        if l is None:
                            continue
                        ty = t["arg_tys"][ai] if ai < len(t.get("arg_tys", [])) else self.local_ty(l)
                        if ty.startswith("&mut") or "&mut " in ty[:60] or ty.startswith("std::pin::Pin<&mut"):
                            for pl in pts[l]:
                                defs[pl].append({"kind": "mutcall", "block": bi, "term": t, "argidx": ai, "partial": True})
                elif t["k"] == "yield":
                    d = t["resume_arg"]
                    defs[d["local"]].append({"kind": "yield", "block": bi, "term": t, "partial": False})
            self._defs = defs
        return self._defs

    # ---------------- slices
    def slice(self, start_locals, int_barrier=True, stop_at_calls=None, stop_locals=(), start_fields=None):
        """Backward may-derive slice (flow-insensitive; field-sensitive for direct field assignments; variant-sensitive
        through `?`: a read of `(x as Continue).0` of Try::branch(r) only follows r's Ok/Some constructions).
        Returns a Slice."""
        defs = self.defs()
        sl = Slice(self)
        work = [(l, None, None) for l in start_locals]
        if start_fields:
            work = [(l, tuple(start_fields), None) for l in start_locals]
        seen = set()
        stop_locals = set(stop_locals)
        while work:
            l, rf, vf = work.pop()
            if (l, rf, vf) in seen or (l, None, None) in seen:
                continue
            seen.add((l, rf, vf))
            sl.locals.add(l)
            if l in stop_locals:
                continue
            if int_barrier and self.local_ty(l) in INT_BARRIER_TYPES:
                sl.barriers.add(l)
                continue
            if 1 <= l <= self.arg_count:
                sl.params.add(l)
            for d in defs.get(l, ()):
                if d["kind"] == "assign":
                    # field-sensitivity: `_l.f = ..` does not feed a read of `_l.g`
                    if rf is not None and d.get("partial"):
                        df = tuple(place_fields(d["stmt"]["place"]))
                        if df and not place_has_deref(d["stmt"]["place"]):
                            n = min(len(df), len(rf))
                            if n and df[:n] != rf[:n]:
                                continue
                    rv = d["stmt"]["rv"]
                    # variant-sensitivity
                    if vf is not None and rv["k"] == "aggregate" and rv.get("adt") in ("std::result::Result", "std::option::Option") and not d.get("partial"):
                        if rv.get("variant") not in vf:
                            continue
                    sl.assigns.append(d)
                    ops, places = rv_operands(rv)
                    if rv["k"] == "aggregate":
                        sl.aggs.append(d)
                        # reading field f of a value built by an aggregate follows only that field's operand
                        if rf and not d.get("partial"):
                            pick = None
                            if rv.get("tuple") and rf[0].isdigit() and int(rf[0]) < len(ops):
                                pick = int(rf[0])
                            elif rv.get("fields") and rf[0] in rv["fields"] and rv.get("adt") not in ("std::result::Result", "std::option::Option"):
                                pick = rv["fields"].index(rf[0])
                            if pick is not None:
                                ops = [ops[pick]]
                    keep_vf = vf if rv["k"] == "use" else None
                    for o in ops:
                        p = op_place(o)
                        if p is not None:
                            self._visit_place(p, sl, work, keep_vf)
                        elif "const" in o:
                            sl.consts.append(o["const"])
                    for p in places:
                        self._visit_place(p, sl, work, None)
                elif d["kind"] in ("call", "mutcall"):
                    t = d["term"]
                    key = d["block"]
                    if key in sl.call_blocks:
                        continue
                    sl.call_blocks.add(key)
                    sl.calls.append((d["block"], t))
                    if stop_at_calls and stop_at_calls(t):
                        continue
                    arg_vf = None
                    if vf is not None and d["kind"] == "call" and re.search(r"ops::Try::branch$", t.get("callee", "")):
                        m = set()
                        if "Continue" in vf:
                            m |= {"Ok", "Some"}
                        if "Break" in vf:
                            m |= {"Err", "None"}
                        arg_vf = frozenset(m) if m else None
                    for a in t["args"]:
                        p = op_place(a)
                        if p is not None:
                            self._visit_place(p, sl, work, arg_vf)
                        elif "const" in a:
                            sl.consts.append(a["const"])
                    if "func" in t:
                        p = op_place(t["func"])
                        if p is not None:
                            self._visit_place(p, sl, work, None)
                elif d["kind"] == "yield":
                    sl.yields.append(d["block"])
                    p = op_place(d["term"]["value"])
                    if p is not None:
                        self._visit_place(p, sl, work, None)
        return sl

    def _visit_place(self, p, sl, work, vf=None):
        fs = place_fields(p)
        if fs:
            sl.fieldreads.add((p["local"], tuple(fs)))
        # field path is only meaningful on the local itself (not behind a deref)
        direct = tuple(fs) if fs and not place_has_deref(p) else None
        dc = [e["downcast"] for e in p["proj"] if isinstance(e, dict) and "downcast" in e]
        if dc and not place_has_deref(p):
            vf = frozenset([dc[0]])
            direct = None
        work.append((p["local"], direct, vf))
        for il in place_index_locals(p):
            sl.index_locals.add(il)

    def slice_op(self, o, **kw):
        """Slice of an operand; constants produce a slice with just that const."""
        p = op_place(o)
        if p is None:
            sl = Slice(self)
            if o and "const" in o:
                sl.consts.append(o["const"])
            return sl
        fs = place_fields(p)
        sf = fs if fs and not place_has_deref(p) else None
        sl = self.slice([p["local"]], start_fields=sf, **kw)
        if fs:
            sl.fieldreads.add((p["local"], tuple(fs)))
        return sl

    # ---------------- site finders
    def calls(self, pat=None, resolved=None):
        """[(block, term)] for call terminators whose declared callee (or resolved) matches regex."""
        out = []
        for bi in sorted(self._reach):
            t = self.blocks[bi]["term"]
            if t["k"] != "call":
                continue
            if t.get("summary"):
                continue  # synthetic element fetch of a summary splice (inline.py): visible to slices only
            if pat is not None and not re.search(pat, t.get("callee", "")):
                continue
            if resolved is not None and not re.search(resolved, t.get("resolved_full", t.get("resolved", ""))):
                continue
            out.append((bi, t))
        return out

    def all_calls(self):
        return self.calls()

    def aggregates(self, adt=None, variant=None, include_syn=False):
        out = []
        for bi in sorted(self._reach):
            for i, s in enumerate(self.blocks[bi]["stmts"]):
                if s.get("syn") and not include_syn:
                    continue
                if s["k"] == "assign" and s["rv"]["k"] == "aggregate":
                    rv = s["rv"]
                    if adt is not None and not re.search(adt, rv.get("adt", "")):
                        continue
                    if variant is not None and rv.get("variant") != variant:
                        continue
                    out.append((bi, i, s))
        return out

    def stmts(self):
        for bi in sorted(self._reach):
            for i, s in enumerate(self.blocks[bi]["stmts"]):
                yield bi, i, s

    def single_def(self, l):
        ds = [d for d in self.defs().get(l, ()) if not d.get("partial")]
        return ds[0] if len(ds) == 1 else None

    def resolve_copy(self, o, depth=12):
        """Follow trivial copies/moves/casts/refs-of-deref of an operand back to its origin operand."""
        while depth > 0:
            depth -= 1
            p = op_place(o)
            if p is None or p["proj"]:
                return o
            ds = self.defs().get(p["local"], [])
            if len(ds) != 1 or ds[0]["kind"] != "assign":
                return o
            rv = ds[0]["stmt"]["rv"]
            if rv["k"] == "use":
                o = rv["op"]
            elif rv["k"] == "cast" and ("Unsize" in rv["kind"] or "IntToInt" in rv["kind"]):
                o = rv["op"]
            else:
                return o
        return o

    def origin_def(self, o, through_refs=True, depth=16):
        """Def (dict) that ultimately produces operand o, looking through copies, unsize casts and
        `&(*x)` / `&x` re-borrows. Returns ('param', n) | ('const', c) | ('def', d) | None."""
        while depth > 0:
            depth -= 1
            c = op_const(o)
            if c is not None:
                return ("const", c)
            p = op_place(o)
            if p is None:
                return None
            l = p["local"]
            nonderef = [e for e in p["proj"] if e != "deref"]
            if len(nonderef) == 1 and isinstance(nonderef[0], dict) and "field" in nonderef[0] and not place_has_deref({"local": l, "proj": p["proj"][:1]}):
                # field of a tuple built in place: continue with the corresponding operand
                sd = [d for d in self.defs().get(l, []) if d["kind"] != "mutcall"]
                if len(sd) == 1 and sd[0]["kind"] == "assign" and sd[0]["stmt"]["rv"]["k"] == "aggregate" and sd[0]["stmt"]["rv"].get("tuple"):
                    ops = sd[0]["stmt"]["rv"]["ops"]
                    i = nonderef[0]["idx"]
                    if i < len(ops):
                        o = ops[i]
                        continue
            if nonderef:
                return ("place", p)
            ds = [d for d in self.defs().get(l, []) if d["kind"] != "mutcall"]
            if 1 <= l <= self.arg_count and not ds:
                return ("param", l)
            if len(ds) != 1:
                return ("multi", l)
            d = ds[0]
            if d["kind"] != "assign":
                return ("def", d)
            rv = d["stmt"]["rv"]
            if rv["k"] == "use":
                o = rv["op"]
            elif rv["k"] == "cast" and "Unsize" in rv["kind"]:
                o = rv["op"]
            elif rv["k"] == "ref" and through_refs:
                pl = rv["place"]
                if [e for e in pl["proj"] if e != "deref"]:
                    return ("place", pl)
                o = {"copy": {"local": pl["local"], "proj": []}}
            else:
                return ("def", d)
        return None

    # ---------------- conditions
    def cond_of_switch(self, a):
        """Normalised condition of switch block a: dict describing what the discriminant is.
        {'kind': 'call', 'callee':..., 'term':..., 'neg': bool}
        {'kind': 'binop', 'op':..., 'l':..., 'r':..., 'neg': bool}
        {'kind': 'discr', 'place':...}
        {'kind': 'local', 'local': n, 'neg': bool}"""
        t = self.term(a)
        if t["k"] != "switch":
            return None
        o = t["discr"]
        neg = False
        for _ in range(16):
            p = op_place(o)
            if p is None:
                return {"kind": "const", "const": o.get("const"), "neg": neg}
            if p["proj"]:
                return {"kind": "place", "place": p, "neg": neg}
            l = p["local"]
            ds = [d for d in self.defs().get(l, []) if d["kind"] != "mutcall"]
            if len(ds) != 1:
                return {"kind": "local", "local": l, "neg": neg, "ndefs": len(ds)}
            d = ds[0]
            if d["kind"] == "call":
                return {"kind": "call", "callee": d["term"].get("callee", ""), "term": d["term"], "block": d["block"], "neg": neg}
            if d["kind"] != "assign":
                return {"kind": "local", "local": l, "neg": neg}
            rv = d["stmt"]["rv"]
            if rv["k"] == "use":
                o = rv["op"]
                continue
            if rv["k"] == "unop" and rv["op"] == "Not":
                neg = not neg
                o = rv["x"]
                continue
            if rv["k"] == "binop":
                return {"kind": "binop", "op": rv["op"], "l": rv["l"], "r": rv["r"], "neg": neg, "block": d["block"]}
            if rv["k"] == "discr":
                return {"kind": "discr", "place": rv["place"], "neg": neg, "block": d["block"]}
            return {"kind": "rv", "rv": rv, "neg": neg}
        return None

    def truth_of_edge(self, a, s):
        """For a bool switch a and successor s: True/False for the *raw* discriminant (before 'neg')."""
        t = self.term(a)
        lab = self.edge_label(a, s)
        if lab is None:
            return None
        vals, other = lab
        if t.get("discr_ty") != "bool":
            return None
        if vals == [0] and not other:
            return False
        if other and not vals:
            # otherwise-edge of a switch that lists 0 -> means true
            listed = [v for v, _ in t["targets"]]
            if listed == [0]:
                return True
            if listed == [1]:
                return False
        if vals == [1] and not other:
            return True
        return None

    def span_of_block(self, b):
        return loc(self.blocks[b]["tspan"])

    def try_continue_block(self, call_block):
        """If the result of the call in `call_block` is consumed by `?` (Try::branch + switch), return the
        Continue-edge target block; else None."""
        t = self.term(call_block)
        if t["k"] != "call" or t.get("target") is None:
            return None
        dest = t["dest"]["local"]
        # look for Try::branch call on (move dest) in following blocks (allow an await/Yield loop in between)
        for bi, bt in self.calls(r"ops::Try::branch$|Try::branch$"):
            a0 = bt["args"][0]
            od = self.origin_def(a0)
            src_local = op_local(a0)
            hit = False
            if src_local == dest:
                hit = True
            elif od and od[0] == "def" and od[1].get("block") == call_block:
                hit = True
            if not hit:
                continue
            # switch on discriminant of the branch result
            nb = bt["target"]
            st = self.term(nb)
            if st["k"] != "switch":
                continue
            for v, bb in st["targets"]:
                if v == 0:
                    return bb
        # no `?`: the result is matched / consumed by a (desugared) combinator: the Ok (0) resp. Some (1) edge
        ty = self.local_ty(dest)
        want = 0 if ty.startswith("std::result::Result") else 1 if ty.startswith("std::option::Option") else None
        if want is not None:
            for a in sorted(self._reach):
                c = self.cond_of_switch(a)
                if c and c["kind"] == "discr":
                    pl = c["place"]
                    l = pl["local"]
                    # the switched local is the call result or a plain copy of it
                    for _ in range(4):
                        if l == dest:
                            break
                        d = self.single_def(l)
                        if d and d["kind"] == "assign" and d["stmt"]["rv"]["k"] == "use" and op_place(d["stmt"]["rv"]["op"]) and not op_place(d["stmt"]["rv"]["op"])["proj"]:
                            l = op_place(d["stmt"]["rv"]["op"])["local"]
                        else:
                            break
                    if l == dest and self.dominates(call_block, a):
                        st = self.term(a)
                        for v, bb in st["targets"]:
                            if v == want:
                                return bb
        return None


class Slice:
    def __init__(self, body):
        self.body = body
        self.locals = set()
        self.params = set()
        self.calls = []
        self.call_blocks = set()
        self.consts = []
        self.assigns = []
        self.aggs = []
        self.fieldreads = set()
        self.barriers = set()
        self.yields = []
        self.index_locals = set()

    def has_call(self, pat, resolved=None):
        return bool(self.find_calls(pat, resolved))

    def find_calls(self, pat, resolved=None):
        out = []
        for b, t in self.calls:
            if re.search(pat, t.get("callee", "")) and (resolved is None or re.search(resolved, t.get("resolved_full", t.get("resolved", "")))):
                out.append((b, t))
        return out

    def has_const_def(self, pat):
        return any(re.search(pat, c.get("def", "")) for c in self.consts)

    def const_values(self):
        return [const_value(c) for c in self.consts]

    def has_const_value(self, v):
        return v in self.const_values()

    def has_field(self, name):
        return any(name in fs for _, fs in self.fieldreads)

    def reads_field(self, name):
        """the like-named field of self, directly or through its accessor (`self.headers` / `self.headers()`)"""
        return self.has_field(name) or self.has_call(r"CanonicalRequest::%s$|SigV4Authenticator::%s$" % (name, name))

    def field_reads_of(self, local):
        return [fs for l, fs in self.fieldreads if l == local]

    def callee_names(self):
        return sorted({t.get("callee", "?") for _, t in self.calls})


# --------------------------------------------------------------------------------------------
# Facts
# --------------------------------------------------------------------------------------------
class Facts:
    def __init__(self, path, normalise=True):
        self.path = path
        self.j = json.load(open(path))
        if normalise:
            import inline

            self.j = inline.Normaliser(self.j).run()
        self.bodies = {}
        for b in self.j["bodies"]:
            self.bodies.setdefault(b["path"], []).append(b)
        # functions that only changed module keep answering to their reviewed path
        for newp, oldp in (self.j.get("moved") or {}).items():
            for p_ in list(self.bodies):
                if p_ == newp or p_.startswith(newp + "::{closure"):
                    self.bodies.setdefault(oldp + p_[len(newp):], self.bodies[p_])
        if self.j.get("moved"):
            # call sites name the callee by its reviewed path too (rules match callees by name)
            mv = self.j["moved"]
            for b in self.j["bodies"]:
                for blk in b["blocks"]:
                    t = blk["term"]
                    if t["k"] == "call":
                        for newp, oldp in mv.items():
                            if t.get("resolved") == newp or t.get("callee") == newp:
                                for k_ in ("callee", "callee_true", "callee_full", "resolved", "resolved_true", "resolved_full"):
                                    if isinstance(t.get(k_), str):
                                        t[k_] = t[k_].replace(newp, oldp)
                                t["renamed_from"] = newp
                    for st in blk["stmts"]:
                        if st["k"] == "assign":
                            rv = st["rv"]
                            for o in list(rv.get("ops") or []) + ([rv["op"]] if isinstance(rv.get("op"), dict) else []):
                                if isinstance(o, dict) and "const" in o and o["const"].get("fn") in mv:
                                    o["const"]["fn"] = mv[o["const"]["fn"]]
        self._cache = {}
        self.adts = {a["path"]: a for a in self.j["adts"]}
        self.impls = self.j["impls"]
        self.statics = self.j["statics"]
        self.traits = {t["path"]: t for t in self.j["traits"]}
        self.fns = {f["path"]: f for f in self.j["fns"]}

    def body(self, path, kind=None):
        """Exact path; AnchorMissing if absent or ambiguous."""
        key = (path, kind)
        if key in self._cache:
            return self._cache[key]
        c = self.bodies.get(path, [])
        if not c:
            # lifetime parameters spelled differently (`<'a, 'b>` vs `<'_, '_>`) name the same item
            norm = lambda p_: re.sub(r"'[A-Za-z_][A-Za-z0-9_]*", "'_", p_)
            if getattr(self, "_ltnorm", None) is None:
                self._ltnorm = {}
                for p_ in self.bodies:
                    self._ltnorm.setdefault(norm(p_), p_)
            alt = self._ltnorm.get(norm(path))
            if alt:
                c = self.bodies.get(alt, [])
        if kind:
            c = [b for b in c if b["kind"].startswith(kind)]
        if len(c) != 1:
            raise AnchorMissing("function `%s` not found (%d candidates)" % (path, len(c)))
        b = Body(c[0], self)
        self._cache[key] = b
        return b

    def find_bodies(self, pat, include_absorbed=False):
        out = []
        seen = set()
        for p, lst in self.bodies.items():
            if re.search(pat, p):
                for j in lst:
                    if j.get("absorbed") and not include_absorbed:
                        continue
                    if id(j) in seen:
                        continue  # the same body under its reviewed (pre-move) path
                    seen.add(id(j))
                    key = (p, id(j))
                    if key not in self._cache:
                        self._cache[key] = Body(j, self)
                    out.append(self._cache[key])
        return out

    def all_bodies(self):
        return self.find_bodies(r"")

    # ---------------- crate call graph (resolved callees, closures, trait impls, function items, fmt impls)
    def reachable_paths(self, entries=("signature::sigv4_validate_request",)):
        """Paths of the crate bodies reachable from the entry points. Over-approximate: an unresolved trait-method
        call reaches every impl of that method in the crate; a closure / function item mentioned in a reachable body
        is reachable; `{:?}` / `{}` of a crate type reaches its Debug / Display impl."""
        key = tuple(entries)
        if getattr(self, "_reach_cache", None) is None:
            self._reach_cache = {}
        if key in self._reach_cache:
            return self._reach_cache[key]
        by = {}
        for p_, lst in self.bodies.items():
            for j in lst:
                by.setdefault(j["path"], j)
                by.setdefault(p_, j)  # reviewed path of a moved / renamed function
        children = {}
        for p_, j in by.items():
            if j.get("parent"):
                children.setdefault(j["parent"], []).append(p_)
        seen = set()
        work = [e for e in entries if e in by]
        while work:
            p_ = work.pop()
            if p_ in seen:
                continue
            seen.add(p_)
            j = by[p_]
            nxt = list(children.get(p_, []))
            for blk in j["blocks"]:
                for st in blk["stmts"]:
                    if st["k"] == "assign":
                        rv = st["rv"]
                        if rv.get("closure"):
                            nxt.append(rv["closure"])
                        for o in rv.get("ops", []) or []:
                            if isinstance(o, dict) and "const" in o and o["const"].get("fn"):
                                nxt.append(o["const"]["fn"])
                        o = rv.get("op")
                        if isinstance(o, dict) and "const" in o and o["const"].get("fn"):
                            nxt.append(o["const"]["fn"])
                t = blk["term"]
                if t["k"] != "call":
                    continue
                for a in t.get("args", []):
                    if isinstance(a, dict) and "const" in a and a["const"].get("fn"):
                        nxt.append(a["const"]["fn"])
                r = t.get("resolved")
                c = t.get("callee", "")
                if r in by:
                    nxt.append(r)
                elif c in by:
                    nxt.append(c)
                if t.get("resolved_full") in by:
                    nxt.append(t["resolved_full"])
                if r == "GENERIC" or (r not in by and t.get("trait")):
                    m = c.split("::")[-1]
                    tr = t.get("trait") or "::".join(c.split("::")[:-1])
                    for q in by:
                        if q.endswith(">::" + m) and (" as " + tr + ">") in q.replace("<'", "<"):
                            nxt.append(q)
                        elif q.endswith(">::" + m) and tr.split("::")[-1] in q and " as " in q:
                            nxt.append(q)
                if re.search(r"fmt::rt::Argument::<'_>::new_(debug|display|lower_hex|upper_hex)$", c) and t.get("gargs"):
                    tys = [g for g in t["gargs"] if not g.startswith("'")]
                    ty = (tys[-1] if tys else "").lstrip("&").strip()
                    for q in by:
                        if q.startswith("<" + ty + " as std::fmt::") and q.endswith(">::fmt"):
                            nxt.append(q)
            work += [x for x in nxt if x in by and x not in seen]
        self._reach_cache[key] = seen
        return seen

    def new_and_unreachable(self, body):
        """A body that was not part of the reviewed tree and that validation can never execute: whole-crate
        inventories about validation outcomes do not apply to it (reviewed functions always stay in scope)."""
        import inline
        pin = inline.pinned_functions()
        if pin is None:
            return False
        base = re.sub(r"(::\{closure#\d+\})+$", "", body.path)
        if base in pin or body.path in pin or base in (self.j.get("moved") or {}):
            return False
        return body.path not in self.reachable_paths() and base not in self.reachable_paths()

    def coroutine_of(self, fn_path):
        """The async body (closure with coroutine_kind) whose parent is fn_path."""
        alias = {o: n for n, o in (self.j.get("moved") or {}).items()}
        c = list({id(b): b for p, lst in self.bodies.items() for b in lst if b.get("parent") in (fn_path, alias.get(fn_path)) and b.get("coroutine_kind")}.values())
        if len(c) != 1:
            raise AnchorMissing("async body of `%s` not found (%d candidates)" % (fn_path, len(c)))
        key = (c[0]["path"], "co")
        if key not in self._cache:
            self._cache[key] = Body(c[0], self)
        return self._cache[key]

    def closures_of(self, fn_path):
        return [self.find_bodies("^" + re.escape(b["path"]) + "$")[0] for p, lst in self.bodies.items() for b in lst if b.get("parent") == fn_path and b["kind"] == "Closure" and not b.get("absorbed")]

    def callers_of(self, pat):
        """[(Body, block, term)] of every call in the crate whose callee or resolved path matches pat."""
        out = []
        for b in self.all_bodies():
            for bi, t in b.calls():
                if re.search(pat, t.get("callee", "")) or re.search(pat, t.get("resolved", "")):
                    out.append((b, bi, t))
        return out
