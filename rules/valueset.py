"""K6: exhaustive finite-domain abstract evaluation of a loop-free MIR body whose result depends on one
small-domain parameter (u8). Every local is abstracted by the exact function {parameter value -> value}; the set of
parameter values reaching a block is refined at every SwitchInt / Assert. Any construct outside the handled set
raises AnchorMissing (fail closed) instead of guessing."""
from engine import AnchorMissing, op_place, op_const, const_value

U8_PRED = {
    "is_ascii_alphanumeric": lambda c: (48 <= c <= 57) or (65 <= c <= 90) or (97 <= c <= 122),
    "is_ascii_alphabetic": lambda c: (65 <= c <= 90) or (97 <= c <= 122),
    "is_ascii_digit": lambda c: 48 <= c <= 57,
    "is_ascii_uppercase": lambda c: 65 <= c <= 90,
    "is_ascii_lowercase": lambda c: 97 <= c <= 122,
    "is_ascii_hexdigit": lambda c: (48 <= c <= 57) or (65 <= c <= 70) or (97 <= c <= 102),
    "is_ascii_punctuation": lambda c: (33 <= c <= 47) or (58 <= c <= 64) or (91 <= c <= 96) or (123 <= c <= 126),
    "is_ascii_graphic": lambda c: 33 <= c <= 126,
    "is_ascii_whitespace": lambda c: c in (9, 10, 12, 13, 32),
    "is_ascii_control": lambda c: c < 32 or c == 127,
    "is_ascii": lambda c: c < 128,
}
BITS = {"u8": 8, "u16": 16, "u32": 32, "u64": 64, "usize": 64, "i32": 32, "i64": 64, "isize": 64, "i8": 8, "i16": 16, "char": 32}


class VS:
    def __init__(self, body, param=1, domain=range(256)):
        self.b = body
        self.param = param
        self.domain = list(domain)
        self.result = {}
        self.paths = 0
        if any(body.in_cycle(x) for x in body.live_blocks()):
            raise AnchorMissing("%s contains a loop: value-set evaluation not applicable" % body.path)

    def val(self, env, o, v):
        """Value of operand o for parameter value v."""
        c = op_const(o)
        if c is not None:
            cv = const_value(c)
            if cv is None and c.get("zst"):
                return ()
            if cv is None:
                raise AnchorMissing("%s: unevaluated constant %s" % (self.b.path, c.get("repr")))
            return cv
        p = op_place(o)
        return self.place(env, p, v)

    def place(self, env, p, v):
        l = p["local"]
        if l not in env or v not in env[l]:
            raise AnchorMissing("%s: local _%d has no known value" % (self.b.path, l))
        x = env[l][v]
        for e in p["proj"]:
            if e == "deref":
                if isinstance(x, tuple) and len(x) == 2 and x[0] == "&":
                    x = x[1]
                continue
            if isinstance(e, dict) and "field" in e:
                if isinstance(x, tuple):
                    x = x[e["idx"]]
                    continue
                raise AnchorMissing("%s: field projection on non-tuple" % self.b.path)
            if isinstance(e, dict) and "index" in e:
                i = env[e["index"]][v]
                x = x[i]
                continue
            if isinstance(e, dict) and "constindex" in e:
                x = x[e["constindex"]]
                continue
            raise AnchorMissing("%s: unsupported projection %r" % (self.b.path, e))
        return x

    def rvalue(self, env, rv, v, dest_ty):
        k = rv["k"]
        if k == "use":
            return self.val(env, rv["op"], v)
        if k == "ref":
            return ("&", self.place(env, rv["place"], v))
        if k == "cast":
            x = self.val(env, rv["op"], v)
            if isinstance(x, bool):
                x = int(x)
            if isinstance(x, int):
                bits = BITS.get(rv["ty"])
                if bits is None:
                    raise AnchorMissing("%s: cast to %s" % (self.b.path, rv["ty"]))
                return x & ((1 << bits) - 1)
            return x
        if k == "unop":
            x = self.val(env, rv["x"], v)
            if rv["op"] == "Not":
                return (not x) if isinstance(x, bool) else (~x) & 0xFF
            raise AnchorMissing("%s: unary %s" % (self.b.path, rv["op"]))
        if k == "binop":
            a, c = self.val(env, rv["l"], v), self.val(env, rv["r"], v)
            op = rv["op"]
            if isinstance(a, bytes) and len(a) == 1:
                a = a[0]
            f = {
                "Eq": lambda: a == c, "Ne": lambda: a != c, "Lt": lambda: a < c, "Le": lambda: a <= c, "Gt": lambda: a > c, "Ge": lambda: a >= c,
                "BitAnd": lambda: a & c, "BitOr": lambda: a | c, "BitXor": lambda: a ^ c, "Shr": lambda: a >> c, "Shl": lambda: (a << c),
                "Add": lambda: a + c, "Sub": lambda: a - c, "Mul": lambda: a * c,
                "AddWithOverflow": lambda: (a + c, False), "SubWithOverflow": lambda: (a - c, a < c),
            }.get(op)
            if f is None:
                raise AnchorMissing("%s: binary %s" % (self.b.path, op))
            r = f()
            if op in ("Shl", "Add", "Mul") and dest_ty in BITS:
                r &= (1 << BITS[dest_ty]) - 1
            return r
        if k == "aggregate":
            return tuple(self.val(env, o, v) for o in rv["ops"])
        if k == "discr":
            raise AnchorMissing("%s: discriminant read" % self.b.path)
        raise AnchorMissing("%s: rvalue kind %s" % (self.b.path, k))

    def run(self):
        env = {self.param: {v: v for v in self.domain}}
        self.walk(0, set(self.domain), env, 0)
        if set(self.result) != set(self.domain):
            raise AnchorMissing("%s: %d parameter values do not reach a return" % (self.b.path, len(set(self.domain) - set(self.result))))
        return self.result

    def walk(self, blk, S, env, depth):
        if not S:
            return
        if depth > 400:
            raise AnchorMissing("%s: path too long" % self.b.path)
        b = self.b.blocks[blk]
        env = dict(env)
        for s in b["stmts"]:
            if s["k"] != "assign":
                raise AnchorMissing("%s: statement %s" % (self.b.path, s["k"]))
            d = s["place"]
            if d["proj"]:
                raise AnchorMissing("%s: assignment to a projection" % self.b.path)
            ty = self.b.local_ty(d["local"])
            env[d["local"]] = {v: self.rvalue(env, s["rv"], v, ty) for v in S}
        t = b["term"]
        k = t["k"]
        if k == "goto":
            return self.walk(t["target"], S, env, depth + 1)
        if k == "return":
            self.paths += 1
            for v in S:
                self.result[v] = env[0][v]
            return
        if k == "switch":
            parts = {}
            for v in S:
                x = self.val(env, t["discr"], v)
                x = int(x) if isinstance(x, bool) else x
                tgt = t["otherwise"]
                for vv, bb in t["targets"]:
                    if vv == x:
                        tgt = bb
                parts.setdefault(tgt, set()).add(v)
            for tgt, S2 in parts.items():
                self.walk(tgt, S2, env, depth + 1)
            return
        if k == "assert":
            bad = {v for v in S if bool(self.val(env, t["cond"], v)) != t["expected"]}
            if bad:
                raise AnchorMissing("%s: run-time check %s can fail for parameter values %s" % (self.b.path, t["kind"], sorted(bad)[:5]))
            return self.walk(t["target"], S, env, depth + 1)
        if k == "call":
            name = t.get("callee", "").split("::")[-1]
            if name in U8_PRED and "num::<impl u8>" in t.get("callee", ""):
                vals = {}
                for v in S:
                    x = self.val(env, t["args"][0], v)
                    if isinstance(x, tuple) and x and x[0] == "&":
                        x = x[1]
                    vals[v] = U8_PRED[name](x)
                env[t["dest"]["local"]] = vals
                return self.walk(t["target"], S, env, depth + 1)
            raise AnchorMissing("%s: call to `%s` has no value-set summary" % (self.b.path, t.get("callee")))
        raise AnchorMissing("%s: terminator %s" % (self.b.path, k))


def eval_u8_fn(body, param=1):
    vs = VS(body, param)
    res = vs.run()
    return res, vs.paths
