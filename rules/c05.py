"""C05 Mandatory signed headers are enforced before a request can be accepted."""
from lib import *
from registry import Module

M = Module(
    "C05",
    "Mandatory signed headers",
    "Guard/provenance rules over CanonicalRequest::get_auth_parameters: the host rule rejects unless a signed-header element equals 'host' or "
    "':authority'; every accessor of the SignedHeaderRequirements trait is consulted through the caller's S; for each accessor there is a "
    "SignatureDoesNotMatch exit guarded by `!signed_headers.contains(x)` where x is the lower-cased declared name (or a request header name "
    "that starts_with the lower-cased prefix), the conditional one additionally guarded by presence in the request; all of them dominate "
    "Ok(params) and the authenticator construction; both requirement containers return / update the like-named list only.",
    ["String::to_lowercase is Unicode lower-casing (header names are ASCII)", "slice::contains / str::starts_with are exact"],
)

GAP = "canonical::CanonicalRequest::get_auth_parameters"
TRAIT = "canonical::SignedHeaderRequirements"


def signed_headers_of_params(b, sl):
    return sl.has_field("signed_headers")


@M.rule("C05-R1", "host rule: reject unless 'host' or ':authority' is in the signed-header list")
def r1(ctx):
    b = ctx.fn(GAP)
    errs = [(bi, i, s) for bi, i, s in err_sites(b, "SignatureDoesNotMatch") if b.slice_op(s["rv"]["ops"][0]).has_const_def(r"MSG_HOST_AUTHORITY_MUST_BE_SIGNED$")]
    e = one(errs, "host/:authority error exit")
    flag = None
    for a, s, c, truth in guard_conditions(b, e[0]):
        if c["kind"] == "local" and b.local_ty(c["local"]) == "bool":
            t = b.truth_of_edge(a, s)
            if c.get("neg"):
                t = not t
            flag = (c["local"], t, a)
    ctx.count()
    if flag is None:
        # sibling idiom: membership tests instead of a flag loop - `!set.contains("host") && !set.contains(":authority")`
        conds = [(a, c, truth) for a, s, c, truth in guard_conditions(b, e[0]) if c["kind"] != "discr"]
        names = set()
        okm = bool(conds)
        for a, c, truth in conds:
            if c["kind"] == "call" and re.search(r"(HashSet::<T, S, A>|BTreeSet::<T, A>|slice::<impl \[T\]>|Vec::<T, A>)::contains$", c["callee"]) and truth is False:
                t = c["term"]
                coll, key = b.slice_op(t["args"][0]), b.slice_op(t["args"][1])
                cv = [v_ for v_ in key.const_values() if isinstance(v_, str)]
                lossy = coll.has_call(r"Iterator::(filter|filter_map|skip|take|step_by|skip_while|take_while)$|to_(ascii_)?(lower|upper)case$|trim\w*$")
                if signed_headers_of_params(b, coll) and len(cv) == 1 and not key.params and not lossy:
                    names.add(cv[0])
                    continue
            okm = False
        if okm and names == {"host", ":authority"}:
            yield PASS("C05-R1", "get_auth_parameters/host-guard", "Err(SignatureDoesNotMatch(MSG_HOST_AUTHORITY_MUST_BE_SIGNED)) iff neither \"host\" nor \":authority\" is a member of the signed-header list", [site(b, e[0], "Err")])
            yield PASS("C05-R1", "get_auth_parameters/host-flag", "membership tests on the signed-header list itself (no flag)", [])
            return
    if flag is None or flag[1] is not False:
        yield VIOL("C05-R1", "get_auth_parameters/host-guard", "the host error exit is not taken exactly when the found-host flag is false", where=b.span_of_block(e[0]))
        return
    fl = flag[0]
    consts_true = []
    bad = False
    for d in b.defs().get(fl, []):
        if d["kind"] != "assign" or d["stmt"]["rv"]["k"] != "use" or op_const(d["stmt"]["rv"]["op"]) is None:
            bad = True
            continue
        v = const_value(d["stmt"]["rv"]["op"]["const"])
        if v == 1:
            # must be guarded by equality with 'host' / ':authority' of a signed header element; every DIRECT way into the
            # block (the arms of a `||`) must be such an equality
            names = set()

            def direct_ok(blk, depth=0):
                """every direct way into blk is an allowed equality (or a bool local that is itself only set true that way)"""
                okd = True
                for (a, s) in b.control_deps().get(blk, ()):
                    c = b.cond_of_switch(a)
                    tr = b.truth_of_edge(a, s)
                    if c and c.get("neg") and tr is not None:
                        tr = not tr
                    if c and c["kind"] == "call" and re.search(r"PartialEq::eq$", c["callee"]) and tr is True:
                        continue
                    if c and c["kind"] == "discr":
                        continue  # iterator Some edge
                    if c and c["kind"] == "local" and b.local_ty(c["local"]) == "bool" and tr is True and depth < 3:
                        for d2 in b.defs().get(c["local"], []):
                            if d2["kind"] == "assign" and d2["stmt"]["rv"]["k"] == "use" and op_const(d2["stmt"]["rv"]["op"]) is not None:
                                if const_value(d2["stmt"]["rv"]["op"]["const"]) == 1 and not direct_ok(d2["block"], depth + 1):
                                    okd = False
                            elif d2["kind"] == "call" and re.search(r"PartialEq::eq$", d2["term"]["callee"]):
                                continue
                            else:
                                okd = False
                        continue
                    okd = False
                return okd

            if not direct_ok(d["block"]):
                bad = True
            eq_terms = []
            for a, s, c, truth in guard_conditions(b, d["block"]):
                if c["kind"] == "call" and re.search(r"PartialEq::eq$", c["callee"]) and truth is True:
                    eq_terms.append(c["term"])
                elif c["kind"] == "local" and b.local_ty(c["local"]) == "bool" and truth is True:
                    # predicate computed into a bool (desugared `any(|h| h == "host" || ..)`): equalities feeding it
                    eq_terms += [t_ for _, t_ in b.slice([c["local"]]).find_calls(r"PartialEq::eq$")]
            for t in eq_terms:
                if True:
                    s0, s1 = b.slice_op(t["args"][0]), b.slice_op(t["args"][1])
                    for x, y in ((s0, s1), (s1, s0)):
                        cv = [v_ for v_ in y.const_values() if isinstance(v_, str)]
                        if signed_headers_of_params(b, x) and cv and not y.params and not y.calls:
                            names |= set(cv)
            if not names or not names <= {"host", ":authority"}:
                bad = True
            consts_true.append(sorted(names))
    if bad or not consts_true:
        yield VIOL("C05-R1", "get_auth_parameters/host-flag", "found-host flag can become true other than by a signed-header element equalling 'host' or ':authority' (%s)" % consts_true, where=b.span_of_block(flag[2]))
    else:
        yield PASS("C05-R1", "get_auth_parameters/host-rule", "Err(SignatureDoesNotMatch(MSG_HOST..)) iff no signed-header element == 'host' / ':authority'", [site(b, e[0], "host exit")])


def scc_of(b, x):
    scc = {y for y in b.live_blocks() if b.reachable_strict(x, y) and b.reachable_strict(y, x)}
    return None, scc


def loop_of_exit(b, err_block):
    """Blocks of the innermost loop from which the error exit leaves: SCC of its nearest guard."""
    for a, s in b.control_deps().get(err_block, ()):
        return scc_of(b, a)[1]
    return set()


def requirement_sites(b):
    """{accessor: [(err_block, stmt, facts dict)]}"""
    out = {}
    for bi, i, s in err_sites(b, "SignatureDoesNotMatch"):
        if b.slice_op(s["rv"]["ops"][0]).has_const_def(r"MSG_HOST_AUTHORITY_MUST_BE_SIGNED$"):
            continue
        if not s["rv"]["ops"] or not b.slice_op(s["rv"]["ops"][0]).calls:
            continue  # the both-carriers exit (None payload)
        info = {"contains": None, "starts_with": None, "contains_key": None, "accessors": set()}
        lp = loop_of_exit(b, bi)
        for a, sx, c, truth in guard_conditions(b, bi):
            if c["kind"] != "call" or (lp and a not in lp):
                continue
            t = c["term"]
            cal = c["callee"]
            kind = None
            if re.search(r"slice::<impl \[T\]>::contains$|Vec::<T, A>::contains$|HashSet::<T, S, A>::contains$|BTreeSet::<T, A>::contains$", cal):
                kind = "contains"  # the list itself or a set built from it (same membership)
            elif re.search(r"str>::starts_with$", cal):
                kind = "starts_with"
            elif re.search(r"HashMap::<K, V, S, A>::contains_key$", cal):
                kind = "contains_key"
            # guards are transitive (earlier loops' conditions are guards too): keep the nearest one, and only
            # those that belong to the same loop as the exit or directly guard it
            if kind and (info[kind] is None or b.dominates(info[kind][2], a)):
                h1, scc1 = scc_of(b, a)
                if bi in scc1 or any(x in scc1 for x in b.pred(bi)) or b.reachable_strict(bi, bi) or True:
                    info[kind] = (t, truth, a)
        # which accessor feeds this loop
        allsl = []
        for k in ("contains", "starts_with", "contains_key"):
            if info[k]:
                for ar in info[k][0]["args"]:
                    allsl.append(b.slice_op(ar))
        for sl in allsl:
            for cb, ct in sl.find_calls(r"SignedHeaderRequirements::\w+$"):
                info["accessors"].add(ct["callee"].split("::")[-1])
        key = "+".join(sorted(info["accessors"])) or "?"
        out.setdefault(key, []).append((bi, s, info))
    return out


@M.rule("C05-R2", "every accessor of the requirements trait is consulted on the caller's S")
def r2(ctx):
    tr = ctx.facts.traits.get(TRAIT)
    if tr is None:
        raise AnchorMissing("trait " + TRAIT)
    methods = [x.split("::")[-1] for x in tr["items"]]
    b = ctx.fn(GAP)
    req = param_by_name(b, "signed_header_requirements")
    seen = {}
    for bi, t in b.calls(r"^canonical::SignedHeaderRequirements::\w+$"):
        if t.get("resolved") != "GENERIC" or req not in b.slice_op(t["args"][0]).locals:
            continue
        seen.setdefault(t["callee"].split("::")[-1], []).append(bi)
    ctx.count(len(methods))
    if len(methods) < 3:
        yield MISSING("C05-R2", "trait/floor", "SignedHeaderRequirements has %d methods (3 confirmed by hand)" % len(methods))
    for m in methods:
        if m not in seen:
            yield VIOL("C05-R2", "get_auth_parameters/accessor-not-consulted/" + m, "requirement accessor `%s` is never consulted during validation" % m, where=loc(b.j["span"]))
        else:
            yield PASS("C05-R2", "get_auth_parameters/accessor/" + m, "consulted on the caller's requirement set", [site(b, seen[m][0], m)])


@M.rule("C05-R3", "each requirement loop rejects a request whose signed-header list lacks the (lower-cased) required name")
def r3(ctx):
    b = ctx.fn(GAP)
    sites = requirement_sites(b)
    ctx.count(sum(len(v) for v in sites.values()))
    want = {"always_present", "if_in_request", "prefixes"}
    for acc in want:
        ss = sites.get(acc, [])
        if len(ss) != 1:
            yield VIOL("C05-R3", "get_auth_parameters/%s/exit-count" % acc, "expected one SignatureDoesNotMatch exit fed by `%s`, found %d (all: %s)" % (acc, len(ss), {k: len(v) for k, v in sites.items()}), where=loc(b.j["span"]))
            continue
        bi, s, info = ss[0]
        problems = []
        if not info["contains"] or info["contains"][1] is not False:
            problems.append("exit is not guarded by `!signed_headers.contains(..)`")
        else:
            t = info["contains"][0]
            hay, needle = b.slice_op(t["args"][0]), b.slice_op(t["args"][1])
            if not hay.has_field("signed_headers"):
                problems.append("membership is not tested on params.signed_headers")
            if acc in ("always_present", "if_in_request"):
                if not (needle.has_call(r"str>::to_lowercase$") and needle.has_call(r"SignedHeaderRequirements::%s$" % acc)):
                    problems.append("the name looked up is not the lower-cased declared name")
            else:
                if not (needle.has_call(r"HashMap::<K, V, S, A>::keys$") and needle.reads_field("headers")):
                    problems.append("the name looked up is not a request header name (self.headers.keys())")
        if acc == "if_in_request":
            ck = info["contains_key"]
            if not ck or ck[1] is not True:
                problems.append("exit is not conditional on the header being present in the request (contains_key)")
            else:
                t = ck[0]
                m, k = b.slice_op(t["args"][0]), b.slice_op(t["args"][1])
                if not m.reads_field("headers") or not (k.has_call(r"str>::to_lowercase$") and k.has_call(r"SignedHeaderRequirements::if_in_request$")):
                    problems.append("presence is not tested on self.headers with the lower-cased declared name")
        elif info["contains_key"]:
            problems.append("unexpected presence condition")
        if acc == "prefixes":
            sw = info["starts_with"]
            if not sw or sw[1] is not True:
                problems.append("exit is not conditional on `request_header.starts_with(prefix)`")
            else:
                t = sw[0]
                subj, pref = b.slice_op(t["args"][0]), b.slice_op(t["args"][1])
                if not (subj.has_call(r"HashMap::<K, V, S, A>::keys$") and subj.reads_field("headers")):
                    problems.append("starts_with is not applied to a request header name")
                if not (pref.has_call(r"str>::to_lowercase$") and pref.has_call(r"SignedHeaderRequirements::prefixes$")):
                    problems.append("the prefix compared is not the lower-cased declared prefix")
        elif info["starts_with"]:
            problems.append("unexpected starts_with condition")
        # inside the requirement loop nothing else decides whether an entry is enforced: the only conditions between the
        # loop head and the exit are the iteration itself and the membership / presence / prefix tests above (an extra
        # `if entry.is_empty() { continue }`, a length test, a flag .. silently exempts declared requirements)
        lp_ = loop_of_exit(b, bi)
        extra_ = []
        for a_, sx_, c_, tr_ in guard_conditions(b, bi):
            if not lp_ or a_ not in lp_ or c_["kind"] == "discr":
                continue
            cal_ = c_.get("callee", "")
            if c_["kind"] == "call" and re.search(r"slice::<impl \[T\]>::contains$|Vec::<T, A>::contains$|HashSet::<T, S, A>::contains$|BTreeSet::<T, A>::contains$", cal_):
                if b.slice_op(c_["term"]["args"][0]).has_field("signed_headers"):
                    continue  # membership in the signed-header list (or a set built from it)
                extra_.append("contains on something other than the signed-header list")
                continue
            if c_["kind"] == "call" and re.search(r"str>::starts_with$|HashMap::<K, V, S, A>::contains_key$|Iterator::any$|Option::<T>::is_(some|none)$|HashMap::<K, V, S, A>::get$", cal_):
                continue
            extra_.append((cal_ or c_.get("op") or c_["kind"]).split("::")[-1])
        if extra_:
            problems.append("an additional condition inside the requirement loop decides whether an entry is enforced (%s)" % sorted(set(extra_)))
        if problems:
            yield VIOL("C05-R3", "get_auth_parameters/%s" % acc, "; ".join(problems), where=b.span_of_block(bi))
        else:
            yield PASS("C05-R3", "get_auth_parameters/%s" % acc, "Err(SignatureDoesNotMatch) under the required conditions (lower-cased, membership in signed_headers)", [site(b, bi, acc)])
    # the requirement lists are enforced in full: no adaptor truncates/filters the iteration
    for bi, t in b.calls(r"Iterator::(take|skip|filter|filter_map|step_by|skip_while|take_while|rev|nth|last|find|position)$|slice::<impl \[T\]>::(first|last|get|split_at|split_first|split_last|chunks\w*)$"):
        sl = b.slice_op(t["args"][0])
        if sl.has_call(r"SignedHeaderRequirements::\w+$") or sl.has_field("signed_headers"):
            yield VIOL("C05-R3", "get_auth_parameters/list-adaptor:" + t["callee"].split("::")[-1], "a requirement list / the signed-header list passes through `%s` before being enforced (entries can be skipped)" % t["callee"], where=b.span_of_block(bi))
    for k in sites:
        if k not in want:
            yield VIOL("C05-R3", "get_auth_parameters/unattributed-exit/" + k, "a signed-header error exit is fed by accessor set `%s`" % k, where=b.span_of_block(sites[k][0][0]))


@M.rule("C05-R4", "the requirement checks lie on the only path to acceptance")
def r4(ctx):
    b = ctx.fn(GAP)
    oks = result_aggs(b, "Ok")
    if not oks:
        raise AnchorMissing("Ok(params) in get_auth_parameters")
    ctx.count()
    missing = []
    # every success return (a "fast path" is one too) lies behind all requirement accessors
    for extra_ok in oks[1:]:
        lacking = [t["callee"].split("::")[-1] for bi, t in b.calls(r"^canonical::SignedHeaderRequirements::\w+$") if not b.dominates(bi, extra_ok[0])]
        if lacking:
            yield VIOL("C05-R4", "get_auth_parameters/early-ok", "an additional Ok(..) return is reachable without consulting %s: requests taking it skip those signed-header requirements" % sorted(set(lacking)), where=b.span_of_block(extra_ok[0]))
            return
    ok = oks[0]
    for bi, t in b.calls(r"^canonical::SignedHeaderRequirements::\w+$"):
        if not b.dominates(bi, ok[0]):
            missing.append(t["callee"].split("::")[-1])
    # host decision dominates Ok
    e = [x for x in err_sites(b, "SignatureDoesNotMatch") if b.slice_op(x[2]["rv"]["ops"][0]).has_const_def(r"MSG_HOST_AUTHORITY_MUST_BE_SIGNED$")]
    hostdec = None
    if e:
        # the decision may be a chain (`!has("host") && !has(":authority")`): its first test is the one every path meets
        gs = [a for a, s_, c, tr in guard_conditions(b, e[0][0]) if c["kind"] == "call" and re.search(r"::contains$", c["callee"])] or [a for a, s_ in b.control_deps().get(e[0][0], ())]
        for a in gs:
            if hostdec is None or b.dominates(a, hostdec):
                hostdec = a
    if hostdec is None or not b.dominates(hostdec, ok[0]):
        missing.append("host rule")
    if missing:
        yield VIOL("C05-R4", "get_auth_parameters/ok-bypasses", "Ok(params) is reachable without passing: %s" % missing, where=b.span_of_block(ok[0]))
    else:
        yield PASS("C05-R4", "get_auth_parameters/ok-dominated", "host rule and all requirement loops dominate Ok(params)", [site(b, ok[0], "Ok")])
    # Ok payload is the params extracted from this request
    pay = b.slice_op(ok[2]["rv"]["ops"][0])
    if not (pay.has_call(r"get_auth_parameters_from_auth_header$") or pay.has_call(r"get_auth_parameters_from_query_parameters$")):
        yield VIOL("C05-R4", "get_auth_parameters/ok-payload", "returned parameters are not the ones extracted from the request", where=b.span_of_block(ok[0]))
    else:
        yield PASS("C05-R4", "get_auth_parameters/ok-payload", "Ok(params) returns the extracted parameters that were checked", [])


@M.rule("C05-R5", "requirement containers: accessors return, and add_/remove_ update, the like-named list only")
def r5(ctx):
    lists = ("always_present", "if_in_request", "prefixes")
    n = 0
    for ty in ("canonical::SliceSignedHeaderRequirements<'a, 'b, 'c>", "canonical::VecSignedHeaderRequirements"):
        for m in lists:
            p = "<%s as canonical::SignedHeaderRequirements>::%s" % (ty, m)
            f = ctx.fn(p)
            n += 1
            pr_ = accessor_problems(f, m)
            if pr_:
                yield VIOL("C05-R5", "accessor/%s" % p, "accessor `%s` does not hand back self.%s as stored: %s" % (m, m, "; ".join(pr_)), where=loc(f.j["span"]))
            else:
                yield PASS("C05-R5", "accessor/%s" % p, "returns self.%s" % m, [loc(f.j["span"])])
    # Vec container mutators
    single = {"always_present": "always_present", "if_in_request": "if_in_request", "prefix": "prefixes"}
    for op in ("add", "remove"):
        for short, field in single.items():
            p = "canonical::VecSignedHeaderRequirements::%s_%s" % (op, short)
            f = ctx.fn(p)
            n += 1
            touched = set()
            for bi, i, s in f.stmts():
                if s["k"] != "assign":
                    continue
                ops, places = rv_operands(s["rv"])
                for pl in [op_place(o) for o in ops] + places + [s["place"]]:
                    if pl is not None:
                        for fl in place_fields(pl):
                            if fl in lists:
                                touched.add(fl)
            if touched != {field}:
                yield VIOL("C05-R5", "mutator/%s" % p, "`%s_%s` touches list(s) %s (must be exactly `%s`)" % (op, short, sorted(touched), field), where=loc(f.j["span"]))
                continue
            grow = [t["callee"] for bi, t in f.calls(r"Vec::<T, A>::(push|insert|extend|append)$")]
            shrink = [t["callee"] for bi, t in f.calls(r"Vec::<T, A>::(retain|remove|clear|truncate|pop|drain|swap_remove|dedup\w*|retain_mut)$")]
            # an add_* may skip the push only for an entry EQUAL to the (lower-cased) new name: a weaker test
            # (starts_with / contains / a length comparison) silently drops a distinct requirement
            weak = []
            if op == "add":
                pushes_ = [bi for bi, t in f.calls(r"Vec::<T, A>::(push|insert|extend|append)$")]
                for pb in pushes_:
                    for a_, s_, c_, tr_ in guard_conditions(f, pb):
                        if c_["kind"] == "call" and re.search(r"(starts_with|ends_with|str>::contains|strip_prefix|find|matches)$|PartialOrd::\w+$", c_["callee"]):
                            weak.append(c_["callee"].split("::")[-1])
                        elif c_["kind"] == "binop" and c_["op"] in ("Lt", "Le", "Gt", "Ge"):
                            weak.append(c_["op"])
                for bi, t in f.calls(r"str>::(starts_with|ends_with|contains|strip_prefix|find)$"):
                    weak.append(t["callee"].split("::")[-1])
            UPPER = r"to_ascii_uppercase$|str>::to_uppercase$|make_ascii_uppercase$"
            LOWERC = r"to_ascii_lowercase$|str>::to_lowercase$"
            if op == "add" and not weak:
                # polarity: the push is reached only when every equality test with an existing entry came out FALSE
                for pb in pushes_:
                    # (the test sits in the scan loop, so the push is not control-dependent on it in the forward sense:
                    # look at each equality switch and at which of its edges can no longer reach the push)
                    for a_ in sorted(f.live_blocks()):
                        c_ = f.cond_of_switch(a_)
                        if not (c_ and c_["kind"] == "call" and re.search(r"PartialEq::(eq|ne)$", c_["callee"])):
                            continue
                        for s_ in f.succ(a_):
                            tr_ = f.truth_of_edge(a_, s_)
                            if tr_ is not None and c_.get("neg"):
                                tr_ = not tr_
                            if tr_ is None or f.reachable(s_, pb) or s_ == pb:
                                continue
                            equal_edge = (c_["callee"].endswith("::eq") and tr_ is True) or (c_["callee"].endswith("::ne") and tr_ is False)
                            if not equal_edge:
                                weak.append("skips when an existing entry DIFFERS from the new one (`%s` taken as %s)" % (c_["callee"].split("::")[-1], tr_))
                    # what is stored is the argument itself (as given or lower-cased: the enforcement code lower-cases again)
                    psl = f.slice_op(f.term(pb)["args"][1])
                    if psl.has_call(UPPER) or 2 not in psl.params or [c for c in psl.callee_names() if not re.search(LOWERC + r"|ToString::to_string$|to_owned$|ToOwned::to_owned$|String::from$|From::from$|Into::into$|Deref::deref$", c)]:
                        weak.append("the stored name is not the argument (as given or lower-cased)")
            if op == "add" and not weak:
                # ... and an existing entry that DIFFERS never ends the scan: from the Some edge of the scan loop the push is
                # still reachable (`if true { return }` / an unconditional return inside the loop drops every later add)
                for nb_, nt_ in f.calls(r"Iterator::next$"):
                    st_ = f.term(nt_["target"]) if nt_.get("target") is not None else None
                    some_ = [bb for v, bb in st_["targets"] if v == 1] if st_ and st_["k"] == "switch" else []
                    if some_ and pushes_ and not any(f.reachable(some_[0], pb) for pb in pushes_):
                        weak.append("the scan of the existing entries returns on the first entry whatever it is")
            if op == "remove":
                # retain(|h| lower(h) != lower(argument)): both sides in the same (lower) case, entries that DIFFER are kept
                rt = f.calls(r"Vec::<T, A>::retain$")
                okr = False
                if len(rt) == 1 and not f.calls(UPPER):
                    cd = f.origin_def(rt[0][1]["args"][1])
                    if cd and cd[0] == "def" and cd[1]["kind"] == "assign" and cd[1]["stmt"]["rv"].get("closure"):
                        kb = ctx.facts.find_bodies("^" + re.escape(cd[1]["stmt"]["rv"]["closure"]) + "$", include_absorbed=True)
                        if kb and not kb[0].calls(UPPER):
                            k = kb[0]
                            rd = k.origin_def({"move": {"local": 0, "proj": []}})
                            neg = False
                            if rd and rd[0] == "def" and rd[1]["kind"] == "assign" and rd[1]["stmt"]["rv"]["k"] == "unop" and rd[1]["stmt"]["rv"].get("op") == "Not":
                                neg = True
                                rd = k.origin_def(rd[1]["stmt"]["rv"]["x"])
                            if rd and rd[0] == "def" and rd[1]["kind"] == "call" and re.search(r"PartialEq::(eq|ne)$", rd[1]["term"]["callee"]):
                                keeps_diff = rd[1]["term"]["callee"].endswith("::ne") != neg
                                sides = [k.slice_op(x) for x in rd[1]["term"]["args"]]
                                elem_side = [sl_ for sl_ in sides if 2 in sl_.params or 2 in sl_.locals]
                                # both sides lower-cased: the element inside the closure, the argument in the function
                                okr = keeps_diff and bool(elem_side) and elem_side[0].has_call(LOWERC) and bool(f.calls(LOWERC))
                            elif rd and rd[0] == "def" and rd[1]["kind"] == "call" and re.search(r"eq_ignore_ascii_case$", rd[1]["term"]["callee"]):
                                # sibling: retain(|h| !h.eq_ignore_ascii_case(argument))
                                sides = [k.slice_op(x) for x in rd[1]["term"]["args"]]
                                okr = neg and any(2 in sl_.params or 2 in sl_.locals for sl_ in sides) and not k.calls(LOWERC) and not f.calls(LOWERC)
                if not okr:
                    yield VIOL("C05-R5", "mutator/%s/retain-condition" % p, "`remove_%s` does not keep exactly the entries whose lower-cased form differs from the lower-cased argument (retain predicate / case handling changed): a removal is ignored or removes the wrong entries" % short, where=loc(f.j["span"]))
                    continue
            if op == "add" and weak:
                yield VIOL("C05-R5", "mutator/%s/skip-condition" % p, "`add_%s` skips the new entry on a test weaker than equality with an existing one (%s): a distinct requirement can be dropped" % (short, sorted(set(weak))), where=loc(f.j["span"]))
            elif op == "add" and (shrink or not grow):
                yield VIOL("C05-R5", "mutator/%s" % p, "`add_%s` does not only grow its list (grow %s, shrink %s)" % (short, grow, shrink), where=loc(f.j["span"]))
            elif op == "remove" and grow:
                yield VIOL("C05-R5", "mutator/%s" % p, "`remove_%s` grows a list" % short, where=loc(f.j["span"]))
            else:
                yield PASS("C05-R5", "mutator/%s" % p, "touches self.%s only" % field, [loc(f.j["span"])])
    # constructors map parameter i to field i
    for cp, adt in (("canonical::SliceSignedHeaderRequirements::<'a, 'b, 'c>::new", r"SliceSignedHeaderRequirements$"), ("canonical::VecSignedHeaderRequirements::new", r"VecSignedHeaderRequirements$")):
        f = ctx.fn(cp)
        ag = one(f.aggregates(adt=adt), "struct construction in " + cp)
        rv = ag[2]["rv"]
        okc = True
        for fname, opnd in zip(rv["fields"], rv["ops"]):
            pl = param_by_name(f, fname)
            sl = f.slice_op(opnd)
            others = {param_by_name(f, x) for x in lists if x != fname}
            if pl not in sl.locals or sl.locals & others:
                okc = False
                yield VIOL("C05-R5", "ctor/%s/%s" % (cp, fname), "field `%s` is not initialised from the like-named parameter only" % fname, where=loc(ag[2]["span"]))
            trunc = [c_ for c_ in sl.callee_names() if re.search(r"Iterator::(take|skip|take_while|skip_while|step_by|filter|filter_map|nth|last|find|dedup\w*|peekable|fuse|scan|map_while)$|slice::<impl \[T\]>::(first|last|get|split_\w+|chunks\w*|windows)$|Vec::<T, A>::(truncate|pop|remove|retain|drain|dedup\w*)$", c_)]
            if trunc:
                okc = False
                yield VIOL("C05-R5", "ctor/%s/%s/truncated" % (cp, fname), "field `%s` does not receive every entry of the parameter (passes through %s): a declared requirement is dropped at construction" % (fname, sorted(set(x.split("::")[-1] for x in trunc))), where=loc(ag[2]["span"]))
        n += 1
        if okc:
            yield PASS("C05-R5", "ctor/" + cp, "each list initialised from the like-named parameter", [loc(f.j["span"])])
    ctx.count(n)


import c11  # noqa: E402


@M.rule("C05-R6", "every header of the request is visible to the presence / prefix tests (shared with C11-R3)")
def r6(ctx):
    for r in c11.r3(ctx):
        r.rule = "C05-R6"
        yield r


REQ_HANDOFF = [
    ("signature::sigv4_validate_request", True, r"CanonicalRequest::get_authenticator$", {1: "required_headers"}),
    ("canonical::CanonicalRequest::get_authenticator", False, r"CanonicalRequest::get_auth_parameters$", {1: "signed_header_requirements"}),
]


@M.rule("C05-R7", "the caller's requirement set reaches the requirement checks as given")
def r7(ctx):
    for r in handoff_results(ctx, "C05-R7", REQ_HANDOFF, VIOL, PASS, site, "the signed-header requirements enforced are not the ones the server configured"):
        yield r


@M.rule("C05-R8", "wrappers around the entry point hand the caller's configuration on unchanged")
def r_wrappers(ctx):
    for r in wrapper_results(ctx, "C05-R8", (5,), VIOL, PASS, "the requirement set enforced is not the caller's"):
        yield r


REQ_FIELDS = ("always_present", "if_in_request", "prefixes")
REQ_WRITERS = r"^canonical::VecSignedHeaderRequirements::(add_always_present|add_if_in_request|add_prefix|remove_always_present|remove_if_in_request|remove_prefix|new)$"


@M.rule("C05-R9", "who writes the requirement lists: the reviewed add_/remove_ methods, and nobody adds under a condition on the set's own content")
def r9(ctx):
    """A second way to build a requirement set (`merge`, `from_requirements`, `extend`) decides what is enforced just like
    add_* does (C05-R5). Direct writes to the three lists outside the reviewed methods are reported; so is a call of add_*
    that is skipped under a condition computed from the set's own lists (`if !self.is_enforced(h)`: an always-required
    name dropped because a *prefix* covers it is no longer required when the header is absent)."""
    n = 0
    bad = 0
    for body in ctx.facts.all_bodies():
        if body.kind not in ("Fn", "AssocFn", "Closure") or re.search(REQ_WRITERS, re.sub(r"::\{closure#\d+\}$", "", body.path)):
            continue
        if "VecSignedHeaderRequirements" not in body.path and not body.calls(r"VecSignedHeaderRequirements::add_\w+$"):
            continue
        for bi, t in body.calls(r"Vec::<T, A>::(push|insert|extend\w*|append|retain\w*|remove|clear|truncate|drain|dedup\w*|sort\w*)$|Extend::extend$"):
            sl = body.slice_op(t["args"][0])
            if any(fs and fs[-1] in REQ_FIELDS for _, fs in sl.fieldreads) and "Cow<" in " ".join(t.get("arg_tys", [])[:1]) + t.get("resolved_full", ""):
                n += 1
                bad += 1
                yield VIOL("C05-R9", "%s/direct-list-write" % body.path, "`%s` writes a requirement list directly (`%s`), outside the reviewed add_/remove_ methods" % (body.path, t["callee"].split("::")[-1]), where=body.span_of_block(bi))
        for bi, t in body.calls(r"VecSignedHeaderRequirements::add_\w+$"):
            n += 1
            for a, s_, c, truth in guard_conditions(body, bi):
                if c["kind"] != "call":
                    continue
                csl = body.slice([c["term"]["dest"]["local"]])
                own = any(fs and fs[-1] in REQ_FIELDS for _, fs in csl.fieldreads) or any(re.search(r"VecSignedHeaderRequirements::\w+$|SignedHeaderRequirements>::\w+$", x) and 1 in body.slice_op(tt["args"][0]).locals for x, tt in [(tt_["callee"], tt_) for _, tt_ in csl.calls] if tt["args"])
                if own and not re.search(r"Iterator::next$", c["callee"]):
                    bad += 1
                    yield VIOL("C05-R9", "%s/conditional-add" % body.path, "`%s` is skipped under a condition computed from the set's own content (`%s`): a requirement the caller declared is silently not enforced" % (t["callee"].split("::")[-1], c["callee"].split("::")[-1]), where=body.span_of_block(bi))
                    break
    ctx.count(max(1, n))
    if not bad:
        yield PASS("C05-R9", "requirement-lists/writers", "the three lists are written by the reviewed add_/remove_ methods only (%d other call sites of add_*, none conditional on the set)" % n, [])
