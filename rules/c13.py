"""C13 Errors follow the documented precedence and a fixed kind/code/status taxonomy."""
from lib import *
from registry import Module

M = Module(
    "C13",
    "Error precedence and taxonomy",
    "R1: exhaustive abstract evaluation of SignatureError::{error_code, http_status} over all enum discriminants (finite map read off the "
    "SwitchInt; any read of a payload makes the rule fail closed) checked against the constraints the property states. R2: every construction "
    "of a SignatureError in the validation path is matched against a reviewed rule-site map (unreviewed exit = violation) and the sites' decision "
    "points must be ordered by (loop-aware) dominance in the documented precedence, within functions and across the call chain; each error exit "
    "returns without reaching a later check. R3: the residual types of the entry point's `?` operators.",
    ["earliest-failing-check-wins follows from dominance because every check returns immediately (accumulators 6d/7d/13 report jointly by design)", "message texts are not decided"],
)

ENTRY = "signature::sigv4_validate_request"
CRQ = "canonical::CanonicalRequest::"

EXPECT_STATUS_400 = {"InvalidURIPath", "MalformedQueryString", "IncompleteSignature", "MissingAuthenticationToken", "InvalidBodyEncoding"}
EXPECT_STATUS_403 = {"SignatureDoesNotMatch", "InvalidClientTokenId", "ExpiredToken"}
EXPECT_STATUS_500 = {"IO", "InternalServiceError"}
ONLY_4XX = {"InvalidContentType", "InvalidRequestMethod"}


class NotKindOnly(AnchorMissing):
    """the table function's result depends on something besides which variant `self` is"""


def eval_enum_fn(body, adt):
    """{variant name: constant value} for a fn(&Enum) -> const whose result depends on the discriminant only.
    Exact evaluation per variant in a tiny domain: self, constants, tuples of those (a helper returning
    (code, status) that was inlined), copies and re-borrows."""
    variants = [v["name"] for v in adt["variants"]]
    out = {}
    SELF, DISCR = ("self",), ("discr",)

    def read(env, p):
        if p["local"] not in env:
            raise NotKindOnly("%s: result depends on more than the discriminant (local _%d)" % (body.path, p["local"]))
        x = env[p["local"]]
        for e in p["proj"]:
            if e == "deref":
                continue
            if isinstance(e, dict) and "field" in e and isinstance(x, tuple) and x and x[0] == "tuple":
                x = x[1][e["idx"]]
                continue
            if x == SELF:
                raise NotKindOnly("%s: result depends on more than the discriminant (a field of self is read)" % body.path)
            raise AnchorMissing("%s: unsupported projection" % body.path)
        return x

    for vi, vname in enumerate(variants):
        blk = 0
        env = {1: SELF}
        steps = 0
        while True:
            steps += 1
            if steps > 300:
                raise AnchorMissing("evaluation of %s does not terminate" % body.path)
            b = body.blocks[blk]
            for s in b["stmts"]:
                if s["k"] != "assign":
                    raise AnchorMissing("%s: unexpected statement" % body.path)
                rv = s["rv"]
                d = s["place"]
                if d["proj"]:
                    raise AnchorMissing("%s: assignment to a projection" % body.path)
                if rv["k"] == "discr":
                    if read(env, {"local": rv["place"]["local"], "proj": [e for e in rv["place"]["proj"] if e == "deref"]}) != SELF or [e for e in rv["place"]["proj"] if e != "deref"]:
                        raise AnchorMissing("%s reads a discriminant other than self's" % body.path)
                    env[d["local"]] = DISCR
                elif rv["k"] == "use":
                    c = op_const(rv["op"])
                    env[d["local"]] = ("const", c) if c is not None else read(env, op_place(rv["op"]))
                elif rv["k"] == "ref":
                    env[d["local"]] = read(env, rv["place"])
                elif rv["k"] == "aggregate" and rv.get("tuple"):
                    env[d["local"]] = ("tuple", [("const", op_const(o)) if op_const(o) is not None else read(env, op_place(o)) for o in rv["ops"]])
                else:
                    raise NotKindOnly("%s: result depends on more than the discriminant (%s at %s)" % (body.path, rv["k"], loc(s["span"])))
            t = b["term"]
            if t["k"] == "goto":
                blk = t["target"]
            elif t["k"] == "drop":
                blk = t["target"]
            elif t["k"] == "switch":
                if read(env, op_place(t["discr"])) != DISCR:
                    raise AnchorMissing("%s switches on something other than self's discriminant" % body.path)
                nxt = [bb for v, bb in t["targets"] if v == vi]
                blk = nxt[0] if nxt else t["otherwise"]
            elif t["k"] == "return":
                break
            elif t["k"] == "unreachable":
                raise AnchorMissing("%s: variant %s reaches `unreachable`" % (body.path, vname))
            else:
                raise AnchorMissing("%s: unexpected terminator %s (result must depend on the kind alone)" % (body.path, t["k"]))
        val = env.get(0)
        if not (isinstance(val, tuple) and val and val[0] == "const"):
            raise AnchorMissing("%s: no constant result for variant %s" % (body.path, vname))
        out[vname] = const_value(val[1])
    return out


@M.rule("C13-R1", "kind alone fixes code and status; 400 malformed / 403 authentication / 500 only provider infrastructure; never 2xx")
def r1(ctx):
    adt = ctx.facts.adts.get("error::SignatureError")
    if adt is None:
        raise AnchorMissing("enum error::SignatureError")
    def table_fn(m):
        """the inherent method, or - when the tables were moved into the trait impl - the ServiceError method itself"""
        try:
            return ctx.fn("error::SignatureError::" + m), True
        except AnchorMissing:
            return ctx.fn("<error::SignatureError as scratchstack_errors::ServiceError>::" + m), False
    (fst, inh_st), (fcode, inh_code) = table_fn("http_status"), table_fn("error_code")
    try:
        st = eval_enum_fn(fst, adt)
        code = eval_enum_fn(fcode, adt)
    except NotKindOnly as e:
        # one error kind with two codes / statuses: the taxonomy is no longer a table keyed by the kind
        yield VIOL("C13-R1", "error-table/not-a-function-of-the-kind", "the error code / HTTP status of a SignatureError is computed from more than its kind (a payload is inspected, a helper is consulted): %s" % e.what, where="src/error.rs")
        return
    ctx.count(2 * len(st))
    ctx.extra["taxonomy"] = {v: {"status": st[v], "code": code[v]} for v in st}
    ctx.extra["taxonomy_exhaustive"] = True
    ok = True
    for v, s in st.items():
        if not isinstance(s, int) or not (400 <= s <= 599):
            ok = False
            yield VIOL("C13-R1", "http_status/%s/not-an-error-status" % v, "kind %s maps to HTTP %s" % (v, s), where="src/error.rs")
        want = 400 if v in EXPECT_STATUS_400 else 403 if v in EXPECT_STATUS_403 else 500 if v in EXPECT_STATUS_500 else None
        if want is not None and s != want:
            ok = False
            yield VIOL("C13-R1", "http_status/%s" % v, "kind %s maps to HTTP %s, the property requires %d" % (v, s, want), where="src/error.rs")
        if want is None:
            if v in ONLY_4XX:
                if not (400 <= s <= 499):
                    ok = False
                    yield VIOL("C13-R1", "http_status/%s" % v, "kind %s (never constructed by the library) must still be 4xx, is %s" % (v, s), where="src/error.rs")
            else:
                ok = False
                yield VIOL("C13-R1", "http_status/%s/unreviewed-kind" % v, "new error kind %s (status %s) is not classified in the reviewed taxonomy" % (v, s), where="src/error.rs")
    five = {v for v, s in st.items() if s == 500}
    if five != EXPECT_STATUS_500:
        ok = False
        yield VIOL("C13-R1", "http_status/500-preimage", "kinds mapping to 500 are %s (must be exactly IO, InternalServiceError)" % sorted(five), where="src/error.rs")
    inv = {}
    for v, c in code.items():
        inv.setdefault(c, []).append(v)
    for c, vs in inv.items():
        if len(vs) > 1 and set(vs) != {"IO", "InternalServiceError"}:
            ok = False
            yield VIOL("C13-R1", "error_code/collision:%s" % c, "kinds %s share error code %s" % (vs, c), where="src/error.rs")
    for v, c in code.items():
        if not isinstance(c, str) or not c:
            ok = False
            yield VIOL("C13-R1", "error_code/%s" % v, "kind %s has no constant error code" % v, where="src/error.rs")
    if ok:
        yield PASS("C13-R1", "taxonomy", "exhaustive over %d kinds: statuses %s; codes injective except IO/InternalServiceError" % (len(st), {k: st[k] for k in sorted(st)}), ["src/error.rs http_status", "src/error.rs error_code"])
    # trait impl forwards
    for m, inherent in (("error_code", inh_code), ("http_status", inh_st)):
        f = ctx.fn("<error::SignatureError as scratchstack_errors::ServiceError>::" + m)
        if not inherent:
            yield PASS("C13-R1", "service-error-impl/" + m, "the table is the trait method itself (evaluated above)", [loc(f.j["span"])])
            continue
        cs = f.calls()
        if len(cs) != 1 or cs[0][1].get("resolved") != "error::SignatureError::" + m or f.slice([0]).consts:
            yield VIOL("C13-R1", "service-error-impl/" + m, "ServiceError::%s does not forward to SignatureError::%s" % (m, m), where=loc(f.j["span"]))
        else:
            yield PASS("C13-R1", "service-error-impl/" + m, "forwards to the inherent method", [loc(f.j["span"])])


# ---------------------------------------------------------------------------------------------------
# R2: rule-site map. Each function lists its events in precedence order.
#   ("err", variant, regex on the joined constant heads of the payload, rule label [, group])
#   ("call", regex on callee, ordinal among matching calls, rule label [, group])
# events sharing a `group` are mutually exclusive alternatives (no order between them).
# ---------------------------------------------------------------------------------------------------
SITE_MAP = {
    ENTRY + "::{closure#0}": [
        ("call", r"IntoRequestBytes::into_request_bytes$", 0, "body conversion (caller's error)"),
        ("call", r"CanonicalRequest::from_request_parts$", 0, "rules 1,4 (+body)"),
        ("call", r"CanonicalRequest::get_authenticator$", 0, "rules 5-9"),
        ("call", r"SigV4Authenticator::validate_signature$", 0, "rules 10-13, provider, signature"),
    ],
    CRQ + "from_request_parts": [
        ("call", r"canonical::canonicalize_uri_path$", 0, "1 path"),
        ("call", r"canonical::query_string_to_normalized_map$", 0, "4 query string"),
        ("err", "InvalidBodyEncoding", r"unsup", "4b unsupported charset"),
        ("err", "InvalidBodyEncoding", r"Invalid body data", "4c undecodable body"),
        ("call", r"canonical::query_string_to_normalized_map$", 1, "4d body query"),
        ("err", "MalformedQueryString", r"Unable to convert", "4e folded URI too long"),
    ],
    "canonical::canonicalize_uri_path": [
        ("err", "InvalidURIPath", r"Path is not absolute", "1a relative path"),
        ("call", r"canonical::normalize_uri_path_component$", 0, "1b malformed escape", "loopbody"),
        ("err", "InvalidURIPath", r"navigates above root", "1c above root", "loopbody"),
    ],
    "canonical::normalize_uri_element": [
        ("err", "InvalidURIPath", r"MSG_INCOMPLETE_TRAILING_ESCAPE", "1/4 incomplete escape", "kind1"),
        ("err", "MalformedQueryString", r"MSG_INCOMPLETE_TRAILING_ESCAPE", "1/4 incomplete escape", "kind1"),
        ("err", "InvalidURIPath", r"MSG_ILLEGAL_HEX_CHAR", "1/4 illegal hex", "kind2"),
        ("err", "MalformedQueryString", r"MSG_ILLEGAL_HEX_CHAR", "1/4 illegal hex", "kind2"),
    ],
    CRQ + "get_authenticator": [
        ("call", r"CanonicalRequest::get_auth_parameters$", 0, "5-8"),
        ("call", r"CanonicalRequest::get_authenticator_from_auth_parameters$", 0, "9"),
    ],
    CRQ + "get_auth_parameters": [
        ("err", "SignatureDoesNotMatch", r"^$", "5 both carriers", "carrier"),
        ("err", "MissingAuthenticationToken", r"MSG_REQUEST_MISSING_AUTH_TOKEN", "5 no carrier", "carrier"),
        ("call", r"CanonicalRequest::get_auth_parameters_from_auth_header$", 0, "6a-6d", "carrier"),
        ("call", r"CanonicalRequest::get_auth_parameters_from_query_parameters$", 0, "7a-7d", "carrier"),
        ("err", "SignatureDoesNotMatch", r"MSG_HOST_AUTHORITY_MUST_BE_SIGNED", "8 host"),
        ("err#0", "SignatureDoesNotMatch", r"^(?!.*MSG_HOST).*must be a 'SignedHeader'", "8 always_present"),
        ("err#1", "SignatureDoesNotMatch", r"^(?!.*MSG_HOST).*must be a 'SignedHeader'", "8 if_in_request"),
        ("err#2", "SignatureDoesNotMatch", r"^(?!.*MSG_HOST).*must be a 'SignedHeader'", "8 prefixes"),
    ],
    CRQ + "get_auth_parameters_from_auth_header": [
        ("err", "IncompleteSignature", r"MSG_UNSUPPORTED_ALGORITHM", "6a algorithm"),
        ("err", "IncompleteSignature", r"not a valid key=value", "6b syntax"),
        ("err", "IncompleteSignature", r"MSG_AUTH_HEADER_REQ_", "6d missing"),
    ],
    CRQ + "get_auth_parameters_from_query_parameters": [
        ("err", "MissingAuthenticationToken", r"MSG_REQUEST_MISSING_AUTH_TOKEN", "7a algorithm"),
        ("err", "IncompleteSignature", r"MSG_QUERY_STRING_MUST_INCLUDE", "7d missing"),
    ],
    CRQ + "get_authenticator_from_auth_parameters": [
        ("err", "IncompleteSignature", r"Date must be in ISO-8601", "9 date format"),
    ],
    "auth::SigV4Authenticator::prevalidate": [
        ("err#0", "SignatureDoesNotMatch", r"ISO8601_COMPACT_FORMAT", "10 expired"),
        ("err#1", "SignatureDoesNotMatch", r"ISO8601_COMPACT_FORMAT", "11 not yet current"),
        ("err", "IncompleteSignature", r"MSG_CREDENTIAL_MUST_HAVE_FIVE_PARTS", "12 arity"),
        ("err", "SignatureDoesNotMatch", r"Date in Credential scope|%Y%m%d", "13 scope"),
    ],
    "auth::SigV4Authenticator::validate_signature::{closure#0}": [
        ("call", r"SigV4Authenticator::prevalidate$", 0, "10-13"),
        ("call", r"SigV4Authenticator::get_signing_key$", 0, "14 provider"),
        ("err", "SignatureDoesNotMatch", r"MSG_REQUEST_SIGNATURE_MISMATCH", "15 signature"),
    ],
    "auth::SigV4Authenticator::get_signing_key::{closure#0}": [
        ("err", "InternalServiceError", r"", "14 provider infrastructure failure"),
    ],
}
FLOOR_ERR_SITES = 27


def payload_heads(b, s):
    if not s["rv"]["ops"]:
        return ""
    sl = b.slice_op(s["rv"]["ops"][0])
    out = []
    for c in sl.consts:
        v = const_value(c)
        if c.get("def"):
            out.append(c["def"].split("::")[-1])
        if isinstance(v, str):
            out.append(v)
        elif isinstance(v, bytes):
            out.append("".join(chr(x) if 32 <= x < 127 else "|" for x in v))
    # constants used inside closures passed (format! inside map_err closure): handled by caller
    return " ".join(out)


def scc_header(b, x):
    scc = {y for y in b.live_blocks() if b.reachable_strict(x, y) and b.reachable_strict(y, x)}
    if not scc:
        return None, set()
    for h in scc:
        if all(b.dominates(h, y) for y in scc):
            return h, scc
    return None, scc


def ldom(b, x, y):
    """loop-aware dominance: x dominates y, or x lies in a loop whose header dominates y (y outside that loop)."""
    if b.dominates(x, y):
        return True
    h, scc = scc_header(b, x)
    if h is not None and y not in scc and b.dominates(h, y):
        return True
    return False


def decision_block(b, err_block):
    cds = list(b.control_deps().get(err_block, ()))
    if not cds:
        return err_block
    # innermost: the one dominated by all others
    best = cds[0][0]
    for a, s in cds:
        if b.dominates(best, a):
            best = a
    return best


def collect_err_sites(facts, fn_path):
    """Err constructions of SignatureError belonging to function fn_path, including those in its closures.
    Returns [(pos_block_in_parent, err_block_or_None, variant, heads, span)]."""
    out = []
    try:
        b = facts.body(fn_path)
    except AnchorMissing:
        cands = facts.find_bodies("^" + re.escape(fn_path) + "$")
        if not cands:
            raise
        b = cands[0]
    for bi, i, s in b.aggregates(adt=r"^error::SignatureError$"):
        out.append((decision_block(b, bi), bi, s["rv"]["variant"], payload_heads(b, s), loc(s["span"])))
    for cb in facts.find_bodies("^" + re.escape(fn_path) + r"::\{closure#\d+\}$"):
        if cb.j.get("coroutine_kind"):
            continue
        for bi, i, s in cb.aggregates(adt=r"^error::SignatureError$"):
            # position in the parent: where the closure value is used
            pos = None
            for pbi, pi, ps in b.aggregates():
                if ps["rv"].get("closure") == cb.path:
                    cl = ps["place"]["local"]
                    for ubi, ut in b.calls():
                        if any(op_local(a) == cl for a in ut["args"]):
                            pos = ubi
            out.append((pos if pos is not None else 0, None, s["rv"]["variant"], payload_heads(cb, s), loc(s["span"])))
    return b, out


@M.rule("C13-R2", "every error exit is in the reviewed rule-site map and the sites are ordered by dominance in the documented precedence")
def r2(ctx):
    facts = ctx.facts
    total_err = 0
    known_fns = set(SITE_MAP)
    # (a) unreviewed exits anywhere in the library (outside error.rs conversions)
    for body in facts.all_bodies():
        if body.path.startswith("<error::") or body.path.startswith("error::"):
            continue
        if facts.new_and_unreachable(body):
            continue  # an error built by new code outside the validation call graph is not a validation outcome
        base = re.sub(r"::\{closure#\d+\}$", "", body.path) if not body.j.get("coroutine_kind") else body.path
        n = len(body.aggregates(adt=r"^error::SignatureError$"))
        if n and base not in known_fns and body.path not in known_fns:
            yield VIOL("C13-R2", "unreviewed-error-exit/" + body.path, "%d SignatureError construction(s) in a function that is not in the rule-site map" % n, where=loc(body.j["span"]))
    for fn, events in SITE_MAP.items():
        b, errs = collect_err_sites(facts, fn)
        ctx.functions.add(b.path)
        total_err += len(errs)
        used = set()
        pos = []  # (event label, position block, err block, group, kind)
        for ev in events:
            kind = ev[0]
            grp = ev[4] if len(ev) > 4 else None
            if kind.startswith("err"):
                _, variant, rx, label = ev[:4]
                m = [(k, e) for k, e in enumerate(errs) if e[2] == variant and re.search(rx, e[3]) and (rx != r"^$" or e[3] == "")]
                if "#" in kind:
                    ordn = int(kind.split("#")[1])
                    # order the candidates by CFG order of their decision points
                    m0 = list(m)  # list.sort() empties the list while sorting: the key must look at a copy
                    m.sort(key=lambda ke: sum(1 for k2, e2 in m0 if e2[0] != ke[1][0] and b.reachable(e2[0], ke[1][0]) and not b.reachable(ke[1][0], e2[0])))
                    m = m[ordn:ordn + 1] if len(m) > ordn else []
                m = [x for x in m if x[0] not in used] if "#" not in kind else m
                if not m and variant == "InternalServiceError":
                    # sibling of the open-coded `downcast` match: `SignatureError::from(boxed error)` - the reviewed
                    # conversion (its shape is C14-R3 `from-boxerror/shape`) builds the error at this site
                    cv = [c_ for c_ in b.calls(r"convert::(From::from|Into::into)$") if re.search(r"<error::SignatureError as std::convert::From<std::boxed::Box<\(?dyn std::error::Error", c_[1].get("resolved_full", "")) or re.search(r"Box<\(?dyn std::error::Error[^>]*> as std::convert::Into<error::SignatureError>", c_[1].get("resolved_full", ""))]
                    if len(cv) == 1:
                        total_err += 1
                        pos.append((label, cv[0][0], None, grp, "call", b.span_of_block(cv[0][0])))
                        continue
                if len(m) != 1:
                    yield MISSING("C13-R2", "site-map/%s/%s" % (fn, label), "rule-site `%s` (%s matching /%s/) matched %d constructions" % (label, variant, rx, len(m)))
                    continue
                k, e = m[0]
                used.add(k)
                pos.append((label, e[0], e[1], grp, "err", e[4]))
            else:
                _, rx, ordn, label = ev[:4]
                cs = [c for c in b.calls(rx)]
                if len(cs) <= ordn:
                    yield MISSING("C13-R2", "site-map/%s/%s" % (fn, label), "call `%s` #%d not found" % (rx, ordn))
                    continue
                cb_, ct = cs[ordn]
                pos.append((label, cb_, None, grp, "call", b.span_of_block(cb_)))
        # calls to other mapped (error-producing) functions that are not events of this function
        event_blocks = {p_[1] for p_ in pos if p_[4] == "call"}
        mapped = {re.sub(r"::\{closure#\d+\}$", "", k) for k in SITE_MAP}
        for cb_, ct in b.calls():
            r_ = ct.get("resolved") or ""
            tgt = r_ if r_ in mapped else (ct.get("callee") if ct.get("callee") in mapped else None)
            if tgt and cb_ not in event_blocks:
                yield VIOL("C13-R2", "unreviewed-check-call/%s/%s" % (fn, tgt.split("::")[-1]), "%s calls the checking function `%s` at a position that is not in the reviewed rule-site map" % (fn.split("::")[-1], tgt), where=b.span_of_block(cb_))
        for k, e in enumerate(errs):
            if k not in used:
                yield VIOL("C13-R2", "unreviewed-error-exit/%s/%s" % (fn, e[2]), "SignatureError::%s constructed at a site that is not in the reviewed rule-site map (heads: %s)" % (e[2], e[3][:60]), where=e[4])
        # (b) order
        for i in range(len(pos)):
            for j in range(i + 1, len(pos)):
                l1, p1, e1, g1, k1, w1 = pos[i]
                l2, p2, e2, g2, k2, w2 = pos[j]
                if g1 is not None and g1 == g2:
                    continue
                ctx.count()
                if g1 == "loopbody" or g2 == "loopbody":
                    # per-iteration checks inside one loop: only require that the later one is reachable from the earlier one
                    ok = b.reachable(p1, p2)
                else:
                    t1 = e1 if (k1 == "err" and e1 is not None) else p1
                    # (i) the earlier check's error exit is not reachable from the later check's decision point
                    ok = not b.reachable(p2, t1) or p2 == t1
                    # (ii) the earlier error exit returns: it cannot fall through to the later check. The error value may
                    # travel through `?` (helper inlined / ok_or_else / map_err): the Continue edge of a `?` fed by this
                    # very error value is infeasible and is cut.
                    if ok and k1 == "err" and e1 is not None:
                        if p2 == e1 or p2 in b.reach_feasible(e1):
                            ok = False
                    # (iii) a `?`-call's success edge is the only way on to the later check
                    if ok and k1 == "call":
                        cont = b.try_continue_block(p1)
                        if cont is not None and b.reachable(p1, p2) and not b.reachable(cont, p2):
                            ok = False
                        if cont is not None and b.reachable(p1, p2) and p2 in b._reachable_from(p1, avoid={cont}) and p2 != p1:
                            ok = False
                if not ok:
                    yield VIOL("C13-R2", "precedence/%s/%s<%s" % (fn, l1, l2), "check `%s` does not precede check `%s` on every path (dominance order violated)" % (l1, l2), where=w2)
        if pos:
            yield PASS("C13-R2", "precedence/" + fn, "%d ordered rule sites: %s" % (len(pos), " < ".join(p[0] for p in pos)), ["%s %s" % (p[5], p[0]) for p in pos])
    if total_err < FLOOR_ERR_SITES:
        yield MISSING("C13-R2", "site-map/floor", "only %d SignatureError constructions found in mapped functions (>= %d confirmed by hand)" % (total_err, FLOOR_ERR_SITES))
    ctx.extra["error_exit_sites"] = total_err


@M.rule("C13-R3", "every failure of the entry point is a SignatureError or the caller's own body-conversion error")
def r3(ctx):
    b = ctx.co(ENTRY)
    res = b.calls(r"FromResidual::from_residual$")
    kinds = []
    for bi, t in res:
        r = t.get("resolved_full", "")
        m = re.search(r"FromResidual<std::result::Result<std::convert::Infallible, ([^>]+(?:<[^>]*>)?[^>]*)>>>::from_residual", r)
        kinds.append(m.group(1) if m else r[-80:])
    prop, direct = propagated_error_kinds(b)
    kinds += [ty for _, ty in prop]  # `Err(e) => Err(e.into())`: the hand-written form of `?`
    ctx.count(len(res) + len(prop))
    sig = [k for k in kinds if k == "error::SignatureError"]
    box = [k for k in kinds if k.startswith("std::boxed::Box<dyn std::error::Error")]
    other = [k for k in kinds if k not in sig and k not in box]
    if other or len(box) != 1 or len(sig) < 3:
        yield VIOL("C13-R3", "entry/residuals", "`?` residual types in the entry point: %s" % kinds, where=loc(b.j["span"]))
    else:
        # the single boxed one is the body conversion
        bx = ([(bi, t) for (bi, t), k in zip(res, kinds) if k in box] or [(prop[0][0], None)])[0]
        yield PASS("C13-R3", "entry/residuals", "%d `?` propagate SignatureError; 1 propagates the caller's IntoRequestBytes error" % len(sig), [site(b, bx[0], "body?")])
    # no other Err construction in the entry point
    if direct:
        yield VIOL("C13-R3", "entry/direct-err", "the entry point constructs an Err directly", where=b.span_of_block(direct[0][0]))
    # built-in IntoRequestBytes impls never fail
    n = 0
    for body in ctx.facts.find_bodies(r"as signature::IntoRequestBytes>::into_request_bytes"):
        n += 1
        if result_aggs(body, "Err", own_return=False):
            yield VIOL("C13-R3", "into_request_bytes/err:" + body.path, "a built-in body conversion can fail", where=loc(body.j["span"]))
    if n >= 6 or n >= 3:
        yield PASS("C13-R3", "into_request_bytes/infallible", "built-in IntoRequestBytes impls construct no Err (%d bodies)" % n, [])
    else:
        yield MISSING("C13-R3", "into_request_bytes/floor", "expected the 3 built-in IntoRequestBytes impls, found %d bodies" % n)


import c03  # noqa: E402


@M.rule("C13-R2b", "rule 12 decides exactly `parts != 5` before the scope rule (shared with C03-R1)")
def r2b(ctx):
    for r in c03.r1(ctx):
        r.rule = "C13-R2b"
        yield r


import c02  # noqa: E402


@M.rule("C13-R2c", "rules 6a / 7a decide by full equality with AWS4-HMAC-SHA256 (shared with C02-R3)")
def r2c(ctx):
    for r in c02.r3(ctx):
        if "algorithm-gate" in r.key or r.status != "PASS":
            r.rule = "C13-R2c"
            yield r


@M.rule("C13-R2d", "rule 6b (parameter syntax) fires exactly for a parameter without '=': the cut is at the first '=' of the trimmed element (shared with C19-R2)")
def r2d(ctx):
    import c19

    n = 0
    for r in c19.r2(ctx):
        if "param-trim" in r.key or "header-trim" in r.key or r.status != "PASS":
            r.rule = "C13-R2d"
            n += 1
            yield r
    if not n:
        yield MISSING("C13-R2d", "param-syntax/no-instance", "no parameter-syntax instance of C19-R2")


@M.rule("C13-R4", "an I/O failure is always the IO kind: From<io::Error> does not look at the error")
def r4_io(ctx):
    """The taxonomy maps kinds to codes (R1); the conversions decide the kind. `From<io::Error>` must produce `IO` for every
    io::Error - a conversion that files UnexpectedEof / InvalidData under a client-error kind reports an infrastructure
    failure of the key provider as a malformed request (400 instead of 500)."""
    f = ctx.fn("<error::SignatureError as std::convert::From<std::io::Error>>::from")
    ctx.count()
    ags = f.aggregates(adt=r"^error::SignatureError$")
    kinds = {s_["rv"]["variant"] for _, _, s_ in ags}
    sw = [bi_ for bi_ in sorted(f.live_blocks()) if f.term(bi_)["k"] == "switch"]
    if kinds != {"IO"} or sw or f.calls(r"io::(error::)?Error::kind$"):
        yield VIOL("C13-R4", "from-io-error/kind", "From<io::Error> for SignatureError builds %s%s: an I/O failure is not always reported as IO / InternalFailure" % (sorted(kinds), " under a condition on the error" if sw or f.calls(r"Error::kind$") else ""), where=loc(f.j["span"]))
    else:
        yield PASS("C13-R4", "from-io-error/kind", "From<io::Error> = SignatureError::IO(e), unconditionally", [loc(f.j["span"])])
