"""C07 Signature comparison is constant-time w.r.t. the secret expected value (source-level discipline only)."""
from lib import *
from registry import Module
from taint import SecretTaint, raw_field_source
import c01

M = Module(
    "C07",
    "Constant-time comparison (crate-level discipline)",
    "Decides the structural necessary condition only: in the crate's own code, every value derived from the provider's signing key (hence the "
    "expected signature) reaches no branch condition, assertion, index, or call other than the enumerated neutral propagators, trace-level "
    "formatting, and the single <[u8] as subtle::ConstantTimeEq>::ct_eq whose Choice is the verdict; and nothing content-dependent on the presented "
    "signature guards that comparison. The machine-instruction trace, the compiler's transformations and the timing of subtle/hex/hmac themselves are NOT decided.",
    ["subtle::ConstantTimeEq::ct_eq on byte slices is constant-time for equal lengths (subtle's contract)", "hex::encode, hmac, sha2 have no secret-dependent early exit", "compiler does not introduce data-dependent branches"],
)

VS = "auth::SigV4Authenticator::validate_signature"

# calls through which secret-derived data may pass without being a timing sink
NEUTRAL = (
    r"^hex::encode$", r"::as_bytes$", r"^std::convert::AsRef::as_ref$", r"^std::ops::Deref::deref$", r"^std::convert::Into::into$", r"^std::convert::From::from$",
    r"^std::clone::Clone::clone$", r"::to_owned$", r"::to_vec$", r"::len$", r"^std::borrow::Borrow::borrow$",
    r"^crypto::hmac_sha256$", r"^hmac::Mac::(new_from_slice|update|chain_update|finalize)$", r"CtOutput::<T>::into_bytes$", r"^std::result::Result::<T, E>::expect$",
    r"^signing_key::GetSigningKeyResponse::signing_key$", r"^subtle::ConstantTimeEq::ct_eq$", r"^std::mem::drop$", r"slice::<impl \[T\]>::copy_from_slice$", r"<impl \[T; N\]>::as_slice$|array::<impl \[T; N\]>::as_slice$",
)
FMT_CALLS = (r"^core::fmt::rt::Argument::<'_>::new_\w+$", r"^std::fmt::Arguments::<'a>::new\w*$", r"^log::__private_api::log$", r"^std::string::String::from_utf8_lossy$")


def neutral(c):
    return any(re.search(p, c) for p in NEUTRAL)


@M.rule("C07-R1", "the presented/expected comparison is <[u8] as subtle::ConstantTimeEq>::ct_eq, and it is the only comparison of them")
def r1(ctx):
    b = ctx.co(VS)
    v, why = c01.verdict_guard(b)
    ctx.count()
    if v is None:
        yield VIOL("C07-R1", "validate_signature/not-ct_eq", why, where=loc(b.j["span"]))
        return
    yield PASS("C07-R1", "validate_signature/ct_eq", "verdict = bool::from(<[u8] as ConstantTimeEq>::ct_eq(presented, expected))", [site(b, v["ct_block"], "ct_eq")])


@M.rule("C07-R2", "no secret-dependent control flow, comparison or indexing in crate code")
def r2(ctx):
    st = SecretTaint(ctx.facts)
    b = ctx.co(VS)
    # seed: results of GetSigningKeyResponse::signing_key in validate_signature, plus raw key reads
    seeds = set()
    for bi, t in b.calls(r"GetSigningKeyResponse::signing_key$"):
        seeds.add(t["dest"]["local"])
    if not seeds:
        raise AnchorMissing("response.signing_key() in validate_signature")
    res = st.closure([(b, seeds)])
    n_sinks = 0
    for path, (body, tainted) in sorted(res.items()):
        ctx.functions.add(path)
        for kind, bi, det in tainted_uses(body, tainted, raw_field_source):
            ctx.count()
            where = body.span_of_block(bi)
            if kind == "switch":
                n_sinks += 1
                yield VIOL("C07-R2", "%s/branch-on-secret" % path, "a branch condition derives from the signing key / expected signature", where=where)
            elif kind == "assert":
                n_sinks += 1
                yield VIOL("C07-R2", "%s/assert-on-secret" % path, "a run-time check (%s) depends on the signing key / expected signature" % det["kind"], where=where)
            elif kind == "index":
                n_sinks += 1
                yield VIOL("C07-R2", "%s/index-by-secret" % path, "an index derives from secret data", where=where)
            elif kind == "call":
                t, idx = det
                c = t.get("callee", "")
                if neutral(c):
                    continue
                if any(re.search(p, c) for p in FMT_CALLS):
                    # formatting of secrets: allowed only inside log macros (level is C17's business)
                    if in_macro(body, bi, ("log!", "trace!", "debug!", "info!", "warn!", "error!")):
                        continue
                if st.callee_body(t) is not None:
                    continue  # analysed through the closure
                n_sinks += 1
                yield VIOL("C07-R2", "%s/secret-into:%s" % (path, c.split("::")[-1]), "secret-derived value passed to `%s` (not a reviewed constant-time/neutral operation; comparisons, searches and parsers exit early)" % c, where=where)
    if n_sinks == 0:
        yield PASS("C07-R2", "secret-flow/clean", "key-derived values reach only neutral propagators, trace formatting and ct_eq in %d function(s)" % len(res), sorted(res))


KEY_EQ = r"^<signing_key::K\w+Key(<M>)? as std::cmp::PartialEq>::(eq|ne)$"


@M.rule("C07-R2b", "crate-wide: wherever key material is handled, it reaches no branch, early-exit comparison or search")
def r2b(ctx):
    """R2 follows the signing key from validate_signature; this sweep starts from every place key material is *read* (raw
    fields of the key types, AsRef on them, the secret given to from_str) in any function of the crate - a helper that
    picks `the key the request was signed with` by `hex(hmac(key, ..)) == signature` runs an early-exit comparison against
    the expected signature before the constant-time one, without validate_signature changing. The derived `==` of the key
    types themselves is the one exception, and only as long as nothing in the crate calls it."""
    st = SecretTaint(ctx.facts)
    n = 0
    bad = 0
    for body in ctx.facts.all_bodies():
        if body.kind not in ("Fn", "AssocFn", "Closure"):
            continue
        if re.search(KEY_EQ, body.path):
            continue
        tainted = st.taint(body)
        for kind, bi, det in tainted_uses(body, tainted, raw_field_source):
            n += 1
            where = body.span_of_block(bi)
            if kind in ("switch", "assert", "index"):
                bad += 1
                yield VIOL("C07-R2b", "%s/%s-on-secret" % (body.path, kind), "a %s depends on key material or on something computed from it" % {"switch": "branch condition", "assert": "run-time check", "index": "index"}[kind], where=where)
            elif kind == "call":
                t, idx = det
                c = t.get("callee", "")
                if neutral(c) or re.search(r"ops::Index(Mut)?::index(_mut)?$|slice::<impl \[T\]>::(split_at|split_at_mut|fill|first_chunk|last_chunk|as_ptr|as_mut_ptr)$|<impl \[T; N\]>::as_mut_slice$|Vec::<T, A>::extend_from_slice$|slice::<impl \[T\]>::concat$", c) or st.callee_body(t) is not None:
                    # positional operations: which bytes go where does not depend on their values
                    continue
                if any(re.search(p_, c) for p_ in FMT_CALLS):
                    continue  # what may be formatted where is C17's business
                bad += 1
                yield VIOL("C07-R2b", "%s/secret-into:%s" % (body.path, c.split("::")[-1]), "key-derived value passed to `%s` (comparisons, searches and parsers exit early)" % c, where=where)
    ctx.count(max(1, n))
    callers = [(cb, bi, t) for cb, bi, t in ctx.facts.callers_of(r"PartialEq::(eq|ne)$") if re.search(KEY_EQ, t.get("resolved_full", "") or "") or re.search(r"^<signing_key::K\w+Key(<\w+>)? as std::cmp::PartialEq>::(eq|ne)$", t.get("resolved_full", "") or "")]
    for cb, bi, t in callers:
        bad += 1
        yield VIOL("C07-R2b", "%s/key-eq-called" % cb.path, "the early-exit `==` of a key type is called in crate code", where=cb.span_of_block(bi))
    if n < 10:
        yield MISSING("C07-R2b", "taint/floor", "only %d uses of key material found (>= 10 counted by hand)" % n)
    elif not bad:
        yield PASS("C07-R2b", "crate-wide/clean", "%d uses of key material in the crate: propagators, formatting, ct_eq only; the key types' derived `==` has no caller" % n, [])


@M.rule("C07-R3", "nothing dependent on the presented signature's content guards the constant-time comparison")
def r3(ctx):
    b = ctx.co(VS)
    v, why = c01.verdict_guard(b)
    if v is None:
        yield VIOL("C07-R3", "validate_signature/not-ct_eq", why, where=loc(b.j["span"]))
        return
    bad = []
    for a, s, c, truth in guard_conditions(b, v["ct_block"]):
        sl = None
        if c["kind"] == "call":
            sl = b.slice([c["term"]["dest"]["local"]])
        elif c["kind"] == "binop":
            sl = b.slice_op(c["l"])
            s2 = b.slice_op(c["r"])
            sl.calls += s2.calls
        if sl is not None and (sl.has_call(r"SigV4Authenticator::signature$") or sl.has_call(r"crypto::hmac_sha256$")):
            bad.append(a)
    ctx.count()
    if bad:
        yield VIOL("C07-R3", "validate_signature/pre-check", "the constant-time comparison is guarded by a condition on the signature's content (fast path)", where=b.span_of_block(bad[0]))
    else:
        yield PASS("C07-R3", "validate_signature/no-pre-check", "ct_eq is not control-dependent on any content-derived condition", [site(b, v["ct_block"], "ct_eq")])
    # and no *other* use of the presented signature in a comparison alongside secret data is covered by R2; additionally:
    # the mismatch edge performs no further comparison of the presented signature
    mism = [x for x in b.succ(v["switch"]) if not b.reachable(x, v["ok_block"])]
    extra = []
    for bi, t in cmp_calls(b, r"PartialEq::(eq|ne)$|PartialOrd::\w+$|str>::(starts_with|ends_with|contains|find|eq_ignore_ascii_case)$|slice::<impl \[T\]>::(starts_with|ends_with|contains)$"):
        if any(b.reachable(m, bi) for m in mism):
            extra.append((bi, t))
    if extra:
        yield VIOL("C07-R3", "validate_signature/compare-after-mismatch", "a further (early-exit) comparison `%s` runs on the rejection path" % extra[0][1]["callee"], where=b.span_of_block(extra[0][0]))
    else:
        yield PASS("C07-R3", "validate_signature/rejection-path", "no comparison on the rejection path after ct_eq", [])
