#!/usr/bin/env python3
"""Regenerate MANIFEST.json from the rule modules that exist (rules/cNN.py) and the tables below."""
import importlib
import json
import os
import sys

VERIF = os.path.dirname(os.path.dirname(os.path.abspath(__file__)))
sys.path.insert(0, os.path.join(VERIF, "rules"))

TECH = {
    "C01": "MIR dominance + def-use provenance rules (custom rustc_private driver)",
    "C02": "MIR representation-domain taint (encoded vs decoded) + carrier dispatch value-set",
    "C03": "MIR guard/provenance rules + monotone-accumulator analysis",
    "C04": "MIR constant evaluation + comparison-operator/operand-order rules",
    "C05": "MIR guard/provenance rules over requirement loops + sibling-impl agreement",
    "C06": "MIR positional provenance of HMAC chain + linear length obligations",
    "C07": "MIR taint from the expected signature to branches/comparisons (source-level constant-time discipline)",
    "C08": "MIR inventory of panic-capable constructs with machine-checked discharge guards",
    "C09": "MIR value-set analysis of the byte class + guard rules for mode split",
    "C10": "MIR order-taint from HashMap iteration + sort-key shape + multimap rule",
    "C11": "MIR header-consultation inventory + provenance of emitted headers",
    "C12": "MIR control-dependence confinement of folding + multimap merge rule",
    "C13": "MIR exhaustive enum-discriminant evaluation + dominance order of error exits",
    "C14": "MIR who-may-call + dominance + result-propagation rules",
    "C15": "MIR mutation-confinement and move provenance of parts/body/identity",
    "C16": "regex-syntax facts on the timestamp pattern + MIR checked-constructor rules",
    "C17": "MIR information-flow (taint) from key material to formatting/error/log sinks",
    "C18": "item inventory (statics, interior mutability, ambient inputs) + order-taint + auto-trait witness",
    "C19": "MIR constant-index and lookup-order rules on repeated inputs",
}

NOT_YET = "check not built yet in this revision (work in progress; see DESIGN.md section 5)"


def main():
    checks = []
    na = []
    props = [json.loads(l) for l in open(os.path.join(VERIF, "properties.jsonl"))]
    for p in props:
        pid = p["id"]
        path = os.path.join(VERIF, "rules", pid.lower() + ".py")
        if not os.path.exists(path):
            na.append({"property_id": pid, "reason": NOT_YET})
            continue
        mod = importlib.import_module(pid.lower())
        M = mod.M
        checks.append({
            "property_id": pid,
            "quick_cmd": "./check %s --tier quick" % pid,
            "thorough_cmd": "./check %s --tier thorough" % pid,
            "evidence_file": "/verif/evidence/%s.json" % pid,
            "replay_cmd_template": "./check %s --replay {path}" % pid,
            "engine": "mir-rules",
            "level_claimed": {
                "category": "other",
                "text": "Static analysis: " + M.explanation + " Every rule instance is a universally quantified structural fact (over CFG paths / def-use chains of the type-checked program), decided on each run from /repo's current source; it is a necessary-condition check of the property, not a proof of the behavioural remainder listed in DESIGN.md.",
                "design_ref": "DESIGN.md section 5, " + pid,
            },
            "level_note": "Trusted: rustc MIR construction/trait resolution (nightly 1.97), documented behaviour of std and dependency APIs, reviewed tables under rules/tables. " + "; ".join(M.assumptions),
            "technique": TECH[pid],
        })
    man = {
        "version": 1,
        "setup_cmd": "cd /verif/tools/factgen && CARGO_NET_OFFLINE=true cargo +nightly build --offline && cd /verif/tools/regexfacts && CARGO_NET_OFFLINE=true cargo build --offline && cd /verif && python3 rules/factbase.py /repo >/dev/null && ./check C18 --no-evidence >/dev/null; true",
        "hooks": {
            "guard": "scratchstack_verif",
            "enable": "none needed: the checks analyse /repo's unmodified sources through a rustc driver; no instrumentation is compiled in",
            "baseline_off_cmd": "cd /repo && cargo test --workspace --no-fail-fast --offline --lib",
            "source_commits": [],
            "add_only": True,
        },
        "engines": [
            {"name": "factgen", "path": "/verif/tools/factgen", "serves_properties": [c["property_id"] for c in checks], "kind_free_text": "rustc_private driver (RUSTC_WORKSPACE_WRAPPER) dumping resolved mir_built + item facts of the library crate as JSON"},
            {"name": "mir-rules", "path": "/verif/rules", "serves_properties": [c["property_id"] for c in checks], "kind_free_text": "Python rule engine: CFG, (post)dominators, control dependence, def-use slices, value sets; one module per property"},
        ],
        "checks": checks,
        "not_applicable": na,
        "notes": "Technique family: static analysis only. Fix commits in /repo (D1,D3,D4,D5,D6) are listed in known_findings.json as fixed; D2 is a recorded known finding. See DESIGN.md.",
    }
    json.dump(man, open(os.path.join(VERIF, "MANIFEST.json"), "w"), indent=1)
    print("MANIFEST: %d checks, %d not_applicable" % (len(checks), len(na)))


if __name__ == "__main__":
    main()
