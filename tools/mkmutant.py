#!/usr/bin/env python3
"""Create a checker self-test mutant: one textual edit of /repo's HEAD, verified to compile and to leave the
72 library tests green (checked here, once, at catalogue-build time), stored as a patch.

usage: mkmutant.py PID name FILE --old 'text' --new 'text' [--expect RULE] [--desc '...'] [--count N]
       (several --old/--new pairs allowed; each --old must occur exactly once unless --count)
"""
import argparse
import os
import subprocess
import sys

WORK = "/tmp/mutwork"
VERIF = os.path.dirname(os.path.dirname(os.path.abspath(__file__)))


def sh(cmd, cwd=None, env=None):
    return subprocess.run(cmd, shell=True, cwd=cwd, env=env, stdout=subprocess.PIPE, stderr=subprocess.STDOUT, text=True)


def main():
    ap = argparse.ArgumentParser()
    ap.add_argument("pid")
    ap.add_argument("name")
    ap.add_argument("file")
    ap.add_argument("--old", action="append", required=True)
    ap.add_argument("--new", action="append", required=True)
    ap.add_argument("--expect", default="")
    ap.add_argument("--desc", default="")
    ap.add_argument("--notest", action="store_true")
    a = ap.parse_args()
    if not os.path.exists(WORK):
        r = sh("git -C /repo worktree add --detach %s HEAD" % WORK)
        if r.returncode:
            print(r.stdout)
            return 1
    sh("git checkout -q --detach $(git -C /repo rev-parse HEAD) && git checkout -q -- . && git clean -fdq -e target", cwd=WORK)
    p = os.path.join(WORK, a.file)
    s = open(p).read()
    for old, new in zip(a.old, a.new):
        if s.count(old) != 1:
            print("ERROR: --old occurs %d times: %r" % (s.count(old), old[:80]))
            return 1
        s = s.replace(old, new)
    open(p, "w").write(s)
    env = dict(os.environ, CARGO_TARGET_DIR=os.path.join(WORK, "target"), CARGO_NET_OFFLINE="true")
    r = sh("cargo check --offline --lib 2>&1 | tail -30", cwd=WORK, env=env)
    if "error" in r.stdout and "could not compile" in r.stdout:
        print("DOES NOT COMPILE\n" + r.stdout)
        sh("git checkout -q -- .", cwd=WORK)
        return 1
    tests = "not run"
    if not a.notest:
        r = sh("cargo test --offline --lib 2>&1 | grep -E '^test result|FAILED|panicked' | head -5", cwd=WORK, env=env)
        tests = r.stdout.strip().replace("\n", " | ")
        if "72 passed; 0 failed" not in tests:
            tests = "RED (existing suite notices this mutant; kept as a rule-firing control only): " + tests[-120:]
        else:
            tests = "GREEN 72 passed; 0 failed"
    d = sh("git diff", cwd=WORK).stdout
    sh("git checkout -q -- .", cwd=WORK)
    outd = os.path.join(VERIF, "mutants", a.pid)
    os.makedirs(outd, exist_ok=True)
    with open(os.path.join(outd, a.name + ".patch"), "w") as f:
        f.write("# mutant: %s/%s\n# desc: %s\n# expect: %s\n# tests: %s\n" % (a.pid, a.name, a.desc, a.expect, tests))
        f.write(d)
    print("ok %s/%s (%s)" % (a.pid, a.name, tests))
    return 0


if __name__ == "__main__":
    sys.exit(main())
