#!/usr/bin/env python3
"""Run every property's rules against every seeded change / catalogue mutant: which checks catch which changes.
usage: seedmatrix.py <dir-with-seed-subdirs | patch files ...>   -> prints a table and writes /verif/seeded/MATRIX.json"""
import glob
import importlib
import json
import os
import shutil
import subprocess
import sys
import tempfile
from concurrent.futures import ThreadPoolExecutor, ProcessPoolExecutor

VERIF = os.path.dirname(os.path.dirname(os.path.abspath(__file__)))
sys.path.insert(0, os.path.join(VERIF, "rules"))
import factbase  # noqa
from engine import Facts  # noqa
from registry import Ctx  # noqa

PIDS = ["C%02d" % i for i in range(1, 20)]


def run_all(facts_path, repo):
    out = {}
    facts = Facts(facts_path)  # loaded and normalised once for all properties
    for pid in PIDS:
        mod = importlib.import_module(pid.lower())
        res = mod.M.run(Ctx(facts, None, "quick", repo))
        out[pid] = {(r.key, r.status): r for r in res if r.status != "PASS"}
    return out


def one(patch, base):
    tmp = tempfile.mkdtemp(prefix="verif-seed-")
    try:
        shutil.copytree("/repo/src", os.path.join(tmp, "src"))
        for f in ("Cargo.toml", "Cargo.lock"):
            shutil.copy(os.path.join("/repo", f), os.path.join(tmp, f))
        r = subprocess.run("patch -p1 --no-backup-if-mismatch -s -f < %s" % patch, shell=True, cwd=tmp, stdout=subprocess.PIPE, stderr=subprocess.STDOUT, text=True)
        if r.returncode != 0:
            return {"status": "skipped", "why": r.stdout[-200:]}
        shared = os.path.join(factbase.CACHE, "target-default")
        subprocess.run("cp -al %s %s" % (shared, os.path.join(tmp, "target")), shell=True)
        out = os.path.join(tmp, "facts.json")
        ok, log = factbase.generate(tmp, "", out, os.path.join(tmp, "target"))
        if not ok:
            return {"status": "invalid", "why": log[-300:]}
        res = run_all(out, tmp)
        caught = {}
        for pid, d in res.items():
            new = [r for k, r in d.items() if k not in base[pid]]
            if new:
                caught[pid] = sorted({"%s %s" % (r.rule, r.key) for r in new})[:5]
        if not caught:
            # nothing under the default features: analyse the `unstable` configuration too
            subprocess.run("cp -al %s %s" % (os.path.join(factbase.CACHE, "target-unstable"), os.path.join(tmp, "target-u")), shell=True)
            out_u = os.path.join(tmp, "facts-u.json")
            ok, log = factbase.generate(tmp, "unstable", out_u, os.path.join(tmp, "target-u"))
            if ok:
                for pid, d in run_all(out_u, tmp).items():
                    new = [r for k, r in d.items() if k not in base[pid]]
                    if new:
                        caught[pid] = sorted({"%s %s [unstable]" % (r.rule, r.key) for r in new})[:5]
        return {"status": "ran", "caught": caught}
    finally:
        shutil.rmtree(tmp, ignore_errors=True)


BASE = None


def one_item(it):
    return one(it[1], BASE)


def main():
    items = []
    outp = os.path.join(VERIF, "seeded", "MATRIX.json")
    args = sys.argv[1:]
    if "--out" in args:
        outp = args[args.index("--out") + 1]
        del args[args.index("--out"):args.index("--out") + 2]
    for a in args:
        if os.path.isdir(a):
            for d in sorted(glob.glob(os.path.join(a, "*", "patch.diff"))):
                items.append((os.path.basename(os.path.dirname(d)), d))
        else:
            items.append((os.path.basename(a), a))
    fpath, _ = factbase.facts_for("/repo", "")
    base = {pid: set(k for k in d) for pid, d in run_all(fpath, "/repo").items()}
    rows = {}
    global BASE
    BASE = base
    with ProcessPoolExecutor(max_workers=12) as ex:
        for (name, patch), r in zip(items, ex.map(one_item, items)):
            rows[name] = r
            if r["status"] == "ran":
                print("%-28s %s" % (name, ", ".join("%s[%s]" % (p, v[0].split(" ")[0]) for p, v in sorted(r["caught"].items())) or "MISSED"))
            else:
                print("%-28s %s %s" % (name, r["status"], r.get("why", "")[:100]))
    json.dump(rows, open(outp, "w"), indent=1, default=list)


if __name__ == "__main__":
    main()
