#!/usr/bin/env python3
"""Confirm a seeded change: (1) demo passes on clean HEAD, (2) patch applies, lib suite stays 72 green,
(3) demo fails with the patch. usage: verify_seed.py /tmp/seeds/C01-A [...]  -> writes verify.json next to it."""
import json
import os
import re
import subprocess
import sys

WT = "/tmp/seedverify"


def sh(cmd, cwd=WT):
    env = dict(os.environ, CARGO_TARGET_DIR=WT + "/target", CARGO_NET_OFFLINE="true")
    return subprocess.run(cmd, shell=True, cwd=cwd, env=env, stdout=subprocess.PIPE, stderr=subprocess.STDOUT, text=True)


def main():
    if not os.path.exists(WT):
        r = sh("git -C /repo worktree add --detach %s HEAD" % WT, cwd="/")
        assert r.returncode == 0, r.stdout
    for d in sys.argv[1:]:
        d = d.rstrip("/")
        out = {"seed": os.path.basename(d)}
        try:
            meta = json.load(open(os.path.join(d, "meta.json")))
        except Exception as e:
            out["error"] = "meta.json unreadable: %r" % e
            json.dump(out, open(os.path.join(d, "verify.json"), "w"), indent=1)
            print(out)
            continue
        sh("git checkout -q --detach $(git -C /repo rev-parse HEAD); git checkout -q -- . ; git clean -fdq -e target")
        locn = meta.get("demo_location", "tests/demo.rs")
        locn = re.sub(r"^/tmp/wt2?/C\d+/", "", locn)
        m = re.search(r"(tests/[A-Za-z0-9_]+\.rs)", locn)
        if not m:
            out["error"] = "demo is not an integration test: %s" % locn
            json.dump(out, open(os.path.join(d, "verify.json"), "w"), indent=1)
            print(out)
            continue
        locn = m.group(1)
        name = os.path.basename(locn)[:-3]
        os.makedirs(os.path.join(WT, "tests"), exist_ok=True)
        sh("cp %s/demo.rs %s/%s" % (d, WT, locn))
        feat = " --features unstable" if "unstable" in meta.get("demo_cmd", "") else ""
        cmd = "cargo test --offline --test %s%s 2>&1 | grep -a -E '^test result|^error' | head -3" % (name, feat)
        r1 = sh(cmd)
        out["demo_clean"] = r1.stdout.strip()
        ap = sh("git apply %s/patch.diff" % d)
        out["patch_applies"] = ap.returncode == 0
        if ap.returncode != 0:
            out["apply_err"] = ap.stdout[-300:]
        r2 = sh("cargo test --offline --lib 2>&1 | grep -a -E '^test result|^error' | head -3")
        out["lib_with_patch"] = r2.stdout.strip()
        # a demo of an API the change itself adds keeps that part behind `#[cfg(demo_new_api)]`: enabled on the patched run only
        newapi = "demo_new_api" in json.dumps(meta) or "demo_new_api" in open(os.path.join(d, "demo.rs")).read()
        r3 = sh(('RUSTFLAGS="--cfg demo_new_api" ' if newapi else "") + cmd)
        out["demo_with_patch"] = r3.stdout.strip()
        out["confirmed"] = bool(
            out["patch_applies"] and "test result: ok" in out["demo_clean"] and "72 passed; 0 failed" in out["lib_with_patch"] and ("FAILED" in out["demo_with_patch"] or "error" in out["demo_with_patch"]) and "error" not in out["lib_with_patch"]
        )
        out["ran"] = [cmd, "git apply patch.diff", "cargo test --offline --lib", cmd]
        json.dump(out, open(os.path.join(d, "verify.json"), "w"), indent=1)
        print(out["seed"], "CONFIRMED" if out["confirmed"] else "NOT CONFIRMED", out.get("demo_clean"), "|", out.get("lib_with_patch"), "|", out.get("demo_with_patch"))
    sh("git checkout -q -- . ; git clean -fdq -e target")


if __name__ == "__main__":
    main()
