#!/usr/bin/env python3
"""Debug aid: run a property's rules on a given fact file: runfacts.py <PID[,PID..]|all> <facts.json> [-p]"""
import importlib, os, sys
sys.path.insert(0, os.path.join(os.path.dirname(os.path.dirname(os.path.abspath(__file__))), "rules"))
from engine import Facts
from registry import Ctx
pids = sys.argv[1].split(",") if sys.argv[1] != "all" else ["C%02d" % i for i in range(1, 20)]
f = Facts(sys.argv[2])
for pid in pids:
    mod = importlib.import_module(pid.lower())
    for r in mod.M.run(Ctx(f, None, "quick", "/repo")):
        if r.status != "PASS" or "-p" in sys.argv:
            print(pid, r.status, r.rule, r.key, "—", r.msg[:220], r.where)
