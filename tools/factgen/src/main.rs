// factgen: rustc_private driver that dumps the resolved MIR (mir_built) + item facts of the
// crate under analysis as one JSON file ($FACTS_OUT). Used as RUSTC_WORKSPACE_WRAPPER.
#![feature(rustc_private)]
#![allow(clippy::all)]

extern crate rustc_abi;
extern crate rustc_driver;
extern crate rustc_hir;
extern crate rustc_interface;
extern crate rustc_middle;
extern crate rustc_session;
extern crate rustc_span;

mod json;
use json::J;

use rustc_driver::Compilation;
use rustc_hir::def::DefKind;
use rustc_hir::def_id::{DefId, LocalDefId};
use rustc_interface::interface::Compiler;
use rustc_middle::mir::{
    self, AggregateKind, AssertKind, BasicBlock, Body, Const, ConstValue, Operand, Place, PlaceElem, Rvalue,
    StatementKind, TerminatorKind, UnwindAction,
};
use rustc_middle::ty::print::{with_no_trimmed_paths, with_no_visible_paths};
use rustc_middle::ty::{self, GenericArgsRef, Instance, Ty, TyCtxt, TypingEnv};
use rustc_span::Span;

struct Cb {
    target_crate: String,
}

fn dp(tcx: TyCtxt<'_>, d: DefId) -> String {
    with_no_trimmed_paths!(tcx.def_path_str(d))
}
fn dp_true(tcx: TyCtxt<'_>, d: DefId) -> String {
    with_no_visible_paths!(with_no_trimmed_paths!(tcx.def_path_str(d)))
}
fn dp_args<'tcx>(tcx: TyCtxt<'tcx>, d: DefId, a: GenericArgsRef<'tcx>) -> String {
    with_no_trimmed_paths!(tcx.def_path_str_with_args(d, a))
}
fn tys(t: Ty<'_>) -> String {
    with_no_trimmed_paths!(format!("{}", t))
}

fn span_j(tcx: TyCtxt<'_>, sp: Span) -> J {
    let sm = tcx.sess.source_map();
    let mut macros = Vec::new();
    for e in sp.macro_backtrace() {
        macros.push(J::s(e.kind.descr()));
    }
    let call = sp.source_callsite();
    let lo = sm.lookup_char_pos(call.lo());
    let file = match &lo.file.name {
        rustc_span::FileName::Real(r) => match r.local_path() {
            Some(p) => p.display().to_string(),
            None => format!("{:?}", r),
        },
        other => format!("{:?}", other),
    };
    let mut o = vec![("file", J::s(file)), ("line", J::n(lo.line as i128)), ("col", J::n(lo.col.0 as i128 + 1))];
    if !macros.is_empty() {
        o.push(("macros", J::Arr(macros)));
    }
    if sp.from_expansion() {
        o.push(("exp", J::Bool(true)));
    }
    J::obj(o)
}

struct BodyCx<'a, 'tcx> {
    tcx: TyCtxt<'tcx>,
    body: &'a Body<'tcx>,
    def: LocalDefId,
    tenv: TypingEnv<'tcx>,
}

impl<'a, 'tcx> BodyCx<'a, 'tcx> {
    fn place(&self, p: &Place<'tcx>) -> J {
        let mut proj = Vec::new();
        let mut ty = mir::PlaceTy::from_ty(self.body.local_decls[p.local].ty);
        for elem in p.projection.iter() {
            let j = match elem {
                PlaceElem::Deref => J::s("deref"),
                PlaceElem::Field(f, fty) => {
                    let name = match ty.ty.kind() {
                        ty::Adt(adt, _) => {
                            let v = match ty.variant_index {
                                Some(v) => adt.variant(v),
                                None => {
                                    if adt.is_enum() {
                                        adt.variants().iter().next().unwrap()
                                    } else {
                                        adt.non_enum_variant()
                                    }
                                }
                            };
                            v.fields.get(f).map(|fd| fd.name.to_string()).unwrap_or_else(|| f.index().to_string())
                        }
                        _ => f.index().to_string(),
                    };
                    J::obj(vec![("field", J::s(name)), ("idx", J::n(f.index() as i128)), ("ty", J::s(tys(fty)))])
                }
                PlaceElem::Index(l) => J::obj(vec![("index", J::n(l.index() as i128))]),
                PlaceElem::ConstantIndex { offset, min_length, from_end } => J::obj(vec![
                    ("constindex", J::n(offset as i128)),
                    ("min_length", J::n(min_length as i128)),
                    ("from_end", J::Bool(from_end)),
                ]),
                PlaceElem::Subslice { from, to, from_end } => J::obj(vec![
                    ("subslice", J::Arr(vec![J::n(from as i128), J::n(to as i128)])),
                    ("from_end", J::Bool(from_end)),
                ]),
                PlaceElem::Downcast(name, idx) => J::obj(vec![
                    ("downcast", J::s(name.map(|s| s.to_string()).unwrap_or_default())),
                    ("vidx", J::n(idx.index() as i128)),
                ]),
                other => J::obj(vec![("otherproj", J::s(format!("{:?}", other)))]),
            };
            proj.push(j);
            ty = ty.projection_ty(self.tcx, elem);
        }
        J::obj(vec![("local", J::n(p.local.index() as i128)), ("proj", J::Arr(proj))])
    }

    fn constant(&self, c: &mir::ConstOperand<'tcx>) -> J {
        let tcx = self.tcx;
        let ty = c.const_.ty();
        let mut o: Vec<(&str, J)> = vec![("ty", J::s(tys(ty))), ("repr", J::s(with_no_trimmed_paths!(format!("{}", c.const_))))];
        // function items / closures as constants
        match ty.kind() {
            ty::FnDef(d, a) => {
                o.push(("fn", J::s(dp(tcx, *d))));
                o.push(("fn_full", J::s(dp_args(tcx, *d, a))));
                if let DefKind::Ctor(of, _) = tcx.def_kind(*d) {
                    let vdid = tcx.parent(*d);
                    let adt_did = match of {
                        rustc_hir::def::CtorOf::Variant => tcx.parent(vdid),
                        rustc_hir::def::CtorOf::Struct => vdid,
                    };
                    let adt = tcx.adt_def(adt_did);
                    let v = match of {
                        rustc_hir::def::CtorOf::Variant => adt.variant_with_id(vdid),
                        rustc_hir::def::CtorOf::Struct => adt.non_enum_variant(),
                    };
                    o.push((
                        "ctor",
                        J::obj(vec![
                            ("adt", J::s(dp(tcx, adt_did))),
                            ("variant", J::s(v.name.to_string())),
                            ("fields", J::Arr(v.fields.iter().map(|f| J::s(f.name.to_string())).collect())),
                        ]),
                    ));
                }
                return J::obj(vec![("const", J::obj(o))]);
            }
            _ => {}
        }
        if let Const::Unevaluated(uv, _) = c.const_ {
            o.push(("def", J::s(dp(tcx, uv.def))));
            if uv.promoted.is_some() {
                o.push(("promoted", J::Bool(true)));
            }
        }
        // Promoteds / generic consts may fail to evaluate here; that's fine.
        let is_promoted = matches!(c.const_, Const::Unevaluated(uv, _) if uv.promoted.is_some());
        if !is_promoted {
            if let Ok(val) = c.const_.eval(tcx, self.tenv, c.span) {
                self.constval(val, ty, &mut o);
            }
        }
        J::obj(vec![("const", J::obj(o))])
    }

    fn constval(&self, val: ConstValue, ty: Ty<'tcx>, o: &mut Vec<(&'static str, J)>) {
        let tcx = self.tcx;
        match val {
            ConstValue::Scalar(mir::interpret::Scalar::Int(si)) => {
                let size = si.size();
                let bits = si.to_bits(size);
                let v: i128 = if ty.is_signed() { size.sign_extend(bits) as i128 } else { bits as i128 };
                o.push(("scalar", J::n(v)));
            }
            ConstValue::Scalar(mir::interpret::Scalar::Ptr(ptr, _)) => {
                // pointer to an allocation: e.g. &[u8; N] / &'static T
                let (prov, off) = ptr.into_raw_parts();
                let alloc_id = prov.alloc_id();
                if let Some(rustc_middle::mir::interpret::GlobalAlloc::Memory(a)) = tcx.try_get_global_alloc(alloc_id) {
                    let a = a.inner();
                    let len = a.len();
                    let off = off.bytes_usize();
                    if len >= off && len - off <= 4096 && a.provenance().ptrs().is_empty() {
                        let bytes = a.inspect_with_uninit_and_ptr_outside_interpreter(off..len);
                        o.push(("bytes", J::Arr(bytes.iter().map(|b| J::n(*b as i128)).collect())));
                    }
                } else if let Some(rustc_middle::mir::interpret::GlobalAlloc::Static(d)) =
                    tcx.try_get_global_alloc(alloc_id)
                {
                    o.push(("static", J::s(dp(tcx, d))));
                }
            }
            ConstValue::ZeroSized => {
                o.push(("zst", J::Bool(true)));
            }
            ConstValue::Slice { .. } => {
                if let Some(bytes) = val.try_get_slice_bytes_for_diagnostics(tcx) {
                    if bytes.len() <= 8192 {
                        if let ty::Ref(_, inner, _) = ty.kind() {
                            if inner.is_str() {
                                o.push(("str", J::s(String::from_utf8_lossy(bytes).to_string())));
                            }
                        }
                        o.push(("bytes", J::Arr(bytes.iter().map(|b| J::n(*b as i128)).collect())));
                    }
                }
            }
            ConstValue::Indirect { alloc_id, offset } => {
                if let Some(rustc_middle::mir::interpret::GlobalAlloc::Memory(a)) = tcx.try_get_global_alloc(alloc_id) {
                    let a = a.inner();
                    let len = a.len();
                    let off = offset.bytes_usize();
                    if len >= off && len - off <= 4096 && a.provenance().ptrs().is_empty() {
                        let bytes = a.inspect_with_uninit_and_ptr_outside_interpreter(off..len);
                        o.push(("bytes", J::Arr(bytes.iter().map(|b| J::n(*b as i128)).collect())));
                    } else if len >= off + 16 {
                        // wide pointer (&[u8] / &str) stored in memory: (ptr, len)
                        let is_bytes = matches!(ty.kind(), ty::Ref(_, inner, _) if inner.is_str() || matches!(inner.kind(), ty::Slice(e) if *e == tcx.types.u8));
                        if is_bytes {
                            let raw = a.inspect_with_uninit_and_ptr_outside_interpreter(off..off + 16);
                            let mut p8 = [0u8; 8];
                            p8.copy_from_slice(&raw[0..8]);
                            let inner_off = u64::from_le_bytes(p8) as usize;
                            p8.copy_from_slice(&raw[8..16]);
                            let n = u64::from_le_bytes(p8) as usize;
                            for (poff, prov) in a.provenance().ptrs().iter() {
                                if poff.bytes_usize() == off {
                                    if let Some(rustc_middle::mir::interpret::GlobalAlloc::Memory(t)) =
                                        tcx.try_get_global_alloc(prov.alloc_id())
                                    {
                                        let t = t.inner();
                                        if inner_off + n <= t.len() && n <= 8192 {
                                            let bytes = t.inspect_with_uninit_and_ptr_outside_interpreter(inner_off..inner_off + n);
                                            if let ty::Ref(_, inner, _) = ty.kind() {
                                                if inner.is_str() {
                                                    o.push(("str", J::s(String::from_utf8_lossy(bytes).to_string())));
                                                }
                                            }
                                            o.push(("bytes", J::Arr(bytes.iter().map(|b| J::n(*b as i128)).collect())));
                                        }
                                    }
                                }
                            }
                        }
                    }
                }
            }
        }
    }

    fn operand(&self, op: &Operand<'tcx>) -> J {
        match op {
            Operand::Copy(p) => J::obj(vec![("copy", self.place(p))]),
            Operand::Move(p) => J::obj(vec![("move", self.place(p))]),
            Operand::Constant(c) => self.constant(c),
            #[allow(unreachable_patterns)]
            other => J::obj(vec![("otherop", J::s(format!("{:?}", other)))]),
        }
    }

    fn rvalue(&self, rv: &Rvalue<'tcx>) -> J {
        let tcx = self.tcx;
        match rv {
            Rvalue::Use(op, ..) => J::obj(vec![("k", J::s("use")), ("op", self.operand(op))]),
            Rvalue::Repeat(op, n) => {
                J::obj(vec![("k", J::s("repeat")), ("op", self.operand(op)), ("n", J::s(format!("{:?}", n)))])
            }
            Rvalue::Ref(_, bk, p) => J::obj(vec![
                ("k", J::s("ref")),
                ("mut", J::Bool(matches!(bk, mir::BorrowKind::Mut { .. }))),
                ("place", self.place(p)),
            ]),
            Rvalue::RawPtr(kind, p) => {
                J::obj(vec![("k", J::s("rawptr")), ("kind", J::s(format!("{:?}", kind))), ("place", self.place(p))])
            }
            Rvalue::Cast(kind, op, ty) => J::obj(vec![
                ("k", J::s("cast")),
                ("kind", J::s(format!("{:?}", kind))),
                ("op", self.operand(op)),
                ("ty", J::s(tys(*ty))),
            ]),
            Rvalue::BinaryOp(bop, ops) => J::obj(vec![
                ("k", J::s("binop")),
                ("op", J::s(format!("{:?}", bop))),
                ("l", self.operand(&ops.0)),
                ("r", self.operand(&ops.1)),
            ]),
            Rvalue::UnaryOp(uop, op) => {
                J::obj(vec![("k", J::s("unop")), ("op", J::s(format!("{:?}", uop))), ("x", self.operand(op))])
            }
            Rvalue::Discriminant(p) => J::obj(vec![("k", J::s("discr")), ("place", self.place(p))]),
            Rvalue::CopyForDeref(p) => J::obj(vec![("k", J::s("use")), ("op", J::obj(vec![("copy", self.place(p))]))]),
            Rvalue::Aggregate(kind, fields) => {
                let mut o = vec![("k", J::s("aggregate"))];
                match &**kind {
                    AggregateKind::Adt(did, vidx, _args, _, _) => {
                        let adt = tcx.adt_def(*did);
                        let v = adt.variant(*vidx);
                        o.push(("adt", J::s(dp(tcx, *did))));
                        o.push(("variant", J::s(v.name.to_string())));
                        o.push(("fields", J::Arr(v.fields.iter().map(|f| J::s(f.name.to_string())).collect())));
                    }
                    AggregateKind::Tuple => o.push(("tuple", J::Bool(true))),
                    AggregateKind::Array(t) => o.push(("array", J::s(tys(*t)))),
                    AggregateKind::Closure(d, _) => o.push(("closure", J::s(dp(tcx, *d)))),
                    AggregateKind::Coroutine(d, _) => o.push(("coroutine", J::s(dp(tcx, *d)))),
                    other => o.push(("otheragg", J::s(format!("{:?}", other)))),
                }
                o.push(("ops", J::Arr(fields.iter().map(|f| self.operand(f)).collect())));
                J::obj(o)
            }
            other => J::obj(vec![("k", J::s("other")), ("dbg", J::s(format!("{:?}", other)))]),
        }
    }

    fn resolve_call(&self, fty: Ty<'tcx>) -> Vec<(&'static str, J)> {
        let tcx = self.tcx;
        let mut o = Vec::new();
        if let ty::FnDef(d, a) = fty.kind() {
            o.push(("callee", J::s(dp(tcx, *d))));
            o.push(("callee_true", J::s(dp_true(tcx, *d))));
            o.push(("callee_full", J::s(dp_args(tcx, *d, a))));
            o.push(("gargs", J::Arr(a.iter().map(|g| J::s(with_no_trimmed_paths!(format!("{}", g)))).collect())));
            if let Some(tr) = tcx.trait_of_assoc(*d) {
                o.push(("trait", J::s(dp(tcx, tr))));
                if let Some(first) = a.types().next() {
                    o.push(("self_ty", J::s(tys(first))));
                }
            }
            match Instance::try_resolve(tcx, self.tenv, *d, a) {
                Ok(Some(inst)) => {
                    let rd = inst.def_id();
                    o.push(("resolved", J::s(dp(tcx, rd))));
                    o.push(("resolved_true", J::s(dp_true(tcx, rd))));
                    o.push(("resolved_full", J::s(dp_args(tcx, rd, inst.args))));
                    o.push(("resolved_kind", J::s(format!("{:?}", std::mem::discriminant(&inst.def)))));
                    o.push(("resolved_local", J::Bool(rd.is_local())));
                    if let Some(imp) = tcx.impl_of_assoc(rd) {
                        o.push(("impl_self", J::s(tys(tcx.type_of(imp).instantiate_identity().skip_norm_wip()))));
                    }
                }
                Ok(None) => {
                    o.push(("resolved", J::s("GENERIC")));
                }
                Err(_) => {
                    o.push(("resolved", J::s("ERROR")));
                }
            }
        } else {
            o.push(("callee", J::s("INDIRECT")));
            o.push(("callee_ty", J::s(tys(fty))));
        }
        o
    }

    fn emit(&self) -> J {
        let tcx = self.tcx;
        let body = self.body;
        let did = self.def.to_def_id();
        let mut o: Vec<(&str, J)> = vec![
            ("path", J::s(dp(tcx, did))),
            ("kind", J::s(format!("{:?}", tcx.def_kind(did)))),
            ("span", span_j(tcx, body.span)),
            ("arg_count", J::n(body.arg_count as i128)),
        ];
        if let Some(ck) = tcx.coroutine_kind(did) {
            o.push(("coroutine_kind", J::s(format!("{:?}", ck))));
        }
        if matches!(tcx.def_kind(did), DefKind::Closure | DefKind::InlineConst | DefKind::AnonConst) {
            let parent = tcx.parent(did);
            o.push(("parent", J::s(dp(tcx, parent))));
        }
        if matches!(tcx.def_kind(did), DefKind::Fn | DefKind::AssocFn) {
            o.push(("vis", J::s(format!("{:?}", tcx.visibility(did)))));
            if let Some(imp) = tcx.impl_of_assoc(did) {
                o.push(("impl_self", J::s(tys(tcx.type_of(imp).instantiate_identity().skip_norm_wip()))));
                if let Some(tr) = tcx.impl_opt_trait_ref(imp) {
                    o.push((
                        "impl_trait",
                        J::s(with_no_trimmed_paths!(format!("{}", tr.instantiate_identity().skip_norm_wip()))),
                    ));
                }
            }
        }
        // locals
        let mut names: std::collections::HashMap<usize, String> = Default::default();
        for vdi in &body.var_debug_info {
            if let mir::VarDebugInfoContents::Place(p) = &vdi.value {
                if p.projection.is_empty() {
                    names.entry(p.local.index()).or_insert_with(|| vdi.name.to_string());
                } else {
                    // captured upvars: _1.field
                    o.push((
                        "upvar",
                        J::obj(vec![("name", J::s(vdi.name.to_string())), ("place", self.place(p))]),
                    ));
                }
            }
        }
        let mut locals = Vec::new();
        for (l, decl) in body.local_decls.iter_enumerated() {
            let mut lo = vec![("id", J::n(l.index() as i128)), ("ty", J::s(tys(decl.ty)))];
            if let Some(n) = names.get(&l.index()) {
                lo.push(("name", J::s(n.clone())));
            }
            if decl.mutability.is_mut() {
                lo.push(("mut", J::Bool(true)));
            }
            locals.push(J::obj(lo));
        }
        o.push(("locals", J::Arr(locals)));
        // blocks
        let mut blocks = Vec::new();
        for (bb, data) in body.basic_blocks.iter_enumerated() {
            let mut stmts = Vec::new();
            for st in &data.statements {
                match &st.kind {
                    StatementKind::Assign(b) => {
                        let (p, rv) = &**b;
                        stmts.push(J::obj(vec![
                            ("k", J::s("assign")),
                            ("place", self.place(p)),
                            ("rv", self.rvalue(rv)),
                            ("span", span_j(tcx, st.source_info.span)),
                        ]));
                    }
                    StatementKind::SetDiscriminant { place, variant_index } => {
                        stmts.push(J::obj(vec![
                            ("k", J::s("setdiscr")),
                            ("place", self.place(place)),
                            ("vidx", J::n(variant_index.index() as i128)),
                        ]));
                    }
                    StatementKind::Intrinsic(i) => {
                        stmts.push(J::obj(vec![("k", J::s("intrinsic")), ("dbg", J::s(format!("{:?}", i)))]));
                    }
                    _ => {}
                }
            }
            let term = data.terminator();
            let tspan = span_j(tcx, term.source_info.span);
            let bbn = |b: BasicBlock| J::n(b.index() as i128);
            let unw = |u: &UnwindAction| match u {
                UnwindAction::Cleanup(b) => J::n(b.index() as i128),
                _ => J::Null,
            };
            let t = match &term.kind {
                TerminatorKind::Goto { target } => J::obj(vec![("k", J::s("goto")), ("target", bbn(*target))]),
                TerminatorKind::FalseEdge { real_target, .. } => {
                    J::obj(vec![("k", J::s("goto")), ("target", bbn(*real_target)), ("false_edge", J::Bool(true))])
                }
                TerminatorKind::FalseUnwind { real_target, .. } => {
                    J::obj(vec![("k", J::s("goto")), ("target", bbn(*real_target)), ("false_unwind", J::Bool(true))])
                }
                TerminatorKind::SwitchInt { discr, targets } => {
                    let mut ts = Vec::new();
                    for (v, b) in targets.iter() {
                        ts.push(J::Arr(vec![J::n(v as i128), bbn(b)]));
                    }
                    let dty = discr.ty(&body.local_decls, tcx);
                    J::obj(vec![
                        ("k", J::s("switch")),
                        ("discr", self.operand(discr)),
                        ("discr_ty", J::s(tys(dty))),
                        ("targets", J::Arr(ts)),
                        ("otherwise", bbn(targets.otherwise())),
                    ])
                }
                TerminatorKind::Return => J::obj(vec![("k", J::s("return"))]),
                TerminatorKind::Unreachable => J::obj(vec![("k", J::s("unreachable"))]),
                TerminatorKind::UnwindResume => J::obj(vec![("k", J::s("resume"))]),
                TerminatorKind::UnwindTerminate(_) => J::obj(vec![("k", J::s("terminate"))]),
                TerminatorKind::CoroutineDrop => J::obj(vec![("k", J::s("coroutine_drop"))]),
                TerminatorKind::Drop { place, target, unwind, .. } => J::obj(vec![
                    ("k", J::s("drop")),
                    ("place", self.place(place)),
                    ("target", bbn(*target)),
                    ("unwind", unw(unwind)),
                ]),
                TerminatorKind::Call { func, args, destination, target, unwind, fn_span, .. } => {
                    let fty = func.ty(&body.local_decls, tcx);
                    let mut c = vec![("k", J::s("call"))];
                    c.extend(self.resolve_call(fty));
                    if !matches!(fty.kind(), ty::FnDef(..)) {
                        c.push(("func", self.operand(func)));
                    }
                    c.push(("args", J::Arr(args.iter().map(|a| self.operand(&a.node)).collect())));
                    c.push((
                        "arg_tys",
                        J::Arr(args.iter().map(|a| J::s(tys(a.node.ty(&body.local_decls, tcx)))).collect()),
                    ));
                    c.push(("dest", self.place(destination)));
                    c.push(("target", target.map(bbn).unwrap_or(J::Null)));
                    c.push(("unwind", unw(unwind)));
                    c.push(("fn_span", span_j(tcx, *fn_span)));
                    J::obj(c)
                }
                TerminatorKind::TailCall { func, args, .. } => {
                    let fty = func.ty(&body.local_decls, tcx);
                    let mut c = vec![("k", J::s("tailcall"))];
                    c.extend(self.resolve_call(fty));
                    c.push(("args", J::Arr(args.iter().map(|a| self.operand(&a.node)).collect())));
                    J::obj(c)
                }
                TerminatorKind::Assert { cond, expected, msg, target, unwind } => {
                    let (kind, ops): (String, Vec<J>) = match &**msg {
                        AssertKind::BoundsCheck { len, index } => {
                            ("BoundsCheck".into(), vec![self.operand(len), self.operand(index)])
                        }
                        AssertKind::Overflow(op, l, r) => {
                            (format!("Overflow({:?})", op), vec![self.operand(l), self.operand(r)])
                        }
                        AssertKind::OverflowNeg(x) => ("OverflowNeg".into(), vec![self.operand(x)]),
                        AssertKind::DivisionByZero(x) => ("DivisionByZero".into(), vec![self.operand(x)]),
                        AssertKind::RemainderByZero(x) => ("RemainderByZero".into(), vec![self.operand(x)]),
                        other => (format!("{:?}", other), vec![]),
                    };
                    J::obj(vec![
                        ("k", J::s("assert")),
                        ("cond", self.operand(cond)),
                        ("expected", J::Bool(*expected)),
                        ("kind", J::s(kind)),
                        ("ops", J::Arr(ops)),
                        ("target", bbn(*target)),
                        ("unwind", unw(unwind)),
                    ])
                }
                TerminatorKind::Yield { value, resume, resume_arg, drop } => J::obj(vec![
                    ("k", J::s("yield")),
                    ("value", self.operand(value)),
                    ("target", bbn(*resume)),
                    ("resume_arg", self.place(resume_arg)),
                    ("drop", drop.map(bbn).unwrap_or(J::Null)),
                ]),
                TerminatorKind::InlineAsm { .. } => J::obj(vec![("k", J::s("asm"))]),
            };
            blocks.push(J::obj(vec![
                ("id", J::n(bb.index() as i128)),
                ("cleanup", J::Bool(data.is_cleanup)),
                ("stmts", J::Arr(stmts)),
                ("term", t),
                ("tspan", tspan),
            ]));
        }
        o.push(("blocks", J::Arr(blocks)));
        J::obj(o)
    }
}

struct UnsafeFinder<'tcx> {
    tcx: TyCtxt<'tcx>,
    out: Vec<J>,
}
impl<'tcx> rustc_hir::intravisit::Visitor<'tcx> for UnsafeFinder<'tcx> {
    type NestedFilter = rustc_middle::hir::nested_filter::All;
    fn maybe_tcx(&mut self) -> Self::MaybeTyCtxt {
        self.tcx
    }
    fn visit_block(&mut self, b: &'tcx rustc_hir::Block<'tcx>) {
        if let rustc_hir::BlockCheckMode::UnsafeBlock(src) = b.rules {
            self.out.push(J::obj(vec![
                ("span", span_j(self.tcx, b.span)),
                ("source", J::s(format!("{:?}", src))),
                ("from_expansion", J::Bool(b.span.from_expansion())),
            ]));
        }
        rustc_hir::intravisit::walk_block(self, b);
    }
}

fn item_facts<'tcx>(tcx: TyCtxt<'tcx>) -> Vec<(&'static str, J)> {
    let mut adts = Vec::new();
    let mut impls = Vec::new();
    let mut statics = Vec::new();
    let mut consts = Vec::new();
    let mut traits = Vec::new();
    let mut fns = Vec::new();
    for ld in tcx.hir_crate_items(()).definitions() {
        let did = ld.to_def_id();
        let kind = tcx.def_kind(did);
        match kind {
            DefKind::Struct | DefKind::Enum | DefKind::Union => {
                let adt = tcx.adt_def(did);
                let mut variants = Vec::new();
                for v in adt.variants() {
                    let mut fields = Vec::new();
                    for f in v.fields.iter() {
                        fields.push(J::obj(vec![
                            ("name", J::s(f.name.to_string())),
                            ("ty", J::s(tys(tcx.type_of(f.did).instantiate_identity().skip_norm_wip()))),
                            ("vis", J::s(format!("{:?}", f.vis))),
                        ]));
                    }
                    variants.push(J::obj(vec![("name", J::s(v.name.to_string())), ("fields", J::Arr(fields))]));
                }
                adts.push(J::obj(vec![
                    ("path", J::s(dp(tcx, did))),
                    ("kind", J::s(format!("{:?}", kind))),
                    ("vis", J::s(format!("{:?}", tcx.visibility(did)))),
                    ("variants", J::Arr(variants)),
                    ("span", span_j(tcx, tcx.def_span(did))),
                ]));
            }
            DefKind::Impl { of_trait } => {
                let self_ty = tys(tcx.type_of(did).instantiate_identity().skip_norm_wip());
                let mut o = vec![
                    ("self_ty", J::s(self_ty)),
                    ("of_trait", J::Bool(of_trait)),
                    ("derived", J::Bool(tcx.is_automatically_derived(did))),
                    ("span", span_j(tcx, tcx.def_span(did))),
                ];
                if let Some(tr) = tcx.impl_opt_trait_ref(did) {
                    let tr = tr.instantiate_identity().skip_norm_wip();
                    o.push(("trait", J::s(dp(tcx, tr.def_id))));
                    o.push(("trait_full", J::s(with_no_trimmed_paths!(format!("{}", tr)))));
                }
                o.push((
                    "items",
                    J::Arr(tcx.associated_item_def_ids(did).iter().map(|d| J::s(dp(tcx, *d))).collect()),
                ));
                impls.push(J::obj(o));
            }
            DefKind::Static { mutability, nested, .. } => {
                statics.push(J::obj(vec![
                    ("path", J::s(dp(tcx, did))),
                    ("ty", J::s(tys(tcx.type_of(did).instantiate_identity().skip_norm_wip()))),
                    ("mutable", J::Bool(mutability.is_mut())),
                    ("nested", J::Bool(nested)),
                    ("span", span_j(tcx, tcx.def_span(did))),
                ]));
            }
            DefKind::Const { .. } | DefKind::AssocConst { .. } => {
                consts.push(J::obj(vec![
                    ("path", J::s(dp(tcx, did))),
                    ("ty", J::s(tys(tcx.type_of(did).instantiate_identity().skip_norm_wip()))),
                ]));
            }
            DefKind::Trait => {
                traits.push(J::obj(vec![
                    ("path", J::s(dp(tcx, did))),
                    (
                        "items",
                        J::Arr(tcx.associated_item_def_ids(did).iter().map(|d| J::s(dp(tcx, *d))).collect()),
                    ),
                ]));
            }
            DefKind::Fn | DefKind::AssocFn => {
                let sig = tcx.fn_sig(did).instantiate_identity().skip_norm_wip();
                fns.push(J::obj(vec![
                    ("path", J::s(dp(tcx, did))),
                    ("vis", J::s(format!("{:?}", tcx.visibility(did)))),
                    ("sig", J::s(with_no_trimmed_paths!(format!("{}", sig)))),
                    ("span", span_j(tcx, tcx.def_span(did))),
                ]));
            }
            _ => {}
        }
    }
    let mut uf = UnsafeFinder { tcx, out: Vec::new() };
    tcx.hir_visit_all_item_likes_in_crate(&mut uf);
    vec![
        ("adts", J::Arr(adts)),
        ("impls", J::Arr(impls)),
        ("statics", J::Arr(statics)),
        ("consts", J::Arr(consts)),
        ("traits", J::Arr(traits)),
        ("fns", J::Arr(fns)),
        ("unsafe_blocks", J::Arr(uf.out)),
    ]
}

impl rustc_driver::Callbacks for Cb {
    fn after_expansion<'tcx>(&mut self, _c: &Compiler, tcx: TyCtxt<'tcx>) -> Compilation {
        let cname = tcx.crate_name(rustc_hir::def_id::LOCAL_CRATE).to_string();
        if cname != self.target_crate {
            return Compilation::Continue;
        }
        let out = match std::env::var("FACTS_OUT") {
            Ok(o) => o,
            Err(_) => return Compilation::Continue,
        };
        // Phase 1: clone all mir_built bodies before anything can steal them.
        let mut bodies: Vec<(LocalDefId, Body<'tcx>)> = Vec::new();
        // Building the MIR of a function can const-evaluate an array length or a `const` it mentions, which steals
        // that constant's own mir_built: named constants and statics are therefore cloned first (in source order),
        // and a body that was stolen anyway (an anonymous array-length constant, a constant used by another constant)
        // is skipped rather than read. Anonymous constants are NOT moved to the front: type-checking them before
        // their parent changes method probing in the parent (observed: a spurious E0658 on `[u8; M]::as_slice`).
        let mut owners: Vec<LocalDefId> = tcx.hir_body_owners().collect();
        owners.sort_by_key(|d| match tcx.def_kind(d.to_def_id()) {
            DefKind::Const { .. } | DefKind::AssocConst { .. } | DefKind::Static { .. } => 1,
            _ => 2,
        });
        for def in owners {
            let steal = tcx.mir_built(def);
            if steal.is_stolen() {
                continue;
            }
            let b = steal.borrow().clone();
            bodies.push((def, b));
        }
        // Phase 2: emit with resolution.
        let mut jb = Vec::new();
        for (def, body) in &bodies {
            let tenv = TypingEnv::post_analysis(tcx, def.to_def_id());
            let cx = BodyCx { tcx, body, def: *def, tenv };
            jb.push(cx.emit());
        }
        let mut top: Vec<(&str, J)> = vec![
            ("crate", J::s(cname)),
            ("rustc", J::s(rustc_interface::util::rustc_version_str().unwrap_or("?"))),
            (
                "cfg_features",
                J::Arr(
                    tcx.sess
                        .opts
                        .cg
                        .target_feature
                        .split(',')
                        .filter(|s| !s.is_empty())
                        .map(|s| J::s(s))
                        .collect(),
                ),
            ),
            (
                "crate_cfg",
                J::Arr(
                    tcx.sess
                        .config
                        .iter()
                        .filter(|(k, _)| k.as_str() == "feature" || k.as_str() == "test" || k.as_str().contains("verif"))
                        .map(|(k, v)| J::s(format!("{}={}", k, v.map(|s| s.to_string()).unwrap_or_default())))
                        .collect(),
                ),
            ),
            ("n_bodies", J::n(jb.len() as i128)),
        ];
        top.extend(item_facts(tcx));
        top.push(("bodies", J::Arr(jb)));
        let s = J::obj(top).to_string();
        std::fs::write(&out, s).expect("write facts");
        Compilation::Continue
    }
}

fn main() {
    let mut args: Vec<String> = std::env::args().collect();
    // As RUSTC_WORKSPACE_WRAPPER: argv[1] is the real rustc path; drop it.
    if args.len() > 1 && (args[1].ends_with("rustc") || args[1].contains("/rustc")) {
        args.remove(1);
    }
    let target = std::env::var("FACTS_CRATE").unwrap_or_else(|_| "scratchstack_aws_signature".to_string());
    let mut cb = Cb { target_crate: target };
    rustc_driver::run_compiler(&args, &mut cb);
}
