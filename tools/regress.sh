#!/bin/bash
# Regression of the checker itself: (1) every catalogue mutant / own-property seed must be reported (thorough tier),
# (2) no behaviour-preserving refactoring of the corpus may raise an alarm.
cd /verif
echo "== thorough"; for i in 01 02 03 04 05 06 07 08 09 10 11 12 13 14 15 16 17 18 19; do ./check C$i --tier thorough 2>&1 | grep -E "thorough:|selftest:" | cut -c1-200; done | grep -E "selftest:|[1-9][0-9]* violation" 
echo "== refactors (lines listed = false alarms)"
python3 tools/seedmatrix.py --out /tmp/MATRIX_rf_last.json $(pwd)/refactors 2>&1 | cut -c1-200 | grep -v MISSED
echo "== done"
