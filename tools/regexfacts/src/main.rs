// regexfacts: static facts about regex literals (parsed with the regex-syntax version the library links).
// usage: regexfacts <pattern>...   -> JSON array on stdout. The pattern is never matched against anything.
mod json;
use json::J;
use regex_syntax::hir::{Class, Hir, HirKind, Look};
use regex_syntax::ParserBuilder;

const LIMIT: usize = 10_000;

/// Finite language of a sub-expression (None if infinite or larger than LIMIT).
fn language(h: &Hir) -> Option<Vec<String>> {
    match h.kind() {
        HirKind::Empty => Some(vec![String::new()]),
        HirKind::Literal(l) => Some(vec![String::from_utf8_lossy(&l.0).to_string()]),
        HirKind::Class(c) => {
            let mut out = Vec::new();
            match c {
                Class::Unicode(u) => {
                    for r in u.ranges() {
                        let (a, b) = (r.start() as u32, r.end() as u32);
                        if (b - a) as usize + out.len() > LIMIT {
                            return None;
                        }
                        for x in a..=b {
                            if let Some(ch) = char::from_u32(x) {
                                out.push(ch.to_string());
                            }
                        }
                    }
                }
                Class::Bytes(bc) => {
                    for r in bc.ranges() {
                        for x in r.start()..=r.end() {
                            out.push((x as char).to_string());
                        }
                    }
                }
            }
            Some(out)
        }
        HirKind::Look(_) => Some(vec![String::new()]),
        HirKind::Repetition(r) => {
            let max = r.max?;
            let sub = language(&r.sub)?;
            let mut total: Vec<String> = Vec::new();
            for n in r.min..=max {
                let mut cur = vec![String::new()];
                for _ in 0..n {
                    let mut next = Vec::new();
                    for p in &cur {
                        for s in &sub {
                            next.push(format!("{}{}", p, s));
                            if next.len() > LIMIT {
                                return None;
                            }
                        }
                    }
                    cur = next;
                }
                total.extend(cur);
                if total.len() > LIMIT {
                    return None;
                }
            }
            total.sort();
            total.dedup();
            Some(total)
        }
        HirKind::Capture(c) => language(&c.sub),
        HirKind::Concat(v) => {
            let mut cur = vec![String::new()];
            for e in v {
                let l = language(e)?;
                let mut next = Vec::new();
                for p in &cur {
                    for s in &l {
                        next.push(format!("{}{}", p, s));
                        if next.len() > LIMIT {
                            return None;
                        }
                    }
                }
                cur = next;
            }
            Some(cur)
        }
        HirKind::Alternation(v) => {
            let mut out = Vec::new();
            for e in v {
                out.extend(language(e)?);
                if out.len() > LIMIT {
                    return None;
                }
            }
            out.sort();
            out.dedup();
            Some(out)
        }
    }
}

/// Language of the pattern with every NAMED group replaced by the token `<name>`: the literal skeleton (separators,
/// their optionality and alternatives) between the fields. None if infinite or too large.
fn skeleton(h: &Hir) -> Option<Vec<String>> {
    match h.kind() {
        HirKind::Capture(c) if c.name.is_some() => Some(vec![format!("<{}>", c.name.as_ref().unwrap())]),
        HirKind::Capture(c) => skeleton(&c.sub),
        HirKind::Repetition(r) => {
            let max = r.max?;
            let sub = skeleton(&r.sub)?;
            let mut total: Vec<String> = Vec::new();
            for n in r.min..=max {
                let mut cur = vec![String::new()];
                for _ in 0..n {
                    let mut next = Vec::new();
                    for p in &cur {
                        for s in &sub {
                            next.push(format!("{}{}", p, s));
                            if next.len() > LIMIT {
                                return None;
                            }
                        }
                    }
                    cur = next;
                }
                total.extend(cur);
                if total.len() > LIMIT {
                    return None;
                }
            }
            total.sort();
            total.dedup();
            Some(total)
        }
        HirKind::Concat(v) => {
            let mut cur = vec![String::new()];
            for e in v {
                let l = skeleton(e)?;
                let mut next = Vec::new();
                for p in &cur {
                    for s in &l {
                        next.push(format!("{}{}", p, s));
                        if next.len() > LIMIT {
                            return None;
                        }
                    }
                }
                cur = next;
            }
            Some(cur)
        }
        HirKind::Alternation(v) => {
            let mut out = Vec::new();
            for e in v {
                out.extend(skeleton(e)?);
                if out.len() > LIMIT {
                    return None;
                }
            }
            out.sort();
            out.dedup();
            Some(out)
        }
        _ => language(h),
    }
}

const LEN_CAP: usize = 300;

/// Code points that can occur in a match (None: more than 512, or the pattern has a look-around).
fn alphabet(h: &Hir, out: &mut std::collections::BTreeSet<u32>) -> bool {
    match h.kind() {
        HirKind::Empty => true,
        HirKind::Look(_) => false,
        HirKind::Literal(l) => {
            for ch in String::from_utf8_lossy(&l.0).chars() {
                out.insert(ch as u32);
            }
            true
        }
        HirKind::Class(Class::Unicode(u)) => {
            for r in u.ranges() {
                if (r.end() as u32 - r.start() as u32) as usize + out.len() > 512 {
                    return false;
                }
                for x in r.start() as u32..=r.end() as u32 {
                    out.insert(x);
                }
            }
            true
        }
        HirKind::Class(Class::Bytes(b)) => {
            for r in b.ranges() {
                for x in r.start()..=r.end() {
                    out.insert(x as u32);
                }
            }
            true
        }
        HirKind::Repetition(r) => alphabet(&r.sub, out),
        HirKind::Capture(c) => alphabet(&c.sub, out),
        HirKind::Concat(v) | HirKind::Alternation(v) => v.iter().all(|e| alphabet(e, out)),
    }
}

/// Lengths (in characters, <= LEN_CAP) of the strings in the language, and the number of literal characters / classes.
fn lengths(h: &Hir, atoms: &mut usize) -> Vec<bool> {
    let mut z = vec![false; LEN_CAP + 1];
    match h.kind() {
        HirKind::Empty | HirKind::Look(_) => z[0] = true,
        HirKind::Literal(l) => {
            let n = String::from_utf8_lossy(&l.0).chars().count();
            *atoms += n;
            if n <= LEN_CAP {
                z[n] = true;
            }
        }
        HirKind::Class(_) => {
            *atoms += 1;
            z[1] = true;
        }
        HirKind::Capture(c) => return lengths(&c.sub, atoms),
        HirKind::Concat(v) => {
            z[0] = true;
            for e in v {
                let l = lengths(e, atoms);
                z = conv(&z, &l);
            }
        }
        HirKind::Alternation(v) => {
            for e in v {
                let l = lengths(e, atoms);
                for i in 0..=LEN_CAP {
                    z[i] = z[i] || l[i];
                }
            }
        }
        HirKind::Repetition(r) => {
            let sub = lengths(&r.sub, atoms);
            let mut cur = vec![false; LEN_CAP + 1];
            cur[0] = true;
            for _ in 0..r.min {
                cur = conv(&cur, &sub);
            }
            let mut acc = cur.clone();
            let extra = match r.max {
                Some(m) => (m - r.min) as usize,
                None => LEN_CAP,
            };
            for _ in 0..extra.min(LEN_CAP) {
                cur = conv(&cur, &sub);
                let mut changed = false;
                for i in 0..=LEN_CAP {
                    if cur[i] && !acc[i] {
                        acc[i] = true;
                        changed = true;
                    }
                }
                if !changed {
                    break;
                }
            }
            z = acc;
        }
    }
    z
}

fn conv(a: &[bool], b: &[bool]) -> Vec<bool> {
    let mut z = vec![false; LEN_CAP + 1];
    for i in 0..=LEN_CAP {
        if a[i] {
            for j in 0..=LEN_CAP - i {
                if b[j] {
                    z[i + j] = true;
                }
            }
        }
    }
    z
}

fn ascii_only(h: &Hir) -> bool {
    match h.kind() {
        HirKind::Empty | HirKind::Look(_) => true,
        HirKind::Literal(l) => l.0.iter().all(|b| *b < 128),
        HirKind::Class(Class::Unicode(u)) => u.ranges().iter().all(|r| (r.end() as u32) < 128),
        HirKind::Class(Class::Bytes(b)) => b.ranges().iter().all(|r| r.end() < 128),
        HirKind::Repetition(r) => ascii_only(&r.sub),
        HirKind::Capture(c) => ascii_only(&c.sub),
        HirKind::Concat(v) | HirKind::Alternation(v) => v.iter().all(ascii_only),
    }
}

fn class_desc(h: &Hir) -> String {
    format!("{:?}", h.kind()).chars().take(300).collect()
}

struct G {
    name: String,
    index: u32,
    unconditional: bool,
    lang: Option<Vec<String>>,
    ascii: bool,
    min_len: Option<usize>,
    max_len: Option<usize>,
    desc: String,
    rep: Option<(u32, Option<u32>)>,
}

fn walk(h: &Hir, uncond: bool, out: &mut Vec<G>) {
    match h.kind() {
        HirKind::Capture(c) => {
            let p = c.sub.properties();
            out.push(G {
                name: c.name.as_ref().map(|s| s.to_string()).unwrap_or_default(),
                index: c.index,
                unconditional: uncond,
                lang: language(&c.sub),
                ascii: ascii_only(&c.sub),
                min_len: p.minimum_len(),
                max_len: p.maximum_len(),
                desc: class_desc(&c.sub),
                rep: match c.sub.kind() {
                    HirKind::Repetition(r) if matches!(r.sub.kind(), HirKind::Class(_)) => Some((r.min, r.max)),
                    _ => None,
                },
            });
            walk(&c.sub, uncond, out);
        }
        HirKind::Concat(v) => {
            for e in v {
                walk(e, uncond, out);
            }
        }
        HirKind::Alternation(v) => {
            for e in v {
                walk(e, false, out);
            }
        }
        HirKind::Repetition(r) => walk(&r.sub, uncond && r.min >= 1, out),
        _ => {}
    }
}

fn main() {
    let mut res = Vec::new();
    for pat in std::env::args().skip(1) {
        let mut o: Vec<(&str, J)> = vec![("pattern", J::s(pat.clone()))];
        match ParserBuilder::new().build().parse(&pat) {
            Err(e) => {
                o.push(("parse_ok", J::Bool(false)));
                o.push(("error", J::s(e.to_string())));
            }
            Ok(h) => {
                let p = h.properties();
                o.push(("parse_ok", J::Bool(true)));
                o.push(("anchored_start", J::Bool(p.look_set_prefix().contains(Look::Start))));
                o.push(("anchored_end", J::Bool(p.look_set_suffix().contains(Look::End))));
                o.push(("utf8", J::Bool(p.is_utf8())));
                o.push(("min_len", p.minimum_len().map(|x| J::n(x as i128)).unwrap_or(J::Null)));
                o.push(("max_len", p.maximum_len().map(|x| J::n(x as i128)).unwrap_or(J::Null)));
                o.push(("ascii_only", J::Bool(ascii_only(&h))));
                o.push(("skeleton", skeleton(&h).map(|l| J::Arr(l.into_iter().map(J::s).collect())).unwrap_or(J::Null)));
                let mut al = std::collections::BTreeSet::new();
                if alphabet(&h, &mut al) && al.len() <= 64 {
                    o.push(("alphabet", J::s(al.iter().filter_map(|x| char::from_u32(*x)).collect::<String>())));
                } else {
                    o.push(("alphabet", J::Null));
                }
                let mut atoms = 0usize;
                let ls = lengths(&h, &mut atoms);
                o.push(("atoms", J::n(atoms as i128)));
                o.push(("len_cap", J::n(LEN_CAP as i128)));
                o.push(("lengths", J::Arr(ls.iter().enumerate().filter(|(_, b)| **b).map(|(i, _)| J::n(i as i128)).collect())));
                let mut gs = Vec::new();
                walk(&h, true, &mut gs);
                o.push((
                    "groups",
                    J::Arr(
                        gs.into_iter()
                            .map(|g| {
                                J::obj(vec![
                                    ("name", J::s(g.name)),
                                    ("index", J::n(g.index as i128)),
                                    ("unconditional", J::Bool(g.unconditional)),
                                    ("finite", J::Bool(g.lang.is_some())),
                                    ("language", g.lang.map(|l| J::Arr(l.into_iter().map(J::s).collect())).unwrap_or(J::Null)),
                                    ("ascii_only", J::Bool(g.ascii)),
                                    ("min_len", g.min_len.map(|x| J::n(x as i128)).unwrap_or(J::Null)),
                                    ("max_len", g.max_len.map(|x| J::n(x as i128)).unwrap_or(J::Null)),
                                    ("desc", J::s(g.desc)),
                                    ("rep_min", g.rep.map(|r| J::n(r.0 as i128)).unwrap_or(J::Null)),
                                    ("rep_max", g.rep.and_then(|r| r.1).map(|x| J::n(x as i128)).unwrap_or(J::Null)),
                                ])
                            })
                            .collect(),
                    ),
                ));
            }
        }
        res.push(J::obj(o));
    }
    println!("{}", J::Arr(res).to_string());
}
