// Minimal JSON value + serializer (no dependencies).
pub enum J {
    Null,
    Bool(bool),
    Num(i128),
    Str(String),
    Arr(Vec<J>),
    Obj(Vec<(String, J)>),
}

impl J {
    pub fn s<S: Into<String>>(s: S) -> J {
        J::Str(s.into())
    }
    pub fn n(n: i128) -> J {
        J::Num(n)
    }
    pub fn obj(v: Vec<(&str, J)>) -> J {
        J::Obj(v.into_iter().map(|(k, v)| (k.to_string(), v)).collect())
    }
    pub fn write(&self, out: &mut String) {
        match self {
            J::Null => out.push_str("null"),
            J::Bool(b) => out.push_str(if *b { "true" } else { "false" }),
            J::Num(n) => out.push_str(&n.to_string()),
            J::Str(s) => esc(s, out),
            J::Arr(a) => {
                out.push('[');
                for (i, x) in a.iter().enumerate() {
                    if i > 0 {
                        out.push(',');
                    }
                    x.write(out);
                }
                out.push(']');
            }
            J::Obj(o) => {
                out.push('{');
                for (i, (k, v)) in o.iter().enumerate() {
                    if i > 0 {
                        out.push(',');
                    }
                    esc(k, out);
                    out.push(':');
                    v.write(out);
                }
                out.push('}');
            }
        }
    }
    pub fn to_string(&self) -> String {
        let mut s = String::new();
        self.write(&mut s);
        s
    }
}

fn esc(s: &str, out: &mut String) {
    out.push('"');
    for c in s.chars() {
        match c {
            '"' => out.push_str("\\\""),
            '\\' => out.push_str("\\\\"),
            '\n' => out.push_str("\\n"),
            '\r' => out.push_str("\\r"),
            '\t' => out.push_str("\\t"),
            c if (c as u32) < 0x20 => out.push_str(&format!("\\u{:04x}", c as u32)),
            c => out.push(c),
        }
    }
    out.push('"');
}
