#!/usr/bin/env python3
"""Systematic one-token mutation sweep of /repo (development aid, not a registered check).

  mutsweep.py gen  <outdir>            enumerate mutants of the non-test code -> <outdir>/all.json
  mutsweep.py run  <outdir> [workers]  build + `cargo test --lib` every mutant in scratch worktrees under <outdir>/w*,
                                       store the ones the 72 tests do NOT notice as <outdir>/survivors/<id>/patch.diff
The survivors are then run through tools/seedmatrix.py: one that no check reports is either an equivalent mutant
(behaviour unchanged) or a miss of the checks, to be triaged by hand."""
import json
import os
import re
import subprocess
import sys
from concurrent.futures import ThreadPoolExecutor

FILES = ["src/auth.rs", "src/canonical.rs", "src/chronoutil.rs", "src/crypto.rs", "src/error.rs", "src/signature.rs", "src/signing_key.rs"]
REPO = "/repo"


def code_region(text):
    m = re.search(r"^#\[cfg\(test\)\]", text, re.M)
    return len(text) if not m else m.start()


def mask(text):
    """Same-length copy of text with comments, string / char / byte-string literals and attributes blanked."""
    out = list(text)
    i, n = 0, len(text)

    def blank(a, b):
        for k in range(a, b):
            if out[k] != "\n":
                out[k] = " "

    while i < n:
        c = text[i]
        if text.startswith("//", i):
            j = text.find("\n", i)
            j = n if j < 0 else j
            blank(i, j)
            i = j
        elif text.startswith("/*", i):
            j = text.find("*/", i + 2)
            j = n if j < 0 else j + 2
            blank(i, j)
            i = j
        elif c == '"' or (c == "b" and text.startswith('b"', i)) or (c == "r" and re.match(r'r#*"', text[i:])):
            m = re.match(r'(b?r(#*)")', text[i:])
            if m:
                close = '"' + m.group(2)
                j = text.find(close, i + len(m.group(1)))
                j = n if j < 0 else j + len(close)
            else:
                j = i + (2 if c == "b" else 1)
                while j < n and text[j] != '"':
                    j += 2 if text[j] == "\\" else 1
                j += 1
            blank(i, j)
            i = j
        elif c == "'" or (c == "b" and text.startswith("b'", i)):
            m = re.match(r"b?'(\\.[^']*|[^'\\])'", text[i:])
            if m:
                blank(i, i + m.end())
                i += m.end()
            else:
                i += 1  # a lifetime
        elif c == "#" and text.startswith("#[", i):
            depth, j = 0, i + 1
            while j < n:
                if text[j] == "[":
                    depth += 1
                elif text[j] == "]":
                    depth -= 1
                    if depth == 0:
                        j += 1
                        break
                j += 1
            blank(i, j)
            i = j
        else:
            i += 1
    return "".join(out)


OPS = [
    # (name, regex on masked text, [replacements])
    ("rel", r"(?<![<>=!\-])<=(?!=)", ["<"]),
    ("rel", r"(?<![<>=!\-])>=(?!=)", [">"]),
    ("rel", r"(?<=\s)<(?=\s)", ["<="]),
    ("rel", r"(?<=\s)>(?=\s)", [">="]),
    ("eq", r"==", ["!="]),
    ("eq", r"!=", ["=="]),
    ("logic", r"&&", ["||"]),
    ("logic", r"\|\|(?=\s)", ["&&"]),
    ("arith", r"(?<=\s)\+(?=\s)", ["-"]),
    ("arith", r"(?<=\s)-(?=\s)", ["+"]),
    ("arith", r"(?<=\s)\*(?=\s)", ["+"]),
    ("arith", r"\+=", ["-="]),
    ("arith", r"-=", ["+="]),
    ("int", r"(?<![\w.\"'#])(\d+)(?![\w.'\"]|\.\d)", ["+1", "-1"]),
    ("bool", r"\btrue\b", ["false"]),
    ("bool", r"\bfalse\b", ["true"]),
    ("not", r"(?<=[\s(])!(?=[\w(*&])", [""]),
    ("flow", r"\bcontinue\b", ["break"]),
    ("flow", r"\bbreak\b", ["continue"]),
    ("call", r"\.to_lowercase\(\)", [".to_uppercase()", ".to_string()"]),
    ("call", r"\.to_ascii_lowercase\(\)", [".to_ascii_uppercase()"]),
    ("call", r"\.first\(\)", [".last()"]),
    ("call", r"\.last\(\)", [".first()"]),
    ("call", r"\.min\(", [".max("]),
    ("call", r"\.max\(", [".min("]),
    ("call", r"\bsort_unstable\(\)", ["reverse()"]),
    ("call", r"\.sort\(\)", [".reverse()"]),
    ("call", r"\.starts_with\(", [".ends_with(", ".contains("]),
    ("call", r"\.ends_with\(", [".starts_with("]),
    ("call", r"\bsplitn\(2, ", ["splitn(3, "]),
    ("call", r"\btrim_ascii\(", ["trim_ascii_start(", "trim_ascii_end("]),
    ("call", r"\.is_empty\(\)", [".is_empty() == false"]),
    ("call", r"\.is_some\(\)", [".is_none()"]),
    ("call", r"\.is_none\(\)", [".is_some()"]),
    ("call", r"\.push\(", [".insert(0, "]),
    ("call", r"\.checked_sub_signed\(", [".checked_add_signed("]),
    ("call", r"\.checked_add_signed\(", [".checked_sub_signed("]),
    ("call", r"\bct_eq\(", ["eq("]),
    ("iter", r"\.iter\(\)", [".iter().rev()", ".iter().skip(1)", ".iter().take(1)"]),
    ("iter", r"\.keys\(\)", [".keys().take(1)"]),
    ("range", r"\.\.=", [".."]),
    ("range", r"(?<=\[)(\d+)\.\.", ["+1r", "-1r"]),
    ("opt", r"\.unwrap_or\(b\"\"\)", [".unwrap_or(b\"x\")"]),
    ("opt", r"\bSome\(([a-z_]+)\) =>", ["None =>"]),
    ("variant", r"UriElement::Path\b", ["UriElement::Query"]),
    ("variant", r"UriElement::Query\b", ["UriElement::Path"]),
    ("variant", r"DecoderTrap::Strict\b", ["DecoderTrap::Replace", "DecoderTrap::Ignore"]),
]


def stmt_deletions(text, masked, limit):
    """Whole-line statements `recv.method(args);` (no `let`, no `return`) that can be deleted."""
    out = []
    pos = 0
    for line in masked[:limit].split("\n"):
        m = re.match(r"^(\s+)([a-z_][\w.]*\.(sort|sort_unstable|push|push_str|truncate|pop|extend|insert|remove|retain|dedup|clear|reverse)\b.*;)\s*$", line)
        if m and "let " not in line and "return" not in line:
            out.append((pos + len(m.group(1)), pos + len(m.group(1)) + len(m.group(2))))
        pos += len(line) + 1
    return out


def gen(outdir, only=None):
    os.makedirs(outdir, exist_ok=True)
    muts = []
    for f in FILES:
        text = open(os.path.join(REPO, f)).read()
        limit = code_region(text)
        masked = mask(text)
        for name, rx, reps in OPS:
            for m in re.finditer(rx, masked[:limit]):
                old = text[m.start():m.end()]
                for rep in reps:
                    if rep in ("+1r", "-1r"):
                        v = int(m.group(1))
                        if v == 0 and rep == "-1r":
                            continue
                        new = str(v + 1 if rep == "+1r" else v - 1) + ".."
                    elif name == "int":
                        v = int(old)
                        if v > 100000:
                            continue
                        new = str(v + 1) if rep == "+1" else str(v - 1)
                        if v == 0 and rep == "-1":
                            continue
                    else:
                        new = rep
                    if name == "opt" and rep == "None =>":
                        continue  # not type-correct in general
                    muts.append({"file": f, "start": m.start(), "end": m.end(), "old": old, "new": new, "op": name, "line": text.count("\n", 0, m.start()) + 1})
        for m in re.finditer(r"\bif (?!let\b)([^{};]+?) \{", masked[:limit]):
            a, b = m.start(1), m.end(1)
            if "\n" in text[a:b]:
                continue
            for rep in ("true", "false"):
                muts.append({"file": f, "start": a, "end": b, "old": text[a:b], "new": rep, "op": "cond", "line": text.count("\n", 0, a) + 1})
        for m in re.finditer(r"\b([a-z_][\w:]*)\(([^(),\n]+), ([^(),\n]+)\)", masked[:limit]):
            a, b = m.start(2), m.end(3)
            if text[m.start(2):m.end(2)].strip() == text[m.start(3):m.end(3)].strip():
                continue
            muts.append({"file": f, "start": a, "end": b, "old": text[a:b], "new": text[m.start(3):m.end(3)] + ", " + text[m.start(2):m.end(2)], "op": "argswap", "line": text.count("\n", 0, a) + 1})
        for a, b in stmt_deletions(text, masked, limit):
            muts.append({"file": f, "start": a, "end": b, "old": text[a:b], "new": "", "op": "delstmt", "line": text.count("\n", 0, a) + 1})
    if only:
        muts = [m for m in muts if m["op"] in only]
    for i, m in enumerate(muts):
        m["id"] = "N%04d" % i if only else "M%04d" % i
    json.dump(muts, open(os.path.join(outdir, "all.json"), "w"), indent=0)
    by = {}
    for m in muts:
        by[m["op"]] = by.get(m["op"], 0) + 1
    print(len(muts), "mutants", by)


def sh(cmd, cwd, timeout=None, env=None):
    try:
        r = subprocess.run(cmd, shell=True, cwd=cwd, stdout=subprocess.PIPE, stderr=subprocess.STDOUT, text=True, timeout=timeout, env=env, errors="replace")
        return r.returncode, r.stdout
    except subprocess.TimeoutExpired as e:
        return 124, "TIMEOUT " + (e.stdout.decode("utf-8", "replace") if isinstance(e.stdout, bytes) else (e.stdout or ""))[-300:]


def worker(outdir, wi, items):
    wt = os.path.join(outdir, "w%d" % wi)
    if not os.path.exists(wt):
        rc, out = sh("git -C /repo worktree add --detach %s HEAD -q" % wt, "/")
        assert rc == 0, out
    env = dict(os.environ, CARGO_TARGET_DIR=os.path.join(wt, "target"), CARGO_NET_OFFLINE="true")
    sh("cargo test --offline --lib --no-run -q", wt, env=env)  # warm the dependency build
    res = []
    for m in items:
        rp = os.path.join(outdir, "results", m["id"] + ".json")
        if os.path.exists(rp):
            continue
        sh("git checkout -q -- .", wt)
        p = os.path.join(wt, m["file"])
        text = open(p).read()
        assert text[m["start"]:m["end"]] == m["old"], (m, text[m["start"]:m["end"]])
        open(p, "w").write(text[:m["start"]] + m["new"] + text[m["end"]:])
        rc, out = sh("cargo test --offline --lib -q 2>&1 | tail -15", wt, timeout=240, env=env)
        if "error: could not compile" in out or re.search(r"^error(\[E\d+\])?:", out, re.M) and "test result" not in out:
            st = "nocompile"
        elif "72 passed; 0 failed" in out:
            st = "survivor"
        elif rc == 124 or "TIMEOUT" in out:
            st = "timeout"
        elif "test result: FAILED" in out or "failed" in out:
            st = "killed"
        else:
            st = "other"
        m2 = dict(m, status=st)
        if st == "survivor":
            d = os.path.join(outdir, "survivors", m["id"])
            os.makedirs(d, exist_ok=True)
            rc2, diff = sh("git diff", wt)
            open(os.path.join(d, "patch.diff"), "w").write(diff)
            json.dump({"summary": "%s:%d %s `%s` -> `%s`" % (m["file"], m["line"], m["op"], m["old"], m["new"]), "mutant": m}, open(os.path.join(d, "meta.json"), "w"), indent=1)
        if st == "other":
            m2["tail"] = out[-400:]
        json.dump(m2, open(rp, "w"))
        res.append(m2)
    sh("git checkout -q -- .", wt)
    return res


def run(outdir, workers):
    muts = json.load(open(os.path.join(outdir, "all.json")))
    os.makedirs(os.path.join(outdir, "results"), exist_ok=True)
    os.makedirs(os.path.join(outdir, "survivors"), exist_ok=True)
    chunks = [muts[i::workers] for i in range(workers)]
    with ThreadPoolExecutor(max_workers=workers) as ex:
        list(ex.map(lambda a: worker(outdir, a[0], a[1]), enumerate(chunks)))
    st = {}
    for m in muts:
        rp = os.path.join(outdir, "results", m["id"] + ".json")
        if os.path.exists(rp):
            s = json.load(open(rp))["status"]
            st[s] = st.get(s, 0) + 1
    print(st)


if __name__ == "__main__":
    if sys.argv[1] == "gen":
        gen(sys.argv[2], set(sys.argv[3].split(",")) if len(sys.argv) > 3 else None)
    else:
        run(sys.argv[2], int(sys.argv[3]) if len(sys.argv) > 3 else 8)
