#!/bin/bash
# Run tools/regress.sh on a frozen snapshot of /verif (hard-linked build cache), so that rules can be edited meanwhile.
rm -rf /tmp/verif-snap && mkdir -p /tmp/verif-snap && cd /verif && rsync -a --exclude .cache --exclude .git ./ /tmp/verif-snap/ && cp -al /verif/.cache /tmp/verif-snap/.cache
sed -i 's#^cd /verif#cd /tmp/verif-snap#' /tmp/verif-snap/tools/regress.sh
/tmp/verif-snap/tools/regress.sh
