#!/usr/bin/env python3
"""(Re)generate rules/tables/pinned_functions.json from the reviewed tree (/repo HEAD): {body path: fingerprint}.
The fingerprint (argument count + multiset of callees + constants, names of the item itself excluded) lets the
normaliser recognise a function that was only renamed or moved. Run ONLY when the tree has been re-reviewed."""
import hashlib, json, os, sys
sys.path.insert(0, os.path.join(os.path.dirname(os.path.dirname(os.path.abspath(__file__))), "rules"))
import factbase
import inline

out = {}
for feat in ("", "unstable"):
    fp, _ = factbase.facts_for("/repo", feat)
    fj = json.load(open(fp))
    for b in fj["bodies"]:
        out.setdefault(b["path"], inline.fingerprint(b))
p = os.path.join(os.path.dirname(os.path.dirname(os.path.abspath(__file__))), "rules", "tables", "pinned_functions.json")
json.dump(out, open(p, "w"), indent=0, sort_keys=True)
print(len(out), "functions pinned")
