#!/bin/bash
# Debug aid: fact files for every refactor of the corpus (parallel), then all rules on each with a timeout.
# usage: rfcheck.sh [pattern]   -> /tmp/pf/<id>.json, prints non-PASS results per refactor
cd /verif
pat=${1:-.}
mkdir -p /tmp/pf
ls refactors | grep -E "$pat" | xargs -P 12 -I{} sh -c 'python3 tools/patchfacts.py /verif/refactors/{}/patch.diff /tmp/pf/{}.json > /tmp/pf/{}.log 2>&1'
for r in $(ls refactors | grep -E "$pat"); do
  out=$(timeout 180 python3 tools/runfacts.py all /tmp/pf/$r.json 2>&1 | grep -v plus-in-path | cut -c1-200)
  rc=$?
  if [ -n "$out" ]; then echo "== $r"; echo "$out"; fi
done
