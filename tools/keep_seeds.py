#!/usr/bin/env python3
"""Copy confirmed seeded changes from a staging dir into /verif/seeded/<id>/ (patch.diff, demo.rs, meta.json).
usage: keep_seeds.py /tmp/seeds2 ; then `seedmatrix.py /verif/seeded` and `keep_seeds.py --update-detected`."""
import glob, json, os, shutil, sys
V = os.path.dirname(os.path.dirname(os.path.abspath(__file__)))
if sys.argv[1] == "--update-detected":
    M = json.load(open(os.path.join(V, "seeded", "MATRIX.json")))
    for name, r in M.items():
        mp = os.path.join(V, "seeded", name, "meta.json")
        if not os.path.exists(mp) or r.get("status") != "ran":
            continue
        m = json.load(open(mp))
        m["detected_by"] = sorted(r["caught"])
        m["detecting_rules"] = r["caught"]
        json.dump(m, open(mp, "w"), indent=1)
    print("updated", len(M))
    sys.exit(0)
n = 0
for d in sorted(glob.glob(os.path.join(sys.argv[1], "C*-*"))):
    name = os.path.basename(d)
    try:
        v = json.load(open(d + "/verify.json")); meta = json.load(open(d + "/meta.json"))
    except Exception as e:
        print("skip", name, e); continue
    if not v.get("confirmed"):
        print("NOT CONFIRMED", name); continue
    out = os.path.join(V, "seeded", name)
    os.makedirs(out, exist_ok=True)
    shutil.copy(d + "/patch.diff", out + "/patch.diff"); shutil.copy(d + "/demo.rs", out + "/demo.rs")
    m = {"id": name, "property": meta.get("property", name.split("-")[0]), "summary": meta.get("summary"), "why_breaks": meta.get("why_breaks"),
         "needs_to_manifest": meta.get("needs_to_manifest"), "demo_location": meta.get("demo_location"), "demo_cmd": meta.get("demo_cmd"),
         "origin": "independent sub-agent given only the property text, one-line summaries of earlier seeds to avoid, and its own scratch worktree of /repo (HEAD 6f826df)",
         "confirmed_by_me": {"demo_on_clean_tree": v["demo_clean"], "lib_suite_with_patch": v["lib_with_patch"], "demo_with_patch": v["demo_with_patch"].split("\n")[0], "commands": v["ran"]},
         "detected_by": [], "expected_detection": True}
    json.dump(m, open(out + "/meta.json", "w"), indent=1); n += 1
print(n, "kept")
