#!/usr/bin/env python3
"""Generate a fact file for /repo + patch (debug aid): patchfacts.py <patch> <out.json>"""
import os, shutil, subprocess, sys, tempfile
sys.path.insert(0, os.path.join(os.path.dirname(os.path.dirname(os.path.abspath(__file__))), "rules"))
import factbase
tmp = tempfile.mkdtemp(prefix="verif-pf-")
try:
    shutil.copytree("/repo/src", tmp + "/src")
    for f in ("Cargo.toml", "Cargo.lock"):
        shutil.copy("/repo/" + f, tmp + "/" + f)
    r = subprocess.run("patch -p1 -s -f < %s" % sys.argv[1], shell=True, cwd=tmp)
    subprocess.run("cp -al %s %s" % (factbase.CACHE + "/target-default", tmp + "/target"), shell=True)
    ok, log = factbase.generate(tmp, "", sys.argv[2], tmp + "/target")
    print("ok" if ok else log[-2000:])
finally:
    shutil.rmtree(tmp, ignore_errors=True)
