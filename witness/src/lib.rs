//! K12 auto-trait witness for C18 (reentrancy by type): this crate type-checking *is* the evidence.
//! Nothing here is ever executed; `cargo check` only.
#![allow(dead_code, clippy::all)]
use scratchstack_aws_signature::{
    auth::SigV4AuthenticatorResponse, service_for_signing_key_fn, sigv4_validate_request, ConstSignedHeaderRequirements,
    GetSigningKeyRequest, GetSigningKeyResponse, KDateKey, KRegionKey, KSecretKey, KServiceKey, KSigningKey, KeyTooLongError,
    SignatureError, SignatureOptions, SliceSignedHeaderRequirements, VecSignedHeaderRequirements,
    NO_ADDITIONAL_SIGNED_HEADERS,
};
use std::future::Future;

fn send<T: Send>() {}
fn sync<T: Sync>() {}
fn send_sync<T: Send + Sync>() {}
fn send_val<T: Send>(_: &T) {}

fn value_types() {
    send_sync::<SigV4AuthenticatorResponse>();
    send_sync::<KSecretKey>();
    send_sync::<KDateKey>();
    send_sync::<KRegionKey>();
    send_sync::<KServiceKey>();
    send_sync::<KSigningKey>();
    send_sync::<GetSigningKeyRequest>();
    send_sync::<GetSigningKeyResponse>();
    send_sync::<SignatureOptions>();
    send_sync::<ConstSignedHeaderRequirements>();
    send_sync::<SliceSignedHeaderRequirements<'static, 'static, 'static>>();
    send_sync::<VecSignedHeaderRequirements>();
    send_sync::<SignatureError>();
    send_sync::<KeyTooLongError>();
}

async fn provider(_r: GetSigningKeyRequest) -> Result<GetSigningKeyResponse, tower::BoxError> {
    Err("unused".into())
}

/// The future returned by the entry point is `Send` for `Send` inputs, so validations may run concurrently on a
/// multi-threaded executor; it borrows only its own arguments (no hidden shared mutable state is reachable by type).
fn entry_point_future_is_send() {
    let req = http::Request::new(bytes::Bytes::new());
    let mut svc = service_for_signing_key_fn(provider);
    let ts: chrono::DateTime<chrono::Utc> = chrono::DateTime::<chrono::Utc>::MIN_UTC;
    let fut = sigv4_validate_request(req, "r", "s", &mut svc, ts, &NO_ADDITIONAL_SIGNED_HEADERS, SignatureOptions::default());
    send_val(&fut);
    fn is_future<F: Future>(_: &F) {}
    is_future(&fut);
    let req2 = http::Request::new(Vec::<u8>::new());
    let mut svc2 = service_for_signing_key_fn(provider);
    let reqs = VecSignedHeaderRequirements::default();
    let fut2 = sigv4_validate_request(req2, "r", "s", &mut svc2, ts, &reqs, SignatureOptions::S3);
    send_val(&fut2);
}
